#!/usr/bin/env python3
"""Print the measured-coverage table of DESIGN.md section 0.1 from the
evidence files (quick: evidence/, thorough: evidence_thorough/)."""
import json
import os

HERE = os.path.dirname(os.path.abspath(__file__))


def load(d, pid):
    p = os.path.join(HERE, d, f'{pid}.json')
    if not os.path.exists(p):
        return None
    return json.load(open(p))


def cell(e):
    if e is None:
        return '-'
    c = e['coverage']
    ex = 'exhaustive' if c.get('exhaustive') else f"{len(c.get('caps_hit', []))} cap(s)"
    return (f"{c['states']:,} / {c['transitions']:,} / {len(c.get('parts', []))} parts, "
            f"{ex}, {e['wall_s']:.0f} s")


print('| id | quick: states / transitions / parts, wall | thorough: states / transitions / parts, wall |')
print('|----|--------------------------------------------|-----------------------------------------------|')
for i in range(1, 21):
    pid = 'C%02d' % i
    print(f'| {pid} | {cell(load("evidence", pid))} | {cell(load("evidence_thorough", pid))} |')
