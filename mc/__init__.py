"""Model-checking kernel for desper (see DESIGN.md section 2)."""
