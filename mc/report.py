"""Verdicts, replay artefacts, known findings and evidence (DESIGN.md 2.8)."""
import collections
import hashlib
import json
import os
import sys
import time

from mc import env

LEVEL = 'model_checking'
FINDINGS_FILE = os.path.join(env.VERIF, 'KNOWN_FINDINGS.txt')
REPLAY_DIR = os.path.join(env.VERIF, 'replays')
EVIDENCE_DIR = os.path.join(env.VERIF, 'evidence')


class Violation(Exception):
    """An oracle clause failed on the real code.

    ``clause``   name of the oracle clause (stable identifier)
    ``detail``   human readable expected/observed
    ``features`` small dict describing *where* it failed (part of the
                 signature that known findings are matched on)
    """

    def __init__(self, clause, detail='', **features):
        super().__init__(f'{clause}: {detail}')
        self.clause = clause
        self.detail = detail
        self.features = features

    def signature(self):
        sig = {'clause': self.clause}
        sig.update(self.features)
        return sig


class HarnessError(Exception):
    """The machinery itself is broken: exit 2, never a verdict."""


def jsonable(x):
    if isinstance(x, (str, int, float, bool)) or x is None:
        return x
    if isinstance(x, (list, tuple)):
        return [jsonable(i) for i in x]
    if isinstance(x, (set, frozenset)):
        return sorted((jsonable(i) for i in x), key=repr)
    if isinstance(x, dict):
        return {str(k): jsonable(v) for k, v in x.items()}
    return repr(x)


def load_findings(path=FINDINGS_FILE):
    """Parse KNOWN_FINDINGS.txt -> list of (property, signature, text)."""
    findings = []
    if not os.path.exists(path):
        return findings
    with open(path) as fin:
        for line in fin:
            line = line.strip()
            if not line.startswith('finding:'):
                continue
            body = line[len('finding:'):].strip()
            head, _, text = body.partition('::')
            head = head.strip()
            prop_part, _, sig_part = head.partition(' signature=')
            prop = prop_part.split('=', 1)[1].strip()
            findings.append((prop, json.loads(sig_part), text.strip()))
    return findings


def match_finding(findings, prop, signature):
    """A listed finding matches when every key it names has that value."""
    sig = jsonable(signature)
    for fprop, fsig, text in findings:
        if fprop != prop:
            continue
        if all(sig.get(k) == v for k, v in fsig.items()):
            return text
    return None


class Report:
    """Collects everything one check run covered and found."""

    def __init__(self, prop, tier, design_ref=''):
        self.prop = prop
        self.tier = tier
        self.t0 = time.time()
        self.states = 0
        self.transitions = 0
        self.evaluations = 0
        self.distinct_nontrivial = 0
        self.exhaustive = True
        self.rule = ''
        self.samples = []
        self.parts = []             # per sub-exploration statistics
        self.hits = collections.Counter()
        self.caps = []
        self.assumptions = []
        self.violations = {}        # signature json -> record (first = shortest)
        self.violation_count = 0
        self.known_seen = collections.Counter()
        self.extra = {}
        self.findings = load_findings()
        self.min_hits = {}
        self.harness_errors = []
        self.covered = set()

    # -- accumulation -------------------------------------------------
    def add_part(self, name, states, transitions, nontrivial, exhaustive,
                 samples=(), hits=None, caps=(), evaluations=None, **more):
        part = dict(name=name, states=states, transitions=transitions,
                    distinct_nontrivial=nontrivial, exhaustive=exhaustive,
                    caps=list(caps))
        part.update(jsonable(more))
        self.parts.append(part)
        self.states += states
        self.transitions += transitions
        self.evaluations += (transitions if evaluations is None
                             else evaluations)
        self.distinct_nontrivial += nontrivial
        self.exhaustive = self.exhaustive and exhaustive and not caps
        for cap in caps:
            self.caps.append(f'{name}: {cap}')
        for s in list(samples)[:3]:
            self.samples.append({'part': name, 'case': jsonable(s)})
        if hits:
            self.hits.update(hits)
            part['hits'] = dict(hits)

    def require_hits(self, **minimums):
        self.min_hits.update(minimums)

    def violation(self, part, viol, case, params=None):
        """Record one violation; the first per signature is kept."""
        self.violation_count += 1
        sig = jsonable(viol.signature())
        key = json.dumps(sig, sort_keys=True)
        if key in self.violations:
            self.violations[key]['count'] += 1
            return
        self.violations[key] = dict(part=part, signature=sig,
                                    clause=viol.clause, detail=viol.detail,
                                    case=jsonable(case),
                                    params=jsonable(params or {}), count=1)

    # -- output -------------------------------------------------------
    def _write_replay(self, rec):
        os.makedirs(REPLAY_DIR, exist_ok=True)
        digest = hashlib.blake2b(
            json.dumps([rec['part'], rec['signature'], rec['case']],
                       sort_keys=True).encode(), digest_size=6).hexdigest()
        path = os.path.join(REPLAY_DIR, f'{self.prop}-{digest}.json')
        with open(path, 'w') as fout:
            json.dump(dict(property=self.prop, tier=self.tier, **rec),
                      fout, indent=1, sort_keys=True)
        return path

    def finish(self):
        wall = time.time() - self.t0
        exit_code = 0
        lines = []
        unlisted = 0
        for key, rec in self.violations.items():
            text = match_finding(self.findings, self.prop, rec['signature'])
            if text is not None:
                self.known_seen[text] += rec['count']
                continue
            unlisted += 1
            path = self._write_replay(rec)
            lines.append(f'VIOLATION property={self.prop} replay={path}')
            sys.stderr.write(
                f'  [{rec["part"]}] {rec["clause"]}: {rec["detail"]}\n'
                f'    signature={json.dumps(rec["signature"], sort_keys=True)}'
                f' occurrences={rec["count"]}\n'
                f'    case={json.dumps(rec["case"])[:600]}\n')
            exit_code = 1
        for text, n in self.known_seen.items():
            print(f'KNOWN-FINDING: property={self.prop} {text}')

        # vacuity guard: declared shortcut counters must have been reached
        vacuous = [f'{k}: {self.hits.get(k, 0)} < {v}'
                   for k, v in self.min_hits.items()
                   if self.hits.get(k, 0) < v]
        if vacuous and exit_code == 0:
            self.harness_errors.append('vacuous exploration: '
                                       + '; '.join(vacuous))

        coverage = dict(
            states=self.states, transitions=self.transitions,
            traces_validated_against_impl=self.transitions,
            evaluations=self.evaluations,
            distinct_nontrivial=self.distinct_nontrivial,
            rule=self.rule, samples=self.samples[:12],
            exhaustive=bool(self.exhaustive and not self.caps),
            caps_hit=self.caps, parts=self.parts,
            shortcut_hits=dict(self.hits),
            known_findings_seen=dict(self.known_seen),
            unlisted_violation_signatures=unlisted,
            repo=env.REPO, workers=env.WORKERS,
        )
        try:
            from mc import cover
            self.covered |= cover.drain()
            anchors = []
            with open(os.path.join(env.VERIF, 'properties.jsonl')) as fin:
                for line in fin:
                    rec = json.loads(line)
                    if rec['id'] == self.prop:
                        anchors = rec['anchors']['files']
            coverage['anchored_line_coverage'] = cover.summary(self.covered,
                                                               anchors)
        except Exception as exc:      # coverage is information only
            coverage['anchored_line_coverage'] = {'error': repr(exc)}
        coverage.update(jsonable(self.extra))
        evidence = dict(property_id=self.prop, tier=self.tier, seed=env.SEED,
                        level=LEVEL, coverage=coverage,
                        assumptions=self.assumptions,
                        wall_s=round(wall, 3),
                        violations=self.violation_count)
        os.makedirs(EVIDENCE_DIR, exist_ok=True)
        target = os.environ.get('VERIF_EVIDENCE_DIR', EVIDENCE_DIR)
        os.makedirs(target, exist_ok=True)
        tmp = os.path.join(target, f'.{self.prop}.json.tmp')
        with open(tmp, 'w') as fout:
            json.dump(evidence, fout, indent=1, sort_keys=True)
            fout.write('\n')
        os.replace(tmp, os.path.join(target, f'{self.prop}.json'))
        if self.tier == 'thorough' and target == EVIDENCE_DIR:
            # keep the last thorough run next to the (quick) evidence that
            # the every-change runs keep rewriting
            keep = os.path.join(env.VERIF, 'evidence_thorough')
            os.makedirs(keep, exist_ok=True)
            with open(os.path.join(keep, f'{self.prop}.json'), 'w') as fout:
                json.dump(evidence, fout, indent=1, sort_keys=True)
                fout.write('\n')

        for line in lines:
            print(line)
        print(f'{self.prop} tier={self.tier} seed={env.SEED} '
              f'states={self.states} transitions={self.transitions} '
              f'nontrivial={self.distinct_nontrivial} '
              f'exhaustive={coverage["exhaustive"]} '
              f'violations={self.violation_count} (unlisted signatures '
              f'{unlisted}) wall={wall:.1f}s')
        if self.harness_errors:
            for err in self.harness_errors:
                sys.stderr.write(f'HARNESS ERROR: {err}\n')
            return 2 if exit_code == 0 else exit_code
        return exit_code


class Lookalike(IndexError, KeyError, ValueError, TypeError, AttributeError):
    """What harness callbacks raise.  User code may raise anything, in
    particular the exception types a library uses for its own control flow
    (EAFP look-ups, "pop until empty"): an ``except`` clause inside desper
    that is wrapped around a callback by mistake must not swallow it."""

    def __str__(self):
        return Exception.__str__(self)
