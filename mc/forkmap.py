"""Ordered parallel map over forked workers, without multiprocessing.Pool.

Pool keeps three helper threads and shares locked queues between its
workers; under heavy machine load a run was seen to block for ever inside
it (one worker left sleeping, parent waiting).  A check that hangs is a
broken check, so the explorer uses this instead: every call forks its
workers afresh, worker ``w`` computes tasks ``w, w + n, w + 2n, ...`` and
streams each pickled result through its own pipe; no lock, no thread, no
queue is shared.  Results are handed out in task order, so the exploration
stays a deterministic function of the task list.
"""
import os
import pickle
import selectors
import signal
import struct
import traceback

_HDR = struct.Struct('<Q')
LIVE = set()        # pids of running workers (for the SIGTERM handler)


class WorkerDied(Exception):
    pass


def _write_all(fd, data):
    view = memoryview(data)
    while view:
        n = os.write(fd, view)
        view = view[n:]


def _child(func, tasks, w, n, fd):
    code = 0
    try:
        signal.signal(signal.SIGTERM, signal.SIG_DFL)
        signal.signal(signal.SIGINT, signal.SIG_DFL)
        for idx in range(w, len(tasks), n):
            try:
                payload = pickle.dumps((idx, True, func(tasks[idx])),
                                       pickle.HIGHEST_PROTOCOL)
            except BaseException:
                payload = pickle.dumps((idx, False, traceback.format_exc()),
                                       pickle.HIGHEST_PROTOCOL)
                _write_all(fd, _HDR.pack(len(payload)) + payload)
                code = 1
                break
            _write_all(fd, _HDR.pack(len(payload)) + payload)
    except BaseException:
        code = 1
    finally:
        os._exit(code)


def imap(func, tasks, workers):
    """Yield ``func(task)`` for every task, in order.

    Closing the generator early (break, exception in the consumer) kills
    the workers.  A worker that ends without delivering all of its results
    raises WorkerDied; an exception inside ``func`` is re-raised here as
    WorkerDied carrying the worker's traceback.
    """
    tasks = list(tasks)
    n = max(1, min(workers, len(tasks)))
    if n == 1:
        for t in tasks:
            yield func(t)
        return
    pids = {}
    sel = selectors.DefaultSelector()
    bufs = {}
    try:
        for w in range(n):
            r, wfd = os.pipe()
            pid = os.fork()
            if pid == 0:
                os.close(r)
                # the read ends of the siblings forked before are open
                # here too; closing them keeps EOF detection exact
                for other in list(bufs):
                    try:
                        os.close(other)
                    except OSError:
                        pass
                _child(func, tasks, w, n, wfd)
            LIVE.add(pid)
            os.close(wfd)
            os.set_blocking(r, False)
            pids[r] = (pid, w)
            bufs[r] = bytearray()
            sel.register(r, selectors.EVENT_READ)
        ready = {}
        want = 0
        delivered = {r: 0 for r in pids}
        open_fds = set(pids)
        while want < len(tasks):
            if want in ready:
                yield ready.pop(want)
                want += 1
                continue
            if not open_fds:
                raise WorkerDied(f'all workers ended, result {want} of '
                                 f'{len(tasks)} never arrived')
            for key, _ in sel.select():
                r = key.fd
                try:
                    chunk = os.read(r, 1 << 20)
                except BlockingIOError:
                    continue
                if not chunk:
                    sel.unregister(r)
                    open_fds.discard(r)
                    pid, w = pids[r]
                    expected = len(range(w, len(tasks), n))
                    if delivered[r] != expected or bufs[r]:
                        raise WorkerDied(
                            f'worker {w} (pid {pid}) ended after '
                            f'{delivered[r]} of {expected} results')
                    continue
                buf = bufs[r]
                buf += chunk
                while len(buf) >= _HDR.size:
                    (size,) = _HDR.unpack_from(buf)
                    if len(buf) < _HDR.size + size:
                        break
                    idx, ok, val = pickle.loads(
                        bytes(buf[_HDR.size:_HDR.size + size]))
                    del buf[:_HDR.size + size]
                    if not ok:
                        raise WorkerDied(f'task {idx} raised in the '
                                         f'worker:\n{val}')
                    ready[idx] = val
                    delivered[r] += 1
    finally:
        for r, (pid, _) in pids.items():
            try:
                os.kill(pid, signal.SIGKILL)
            except OSError:
                pass
        for r, (pid, _) in pids.items():
            try:
                os.waitpid(pid, 0)
            except OSError:
                pass
            LIVE.discard(pid)
            try:
                os.close(r)
            except OSError:
                pass
        sel.close()
