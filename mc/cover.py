"""Line coverage of the desper package during an exploration (vacuity guard).

Uses sys.monitoring LINE events with DISABLE after the first hit of each
location, so the cost is one callback per distinct line per process.  Workers
drain their newly covered lines after every task; the master merges them.
"""
import os
import sys
import types

from mc import env

_PREFIX = os.path.join(env.REPO, 'desper') + os.sep
_TOOL = 1           # sys.monitoring.COVERAGE_ID
_covered = set()
_reported = set()
_started = False


def start():
    global _started
    if _started or not hasattr(sys, 'monitoring'):
        return
    mon = sys.monitoring
    try:
        mon.use_tool_id(_TOOL, 'desper-mc-cover')
    except ValueError:
        return
    _started = True

    def on_line(code, line):
        fn = code.co_filename
        if fn.startswith(_PREFIX):
            _covered.add((fn[len(_PREFIX):], line))
        return mon.DISABLE

    mon.register_callback(_TOOL, mon.events.LINE, on_line)
    mon.set_events(_TOOL, mon.events.LINE)


def drain():
    """Lines covered in this process since the previous drain."""
    global _reported
    new = _covered - _reported
    _reported |= new
    return new


def executable_lines(relpath):
    """Line numbers that carry code in desper/<relpath> (docstrings and
    definitions executed at import time included)."""
    path = os.path.join(_PREFIX, relpath)
    with open(path) as fin:
        src = fin.read()
    top = compile(src, path, 'exec')
    lines = set()
    stack = [top]
    while stack:
        code = stack.pop()
        for _, _, ln in code.co_lines():
            if ln:
                lines.add(ln)
        for const in code.co_consts:
            if isinstance(const, types.CodeType):
                stack.append(const)
    return lines


def body_lines(relpath):
    """Executable lines inside function bodies only (what an exploration can
    reach after import)."""
    path = os.path.join(_PREFIX, relpath)
    with open(path) as fin:
        src = fin.read()
    top = compile(src, path, 'exec')
    lines = set()

    def walk(code, inside):
        for const in code.co_consts:
            if isinstance(const, types.CodeType):
                is_func = not const.co_name.startswith('<') or \
                    const.co_name in ('<lambda>', '<genexpr>', '<listcomp>',
                                      '<dictcomp>', '<setcomp>')
                is_class = bool(const.co_flags & 0) or (
                    const.co_name[:1].isupper() and '__qualname__' in
                    const.co_names)
                child_inside = inside or (is_func and not is_class)
                if child_inside:
                    first = const.co_firstlineno
                    for _, _, ln in const.co_lines():
                        if ln and ln != first:
                            lines.add(ln)
                walk(const, child_inside)
    walk(top, False)
    return lines


def summary(covered, anchored_files):
    out = {}
    for rel in anchored_files:
        rel = rel[len('desper/'):] if rel.startswith('desper/') else rel
        try:
            body = body_lines(rel)
        except OSError:
            continue
        hit = {ln for f, ln in covered if f == rel}
        missed = sorted(body - hit)
        out['desper/' + rel] = dict(
            function_body_lines=len(body),
            executed=len(body & hit),
            missed=_ranges(missed))
    return out


def _ranges(nums):
    out = []
    i = 0
    while i < len(nums):
        j = i
        while j + 1 < len(nums) and nums[j + 1] <= nums[j] + 2:
            j += 1
        out.append(str(nums[i]) if i == j else f'{nums[i]}-{nums[j]}')
        i = j + 1
    return ','.join(out)
