"""Bind the checks to the working tree under $VERIF_REPO (default /repo).

Importing this module puts the repository first on sys.path, forbids
bytecode writes (nothing is written into the tree) and asserts that the
``desper`` package really comes from there.
"""
import os
import sys

REPO = os.path.realpath(os.environ.get('VERIF_REPO', '/repo'))
VERIF = os.path.dirname(os.path.dirname(os.path.abspath(__file__)))

sys.dont_write_bytecode = True
if sys.path[0] != REPO:
    sys.path.insert(0, REPO)
for _name in [n for n in sys.modules if n == 'desper' or n.startswith('desper.')]:
    del sys.modules[_name]

import desper  # noqa: E402

_where = os.path.realpath(desper.__file__)
if not _where.startswith(REPO + os.sep):
    sys.stderr.write(f'HARNESS ERROR: desper imported from {_where}, '
                     f'expected under {REPO}\n')
    sys.exit(2)

SEED = int(os.environ.get('VERIF_SEED', '0') or 0)
WORKERS = int(os.environ.get('VERIF_WORKERS', '0') or 0) or (os.cpu_count() or 4)
