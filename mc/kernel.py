"""E1: explicit-state breadth-first search over the real transition function.

A state is the operation history that reaches it.  Live desper objects do
not copy (weak references, generators), so every transition replays its
history on fresh objects.  Frontier levels are split over a fork pool; the
master de-duplicates on 16-byte digests of the canonical key.

Driver protocol (duck typed)::

    name                      str, used in reports
    initial()      -> ctx     fresh real objects + reference model
    ops(ctx)       -> list    enabled operations (JSON-able tuples), simplest first
    apply(ctx, op)            real call + model step + result comparison;
                              raises report.Violation on disagreement
    check(ctx)     -> obs     evaluates every query in the reached state, raises
                              Violation; returns a hashable observation vector
    key(ctx)       -> tuple   canonical key (model state + implementation graph)
    prune(ctx, op, exc) -> bool  (optional) an exception that belongs to another
                              property: branch is dropped and counted

``ctx.hits`` (collections.Counter) is reset by the kernel before the
transition under test so that shortcut counters count transitions, not
replays.
"""
import collections
import contextlib
import os
import signal
import time
import traceback

from mc import env, cover, forkmap
from mc.canon import digest
from mc.report import Violation, HarnessError

_DRIVER = None
OP_SECONDS = 20       # one transition incl. its state check
CASE_SECONDS = 300    # one case of an enumerated family


class OpTimeout(BaseException):
    """A single operation of the library did not return within the wall
    clock net (seconds, not milliseconds: three orders of magnitude above a
    normal operation).  BaseException so that library code cannot swallow
    it."""


@contextlib.contextmanager
def wall_net(seconds):
    """Wall-clock safety net around one operation / case (main thread of a
    worker process).  The deterministic step budget of mc.guard is used where
    termination is part of the property; this net only keeps a hang in a
    changed tree from hanging the check."""
    def on_alarm(signum, frame):
        raise OpTimeout(f'no return within {seconds}s')
    try:
        old = signal.signal(signal.SIGALRM, on_alarm)
    except ValueError:          # not in the main thread
        yield
        return
    signal.setitimer(signal.ITIMER_REAL, seconds)
    try:
        yield
    finally:
        signal.setitimer(signal.ITIMER_REAL, 0)
        signal.signal(signal.SIGALRM, old)


class Pruned(Exception):
    """Raised by a driver when a transition leaves the property's scope
    (e.g. the failure belongs to another property): counted, not expanded."""


def totuple(x):
    if isinstance(x, (list, tuple)):
        return tuple(totuple(i) for i in x)
    return x


def _ordered(ops):
    ops = list(ops)
    if env.SEED:
        import random
        random.Random(env.SEED).shuffle(ops)
    return ops


def replay(driver, hist):
    ctx = driver.initial()
    for op in hist:
        driver.apply(ctx, op)
    return ctx


def _expand(task):
    """Worker: expand a chunk of frontier states."""
    out = []
    driver = _DRIVER
    for hist, expected in task:
        try:
            ctx = replay(driver, hist)
            # the recorded key was taken after check() had looked at the
            # state: observation may legitimately fill caches in desper
            driver.check(ctx)
            got = digest(driver.key(ctx))
            if expected is not None and got != expected:
                # the canonical key is not a function of the history (e.g.
                # an address-dependent order materialised by the code under
                # test): states may fail to merge - slower, still sound.
                # Counted and reported; never a verdict by itself.
                out.append(('keydrift', hist, None, None))
            ops = _ordered(driver.ops(ctx))
        except Violation as v:
            if v.features.get('isolation'):
                # an explicit isolation probe of the driver (fresh objects
                # must not inherit state from earlier, unrelated objects)
                out.append(('viol', hist, ('<fresh objects>',),
                            (v.clause, v.detail, v.features)))
                continue
            out.append(('harness', hist, None,
                        f'violation while replaying a clean prefix: {v}'))
            continue
        except HarnessError as e:
            out.append(('harness', hist, None, str(e)))
            continue
        except Exception:
            out.append(('harness', hist, None, traceback.format_exc()))
            continue
        for op in ops:
            try:
                ctx = replay(driver, hist)
                ctx.hits = collections.Counter()
                ctx.under_test = True   # prefix replays are known to be clean
                try:
                    try:
                        with wall_net(OP_SECONDS):
                            driver.apply(ctx, op)
                            obs = driver.check(ctx)
                    except OpTimeout as t:
                        raise Violation(
                            'operation_terminates',
                            f'{op!r} (or the queries after it) did not '
                            f'return: {t}', op=op[0] if op else None)
                except Violation as v:
                    out.append(('viol', hist, op,
                                (v.clause, v.detail, v.features)))
                    continue
                except Pruned as exc:
                    out.append(('pruned', hist, op, (str(exc), dict(ctx.hits))))
                    continue
                k = digest(driver.key(ctx))
                out.append(('ok', hist, op,
                            (k, hash(obs) if obs is not None else 0,
                             dict(ctx.hits))))
            except HarnessError as e:
                out.append(('harness', hist, op, str(e)))
            except Exception:
                out.append(('harness', hist, op, traceback.format_exc()))
    return out, cover.drain()


def explore(driver, rep, part=None, max_depth=None, max_states=None,
            time_budget=None, workers=None, chunk=64, params=None):
    """Breadth-first exploration to fixpoint (or to the stated caps).

    Records violations in ``rep`` and adds one part with the statistics.
    Returns the dict of statistics.
    """
    global _DRIVER
    part = part or driver.name
    # safety nets: a change to desper may make a space that closes on the
    # pinned tree unbounded; a cap that is hit is reported, never hidden
    if max_states is None:
        max_states = 3000000
    if time_budget is None:
        time_budget = 900
    workers = workers or env.WORKERS
    t0 = time.time()
    _DRIVER = driver
    cover.start()

    try:
        ctx0 = driver.initial()
        driver.check(ctx0)
    except Violation as v:
        # the property already fails on freshly built objects
        rep.violation(part, v, [], params)
        rep.add_part(part, 1, 1, 0, exhaustive=False,
                     caps=['violation in the initial state: not explored'],
                     params=params or {})
        return dict(states=1, transitions=1)
    k0 = digest(driver.key(ctx0))
    # determinism self-check of the initial state
    again = driver.initial()
    driver.check(again)
    if digest(driver.key(again)) != k0:
        raise HarnessError(f'{part}: initial state is not deterministic')
    seen = {k0}
    frontier = [((), k0)]
    depth = 0
    transitions = 0
    nontrivial = 0
    obs_seen = set()
    hits = collections.Counter()
    per_op = collections.Counter()
    pruned = collections.Counter()
    behind_violation = 0
    drift = 0
    caps = []
    samples = []
    levels = []
    results = None
    try:
        while frontier:
            if max_depth is not None and depth >= max_depth:
                caps.append(f'depth cap {max_depth} reached with '
                            f'{len(frontier)} unexpanded states')
                break
            step = max(1, min(chunk, len(frontier) // (workers * 4) or 1))
            tasks = [frontier[i:i + step]
                     for i in range(0, len(frontier), step)]
            results = forkmap.imap(_expand, tasks, workers)
            nxt = []
            stop = None
            for res, lines in results:
                rep.covered |= lines
                for kind, hist, op, data in res:
                    if kind == 'keydrift':
                        drift += 1
                        continue
                    if kind == 'harness':
                        raise HarnessError(f'{part}: after {hist!r} op {op!r}:'
                                           f'\n{data}')
                    transitions += 1
                    per_op[op[0] if isinstance(op, (tuple, list)) else op] += 1
                    if kind == 'viol':
                        clause, detail, features = data
                        behind_violation += 1
                        rep.violation(part, Violation(clause, detail,
                                                      **features),
                                      list(hist) + [op], params)
                        continue
                    if kind == 'pruned':
                        # (what the transition exercised before the branch
                        # was closed still counts as exercised)
                        pruned[data[0]] += 1
                        hits.update(data[1])
                        continue
                    k, obs, h = data
                    obs_seen.add(obs)
                    hits.update(h)
                    if k in seen:
                        continue
                    seen.add(k)
                    if h:
                        nontrivial += 1
                    nxt.append((hist + (op,), k))
                if max_states is not None and len(seen) >= max_states:
                    stop = f'state cap {max_states} reached at depth {depth + 1}'
                    break
                if time_budget is not None and time.time() - t0 > time_budget:
                    stop = (f'time budget {time_budget}s reached at depth '
                            f'{depth + 1}')
                    break
                if rep.violations and time.time() - t0 > 45:
                    # the verdict is already a violation: do not burn the
                    # whole budget on a space the defect may have made huge
                    stop = (f'stopped at depth {depth + 1}: violations found '
                            f'and 45s spent in this part')
                    break
            results.close()         # kills the workers after an early stop
            levels.append(len(nxt))
            if nxt and len(samples) < 6:
                samples.append(list(nxt[len(nxt) // 2][0]))
            if stop:
                caps.append(stop)
                break
            frontier = nxt
            depth += 1
    finally:
        if results is not None:
            results.close()
    stats = dict(states=len(seen), transitions=transitions, depth=depth,
                 levels=levels, distinct_observations=len(obs_seen),
                 per_op=dict(per_op), pruned=dict(pruned),
                 not_expanded_behind_violation=behind_violation,
                 wall_s=round(time.time() - t0, 2))
    if samples:
        samples = samples[-3:]
    rep.add_part(part, len(seen), transitions, nontrivial,
                 exhaustive=not caps, samples=samples, hits=hits, caps=caps,
                 depth=depth, levels=levels,
                 distinct_observations=len(obs_seen), per_op=dict(per_op),
                 pruned=dict(pruned),
                 not_expanded_behind_violation=behind_violation,
                 replay_key_mismatches=drift,
                 params=params or {})
    return stats


def replay_case(driver, case):
    """Re-execute one recorded history; return the Violation or None."""
    hist = [totuple(op) for op in case]
    ctx = driver.initial()
    ctx.under_test = True
    try:
        for op in hist:
            ctx.hits = collections.Counter()
            driver.apply(ctx, op)
        driver.check(ctx)
    except Violation as v:
        return v
    return None


# -- E2 / E3: exhaustive enumeration of independent cases ---------------
_RUNNER = None


def _run_chunk(cases):
    out = []
    for case in cases:
        try:
            try:
                with wall_net(CASE_SECONDS):
                    info = _RUNNER(case)
            except OpTimeout as t:
                raise Violation('operation_terminates',
                                f'case did not finish: {t}')
            out.append(('ok', case, info))
        except Violation as v:
            out.append(('viol', case, (v.clause, v.detail, v.features)))
        except HarnessError as e:
            out.append(('harness', case, str(e)))
        except Exception:
            out.append(('harness', case, traceback.format_exc()))
    return out, cover.drain()


def enumerate_cases(runner, cases, rep, part, rule_nontrivial=None,
                    workers=None, chunk=200, params=None, exhaustive=True,
                    caps=(), sample_every=None):
    """Run ``runner(case)`` on every case of a finite family.

    ``runner`` raises Violation or returns a dict
    ``{'calls': int, 'hits': {...}, 'key': hashable}``: calls = number of
    implementation calls checked, key = what makes the case distinct.
    """
    global _RUNNER
    workers = workers or env.WORKERS
    _RUNNER = runner
    cover.start()
    t0 = time.time()
    cases = list(cases)
    tasks = [cases[i:i + chunk] for i in range(0, len(cases), chunk)]
    keys = set()
    nontrivial_keys = set()
    calls = 0
    hits = collections.Counter()
    samples = []
    results = forkmap.imap(_run_chunk, tasks, workers)
    try:
        for res, lines in results:
            rep.covered |= lines
            for kind, case, data in res:
                if kind == 'harness':
                    raise HarnessError(f'{part}: case {case!r}:\n{data}')
                if kind == 'viol':
                    clause, detail, features = data
                    rep.violation(part, Violation(clause, detail, **features),
                                  case, params)
                    calls += 1
                    keys.add(repr(case))
                    continue
                info = data or {}
                calls += info.get('calls', 1)
                k = info.get('key', repr(case))
                keys.add(k)
                h = info.get('hits') or {}
                hits.update(h)
                if info.get('nontrivial', bool(h)):
                    nontrivial_keys.add(k)
    finally:
        results.close()
    n = len(cases)
    if n:
        samples = [cases[0], cases[n // 2], cases[-1]]
    rep.add_part(part, len(keys), calls, len(nontrivial_keys),
                 exhaustive=exhaustive, samples=samples, hits=hits,
                 caps=caps, evaluations=n, params=params or {},
                 wall_s=round(time.time() - t0, 2))
    return dict(cases=n, distinct=len(keys), calls=calls)
