"""Deterministic step budget for operations that must terminate (2.6).

``with budget(n):`` counts 'line' events in frames whose code lives under the
desper package and raises :class:`BudgetExceeded` (a BaseException, so that
library code catching ``Exception`` cannot swallow it) after ``n`` of them.
"""
import contextlib
import os
import sys

from mc import env

_PREFIX = os.path.join(env.REPO, 'desper') + os.sep


class BudgetExceeded(BaseException):
    pass


@contextlib.contextmanager
def budget(lines=20000):
    state = {'n': 0}

    def local(frame, event, arg):
        if event == 'line':
            state['n'] += 1
            if state['n'] > lines:
                sys.settrace(None)
                raise BudgetExceeded(f'more than {lines} lines executed')
        return local

    def tracer(frame, event, arg):
        if frame.f_code.co_filename.startswith(_PREFIX):
            return local
        return None

    old = sys.gettrace()
    sys.settrace(tracer)
    try:
        yield state
    finally:
        sys.settrace(old)
