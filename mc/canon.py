"""Generic canonical form of an implementation object graph (DESIGN.md 2.5).

The walk is generic (``__dict__`` / slots of everything reachable), not a
hand-picked field list, so that state *added* to desper by a change cannot
silently fall outside the key.
"""
import collections
import hashlib
import itertools
import types
import weakref

_COUNT = type(itertools.count())
_ATOMS = (int, float, str, bytes, complex)


class CanonError(Exception):
    pass


def canon(roots, namer=lambda o: None, coarse=True, skip_attrs=()):
    """Return a nested tuple describing everything reachable from roots.

    ``namer(obj)`` returns a stable name for harness objects (components,
    handlers, handles, generators, ...) or None.  ``coarse`` drops dict
    insertion order.  ``skip_attrs`` names attributes never walked.
    """
    memo = {}

    def walk(o):
        if o is None:
            return None
        t = type(o)
        if t is bool:
            return ('b', o)
        if t in _ATOMS:
            return o
        name = namer(o)
        if name is not None:
            return ('N', name)
        if t in (list, tuple, collections.deque):
            return (t.__name__, tuple(walk(x) for x in o))
        if t in (set, frozenset):
            return ('set', tuple(sorted((walk(x) for x in o), key=repr)))
        if isinstance(o, collections.ChainMap):
            return ('chain', tuple(walk(m) for m in o.maps))
        if isinstance(o, dict):
            items = [(walk(k), walk(v)) for k, v in o.items()]
            if coarse:
                items.sort(key=lambda kv: repr(kv[0]))
            return ('dict', tuple(items))
        if isinstance(o, weakref.ref):
            return ('wr', walk(o()) if o() is not None else 'dead')
        if isinstance(o, types.GeneratorType):
            frame = o.gi_frame
            return ('gen', o.__qualname__,
                    frame.f_lasti if frame is not None else 'done')
        if t is _COUNT:
            return ('count', repr(o))
        if isinstance(o, (types.FunctionType, types.BuiltinFunctionType,
                          types.MethodDescriptorType, type)):
            return ('fn', getattr(o, '__module__', ''),
                    getattr(o, '__qualname__', repr(o)))
        if isinstance(o, types.MethodType):
            return ('meth', walk(o.__self__), o.__func__.__qualname__)
        # generic object: walk its attributes once
        oid = id(o)
        if oid in memo:
            return ('ref', memo[oid])
        memo[oid] = len(memo)
        fields = []
        d = getattr(o, '__dict__', None)
        if d is not None:
            fields.extend(d.items())
        for klass in t.__mro__:
            for slot in getattr(klass, '__slots__', ()):
                if slot in ('__dict__', '__weakref__'):
                    continue
                try:
                    fields.append((slot, object.__getattribute__(o, slot)))
                except AttributeError:
                    pass
        if t is object:
            # a bare sentinel: only its identity matters
            return ('sentinel', memo[oid])
        if d is None and not fields and t.__module__ != 'builtins':
            # opaque extension object with no visible state
            return ('obj', t.__module__, t.__qualname__)
        if d is None and not fields:
            # some other built-in value (range, bytearray, ...): by value
            # where the repr is one, else by type only (merges more: such an
            # object carries no state the walk could look into)
            text = repr(o)
            if ' at 0x' in text:
                return ('opaque', t.__qualname__)
            return ('value', t.__qualname__, text)
        fields = [(k, walk(v)) for k, v in sorted(fields, key=lambda kv: kv[0])
                  if k not in skip_attrs]
        return ('obj', t.__module__, t.__qualname__, tuple(fields))

    return tuple(walk(r) for r in roots)


def digest(key):
    """16-byte digest of a canonical key (what the explorer stores)."""
    return hashlib.blake2b(repr(key).encode(), digest_size=16).digest()
