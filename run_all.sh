#!/bin/sh
# usage: ./run_all.sh quick|thorough [ids...]   (convenience; not registered in MANIFEST)
tier=${1:-quick}; shift
ids=${@:-C01 C02 C03 C04 C05 C06 C07 C08 C09 C10 C11 C12 C13 C14 C15 C16 C17 C18 C19 C20}
rc=0
for id in $ids; do
  /usr/bin/time -f "$id %es" ./check $id --tier $tier 2>&1 | grep -E "VIOLATION|KNOWN-FINDING|HARNESS|tier=|^C[0-9]+ [0-9.]+s" 
  [ ${PIPESTATUS:-0} -ne 0 ] && rc=1
done
exit $rc
