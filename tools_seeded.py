#!/usr/bin/env python3
"""Confirm and evaluate a seeded property-breaking change.

  tools_seeded.py confirm <candidate_dir> <Cxx> <seed_id> [--tier quick]
      candidate_dir holds patch.diff, demo.py, notes.md (from a sub-agent).
      1. scratch worktree of /repo HEAD, patch applied
      2. the unedited test-suite must pass there (111 passed)
      3. demo.py must fail with the change and pass without it
      4. the property's check is run with VERIF_REPO pointing at the scratch
         tree (evidence redirected, /repo untouched); exit code recorded
      5. everything is stored as seeded/<seed_id>/{patch.diff,demo.py,
         notes.md,meta.json}; the scratch worktree is removed

  tools_seeded.py recheck [seed_id ...] [--tier quick] [--all-checks]
      re-run the check(s) against every stored seed and update meta.json
"""
import argparse
import json
import os
import re
import shutil
import subprocess
import sys
import tempfile

HERE = os.path.dirname(os.path.abspath(__file__))
SEEDED = os.path.join(HERE, 'seeded')
PY = '/venv/bin/python'


def sh(cmd, cwd=None, env=None, timeout=3600):
    p = subprocess.run(cmd, cwd=cwd, env=env, shell=isinstance(cmd, str),
                       capture_output=True, text=True, timeout=timeout)
    return p.returncode, p.stdout + p.stderr


def scratch_tree(patch):
    base = tempfile.mkdtemp(prefix='seedchk_', dir='/tmp')
    wt = os.path.join(base, 'wt')
    rc, out = sh(['git', '-C', '/repo', 'worktree', 'add', '-q', '--detach',
                  wt, 'HEAD'])
    if rc:
        raise SystemExit(out)
    rc, out = sh(['git', '-C', wt, 'apply', os.path.abspath(patch)])
    if rc:
        # /repo moved on (later fix: commits): merge the change instead
        rc, out = sh(['git', '-C', wt, 'apply', '--3way',
                      os.path.abspath(patch)])
    return base, wt, rc, out


def drop_tree(base, wt):
    sh(['git', '-C', '/repo', 'worktree', 'remove', '--force', wt])
    shutil.rmtree(base, ignore_errors=True)


def run_check(prop, wt, tier, timeout=1800):
    evdir = tempfile.mkdtemp(prefix='seed_ev_', dir='/tmp')
    env = dict(os.environ, VERIF_REPO=wt, VERIF_EVIDENCE_DIR=evdir)
    try:
        rc, out = sh([os.path.join(HERE, 'check'), prop, '--tier', tier],
                     cwd=HERE, env=env, timeout=timeout)
    except subprocess.TimeoutExpired:
        rc, out = 124, 'TIMEOUT'
    shutil.rmtree(evdir, ignore_errors=True)
    lines = [l for l in out.splitlines()
             if re.match(r'(VIOLATION|KNOWN-FINDING|HARNESS|C\d+ tier=)', l)
             or l.startswith('  [')]
    return rc, lines[:12]


def confirm(args):
    cand = os.path.abspath(args.candidate)
    patch = os.path.join(cand, 'patch.diff')
    demo = os.path.join(cand, 'demo.py')
    meta = dict(seed_id=args.seed_id, property=args.prop, source=cand)
    base, wt, rc, out = scratch_tree(patch)
    try:
        if rc:
            print('patch does not apply:', out)
            return 1
        rc, out = sh(f'{PY} -m pytest -q -p no:cacheprovider 2>&1 | tail -3',
                     cwd=wt)
        meta['suite_with_change'] = out.strip().splitlines()[-1]
        ok_suite = ' passed' in out and 'failed' not in out and '111' in out
        rc_demo_bad, out_bad = sh([PY, demo, wt], cwd=cand, timeout=600)
        rc_demo_good, out_good = sh([PY, demo, '/repo'], cwd=cand, timeout=600)
        meta['demo_with_change_exit'] = rc_demo_bad
        meta['demo_without_change_exit'] = rc_demo_good
        meta['demo_with_change_tail'] = out_bad.strip().splitlines()[-3:]
        print('suite:', meta['suite_with_change'], '| demo with change exit',
              rc_demo_bad, '| without', rc_demo_good)
        if not ok_suite or rc_demo_bad == 0 or rc_demo_good != 0:
            print('NOT CONFIRMED as a valid seed')
            meta['confirmed'] = False
            print(json.dumps(meta, indent=1))
            return 1
        meta['confirmed'] = True
        rc, lines = run_check(args.prop, wt, args.tier)
        meta['check'] = {args.prop: {'tier': args.tier, 'exit': rc,
                                     'output': lines}}
        meta['detected'] = rc == 1
        print(f'check {args.prop} ({args.tier}) exit {rc}')
        for l in lines:
            print('   ', l[:300])
    finally:
        drop_tree(base, wt)
    dest = os.path.join(SEEDED, args.seed_id)
    os.makedirs(dest, exist_ok=True)
    for name in ('patch.diff', 'demo.py', 'notes.md'):
        src = os.path.join(cand, name)
        if os.path.exists(src):
            shutil.copy(src, os.path.join(dest, name))
    meta['what_it_needs'] = ''
    notes = os.path.join(cand, 'notes.md')
    if os.path.exists(notes):
        meta['what_it_needs'] = open(notes).read()[:1500]
    meta['ran'] = [f'git apply patch.diff in a scratch worktree of /repo HEAD',
                   f'{PY} -m pytest -q -p no:cacheprovider',
                   f'{PY} demo.py <tree> (with and without the change)',
                   f'VERIF_REPO=<tree> ./check {args.prop} --tier {args.tier}']
    with open(os.path.join(dest, 'meta.json'), 'w') as fout:
        json.dump(meta, fout, indent=1)
    return 0


def recheck(args):
    ids = args.seed_ids or sorted(os.listdir(SEEDED))
    for sid in ids:
        d = os.path.join(SEEDED, sid)
        mpath = os.path.join(d, 'meta.json')
        if not os.path.exists(mpath):
            continue
        meta = json.load(open(mpath))
        if os.path.exists(os.path.join(d, 'STALE.md')):
            # a later fix: commit removed the code this change modified
            print(sid, 'stale (see STALE.md): not re-run')
            continue
        base, wt, rc, out = scratch_tree(os.path.join(d, 'patch.diff'))
        try:
            if rc:
                print(sid, 'patch no longer applies:', out.strip()[:200])
                meta['patch_applies'] = False
                continue
            props = [meta['property']]
            if args.all_checks:
                props = ['C%02d' % i for i in range(1, 21)]
            for prop in props:
                rc, lines = run_check(prop, wt, args.tier)
                meta.setdefault('check', {})[prop] = {
                    'tier': args.tier, 'exit': rc, 'output': lines}
                if prop == meta['property']:
                    meta['detected'] = rc == 1
                print(f'{sid} {prop} ({args.tier}) exit {rc}',
                      (lines[0][:160] if lines and rc == 1 else ''))
        finally:
            drop_tree(base, wt)
        with open(mpath, 'w') as fout:
            json.dump(meta, fout, indent=1)


def benign(args):
    """A behaviour-preserving change: every named check must stay silent."""
    cand = os.path.abspath(args.candidate)
    patch = os.path.join(cand, 'patch.diff')
    meta = dict(benign_id=args.benign_id, source=cand, checks={})
    base, wt, rc, out = scratch_tree(patch)
    try:
        if rc:
            print('patch does not apply:', out)
            return 1
        rc, out = sh(f'{PY} -m pytest -q -p no:cacheprovider 2>&1 | tail -3',
                     cwd=wt)
        meta['suite_with_change'] = out.strip().splitlines()[-1]
        if '111 passed' not in out:
            print('suite does not pass:', meta['suite_with_change'])
            return 1
        alarms = 0
        for prop in args.props:
            rc, lines = run_check(prop, wt, args.tier)
            meta['checks'][prop] = {'tier': args.tier, 'exit': rc,
                                    'output': lines[:6]}
            flag = '' if rc == 0 else '   <-- ALARM'
            alarms += rc != 0
            print(f'{args.benign_id} {prop} ({args.tier}) exit {rc}{flag}')
            if rc:
                for l in lines[:6]:
                    print('    ', l[:300])
        meta['silent'] = alarms == 0
    finally:
        drop_tree(base, wt)
    dest = os.path.join(HERE, 'benign', args.benign_id)
    os.makedirs(dest, exist_ok=True)
    for name in ('patch.diff', 'notes.md'):
        src = os.path.join(cand, name)
        if os.path.exists(src):
            shutil.copy(src, os.path.join(dest, name))
    with open(os.path.join(dest, 'meta.json'), 'w') as fout:
        json.dump(meta, fout, indent=1)
    return 0


def benign_recheck(args):
    root = os.path.join(HERE, 'benign')
    ids = args.benign_ids or sorted(os.listdir(root))
    alarms = 0
    for bid in ids:
        mpath = os.path.join(root, bid, 'meta.json')
        if not os.path.exists(mpath):
            continue
        meta = json.load(open(mpath))
        if os.path.exists(os.path.join(root, bid, 'STALE.md')):
            print(bid, 'stale (see STALE.md): not re-run')
            continue
        base, wt, rc, out = scratch_tree(os.path.join(root, bid, 'patch.diff'))
        try:
            if rc:
                print(bid, 'patch no longer applies')
                continue
            for prop in sorted(meta['checks']):
                rc, lines = run_check(prop, wt, args.tier)
                meta['checks'][prop] = {'tier': args.tier, 'exit': rc,
                                        'output': lines[:6]}
                alarms += rc != 0
                print(f'{bid} {prop} ({args.tier}) exit {rc}'
                      + ('' if rc == 0 else '   <-- ALARM'))
            meta['silent'] = all(c['exit'] == 0
                                 for c in meta['checks'].values())
        finally:
            drop_tree(base, wt)
        with open(mpath, 'w') as fout:
            json.dump(meta, fout, indent=1)
    print('alarms:', alarms)
    return 1 if alarms else 0


def main():
    ap = argparse.ArgumentParser()
    sub = ap.add_subparsers(dest='cmd', required=True)
    c = sub.add_parser('confirm')
    c.add_argument('candidate')
    c.add_argument('prop')
    c.add_argument('seed_id')
    c.add_argument('--tier', default='quick')
    r = sub.add_parser('recheck')
    r.add_argument('seed_ids', nargs='*')
    r.add_argument('--tier', default='quick')
    r.add_argument('--all-checks', action='store_true')
    b = sub.add_parser('benign')
    b.add_argument('candidate')
    b.add_argument('benign_id')
    b.add_argument('props', nargs='+')
    b.add_argument('--tier', default='quick')
    br = sub.add_parser('benign-recheck')
    br.add_argument('benign_ids', nargs='*')
    br.add_argument('--tier', default='quick')
    args = ap.parse_args()
    sys.exit({'confirm': confirm, 'recheck': recheck, 'benign': benign,
              'benign-recheck': benign_recheck}[args.cmd](args))


if __name__ == '__main__':
    main()
