#!/usr/bin/env python3
"""Regenerate MANIFEST.json from the table below (keeps it valid at all times)."""
import json
import os

HERE = os.path.dirname(os.path.abspath(__file__))

CHECKS = {
    # id: (technique, level text, note, design ref)
    'C01': ('explicit-state BFS of the real World to fixpoint (replay-based, canonical-key dedup) against a table model',
            'E1: all World operation histories over ids {1,2,3} x {A,B(A),X}, <=2 automatic ids per clear, explored to fixpoint under the coarse key and to a stated depth under the order-preserving key; every query family evaluated in every state Further parts: handler components whose lifecycle callbacks issue every query (order-preserving key), a callback that deletes and re-creates another entity, a lazily defined subclass, falsy and same-type-twice components, a stray deletion mark surviving clear(), query types that match only through isinstance (all query families must agree).',
            'CPython semantics; reference table model; coarse key drops dict order (DESIGN 2.5)', '3/C01'),
    'C02': ('explicit-state BFS of the real World with dispatch toggles to fixpoint (per-instance callback ledger vs table model), plus exhaustive fault enumeration while postponed callbacks are released and a fixpoint over callbacks that disable dispatching',
            'E1: all histories of World operations x enable/disable over handler/non-handler (some falsy) component classes and 2 ids, postponed queue bounded, explored to fixpoint; ledger, is_handler and a probe event checked after every transition / in every state. E2: <= 3 lifecycle ops while disabled x raise / re-disable-and-attach at every delivery position of the release. E1 (order-preserving key): handlers whose on_remove / on_add disable dispatching; listener probe issued from inside lifecycle callbacks; the instance an entity already owns given again; E3: a component that attaches itself to another entity from its own on_remove',
            'CPython semantics; harness keeps components alive; clear() while disabled excluded (documented conflict)', '3/C02'),
    'C05': ('explicit-state BFS of the real World to fixpoint: deferred deletion x every other operation x process, two-policy table model',
            'E1: deferred deletion mixed with every other World op on the same/other entity, deletion from inside a frame, deferred delete of a never-existing id, any number of process() calls, explored to fixpoint Further parts: handler whose on_remove deletes its own entity / re-creates another one, order-preserving single-entity part, identifiers of not mutually orderable types, an on_remove callback that raises once (later frames must not keep failing), an on_remove that deletes the other entity at once.',
            'CPython semantics; table model; admissible policies listed in DESIGN 3/C05', '3/C05'),
    'C06': ('bounded-exhaustive enumeration of every class DAG (all base orderings) x every component assignment x every query type on the real World',
            'E3: every class hierarchy Python accepts with <= 5 classes under every ordering of bases (6 classes in most-derived-first order, thorough), every subset of component / processor types on the entity, every query type, all six query methods; oracle issubclass; every class is a handler querying from on_remove while its entity is deleted; an ABC with a registered (virtual) subclass: queries must agree; processors added bases-first and subclasses-first',
            'CPython semantics (type.__subclasses__, MRO); fresh root classes per hierarchy', '3/C06'),
    'C07': ('explicit-state BFS of the real World processor list to fixpoint against a stable-sort list model; exhaustive list/probe/window enumeration for desper.bisect vs the standard library',
            'E1: all add_processor/remove_processor/process histories over 4 processor classes x priorities {None,-1,0,1,5} to fixpoint (fresh and re-added instances); E3: all sorted lists of length <= 6 over 4 values x all probes x all lo/hi windows, keyed and unkeyed Further: dispatch toggles (postponed processor callbacks), a processor removing itself inside its frame, mapped callback names with decoys, falsy processors, a handler processor whose on_remove raises (processors / get_processor / process must still agree), callbacks that read the world, value-equal processors.',
            'CPython semantics; standard library bisect as reference', '3/C07'),
    'C03': ('explicit-state BFS of a real EventDispatcher to fixpoint over every configuration of scripted re-entrant callbacks x every listener iteration order; exhaustive enumeration of decorator programs',
            'E1: add/remove/dispatch histories to fixpoint for every assignment of re-entrant actions (remove self/other, add, nested dispatch) to 3 handlers x all 3! listener orders x 4 event names x 6 argument shapes, delivery multiset judged per dispatch frame; E3: every event_handler decorator program on forests of <= 4 classes Further: handlers dying in the middle of a dispatch, an enabled dispatcher that still holds a backlog, falsy handlers, clear() followed by new registrations, one decorator object applied to several classes.',
            'CPython semantics; listener order owned through __hash__ of harness handlers (calibrated per process)', '3/C03'),
    'C04': ('explicit-state BFS of a real EventDispatcher to fixpoint with a raise / disable / disable-then-dispatch / nested-release fault injected at every delivery position of every release (deviation-bounded), global exactly-once-in-order ledger, deterministic step budget for termination; exhaustive SimpleLoop.switch sequences',
            'E1+E2: all interleavings of dispatch / enable / disable / add / remove listener (queue <= 5 with one fault, queue <= 2 with two faults, every single nested release), explored to fixpoint or a reported cap; termination decided by a line budget on desper frames; isolation probe (dispatchers hold their own events); every sequence of <= 4 direct loop.switch(handle, clear_current, clear_next) calls over worlds that load disabled with queued events; E3: a callback of the release removes / adds / swaps listeners (every queue <= 5, position, action); E1: the World as dispatcher with lifecycle callbacks that close the gate',
            'CPython semantics; sys.settrace line budget (20000 lines) stands for non-termination', '3/C04'),
    'C10': ('exhaustive enumeration of drop points x callback actions x listener iteration orders on a real EventDispatcher and World',
            'E2: k <= 3 listeners, every subset dropped between operations, full product of per-callback actions (drop / remove / immediate delete / deferred delete of any listener) x all k! orders, followed by process and further dispatches; weak references of the harness prove release Variants: half-registered listener, first dispatch released by the enabling assignment; position of every call judged against the moment the last reference was dropped. E3: dispatcher after losing a listener to the collector vs after remove_handler under every later history of <= 5 operations; E2: components detached while disabled, every subset of postponed on_remove callbacks raising once; object graph of the dispatcher after 1, 2 and 6 register / dispatch / drop cycles.',
            'CPython reference counting (immediate finalisation at refcount 0)', '3/C10'),
    'C08': ('explicit-state BFS of a real CoroutineProcessor to quiescence/fixpoint against an independent-clock model updated online from hooks in scripted generator bodies',
            'E1: <= 3 coroutines with every yield script of length <= 3 over {None,0,-1,0.5,1,2} (plus in-body spawns), every start point, every dt sequence over {0,0.5,1,2} until quiescence; parts with three overlapping waits, sleepers killed / restarted from outside and from inside bodies; set of bodies advanced per frame, relative order of runnable coroutines, early / late wake-ups; E3: every assignment of waits to <= 6 sleepers (permutations of 7), started together or one per frame',
            'CPython semantics; dyadic values keep float arithmetic exact', '3/C08'),
    'C09': ('explicit-state BFS of a real CoroutineProcessor to fixpoint over start/kill/restart/process issued from outside and from inside bodies, lifecycle state machine model, generic reachability for release',
            'E1: fixed sets of scripted generators (runnable, waiting, finishing, killing themselves / others, starting others), every interleaving of start / kill / process / bad-argument calls to fixpoint; state(), promise value and reachability from the processor checked after every transition Further sets: kill-start-self-return, kill-other, three waiters; hand-over of a killed coroutine between two processors (isolation), non-positive waits, a body that starts another coroutine and sleeps or returns in the same step, the wait-orders family of C08.',
            'CPython semantics; restart of an already returned generator from inside bodies left out (unobservable order)', '3/C09'),
    'C11': ('explicit-state BFS of a real ResourceMap (fixpoint for keys of depth <= 2, fixpoint / bounded depth for depth 3) against a nested-dict model with layers',
            'E1: all histories of m[key]=value over the 14 keys of depth <= 3 x {handle, empty map, pre-populated map, pre-layered map}, clear() on root / sub-map, added handle layers; all 14 keys looked up through three access styles and all back-links checked in every state Further parts: empty path components, re-assignment of an overwritten object, one handle stored at two places, falsy and value-equal handles, an overwritten map stored again elsewhere, ResourceMap.split_char changed between operations.',
            'CPython semantics; each value inserted once; coarse key drops dict order, order-preserving run to depth 3', '3/C11'),
    'C15': ('bounded-exhaustive enumeration of world descriptions from an explicit grammar through five entry variants (dict, dict handle, file handle at root / composite key / explicit sub-map) against an independent description->world function',
            'E3: every description of the grammar (<= 3 entities, <= 2 components, <= 2 processors, 13-value argument menu incl. the three reference forms, explicit / colliding ids), both entry points, handle at root and under a composite key; object_from_string on 13 dotted names; resource paths over 26 key classes x 4 positions x 4 delimiters; custom split_char; a failed first load attempt followed by the load under test; references to false objects and to false handles',
            'CPython semantics; in-memory modules registered in sys.modules by the harness; JSON files on tmpfs', '3/C15'),
    'C13': ('exhaustive enumeration of switch scripts on a real SimpleLoop with scripted clock and WorldHandle-loaded worlds; event ledger per world instance',
            'E2: every script of <= 3 requests (2 and 3 handles; 4 requests for the lean request menu) x target x clear_current x clear_next x source (processor / on_update callback / coroutine) x via (switch with from_world / through default_loop / bare raise) x pre-loaded or not, probes dispatched into every world left Falsy World subclasses, loops that are not desper.default_loop, stalled request sources reported as violations, requests issued from inside a release of held events and after the running code cleared its own handle, on_switch_in not before the requesting frame is over; all handles compare and hash equal.',
            'CPython semantics; desper.default_loop patched per case; load() count free', '3/C13'),
    'C14': ('exhaustive enumeration of frame scripts and restarts on a real SimpleLoop with a scripted clock',
            'E2: every script with <= 4 frames in total over <= 3 start() calls; frame = increment {0,0.5,1,3} x (nothing | processor position x {Quit, quit_loop(world), quit_loop(), SwitchWorld, RuntimeError}); per-frame ledger of world, processor and dt Clock bases hitting zero and exact Fractions around 2**60; direct loop.switch, handle cleared while its world runs, on_quit listener that raises, Quit / another exception raised while the loop enters the target world, falsy worlds, idle default loop, a switch towards the running handle, loop.time_function assigned during a run, three runs of one loop object.',
            'CPython semantics; dyadic clock readings', '3/C14'),
    'C18': ('complete value grids deciding bounded-degree polynomial identities with exact rational arithmetic; all swizzle strings; full {-1,0,1}^16 Mat4 inverse grid; tolerance grid for sqrt/angle operations',
            'E3: full grids per operation family (vector arithmetic, cross, lerp, clamp, limit, all swizzles, matrix sums/products on all basis pairs plus dense guards, associativity/identity laws, 43 046 721 integer Mat4 inverses in thorough, constructors through their action on points); sqrt/angle family is a bounded tolerance check only; extrapolating lerp, zero-length vectors written six ways, swizzle look-up histories with one forked process per case',
            'grid lemma: straight-line arithmetic of bounded per-variable degree (recorded in evidence); CPython int/Fraction exactness', '3/C18'),
    'C12': ('explicit-state BFS to fixpoint plus exhaustive enumeration of all access/clear sequences of a stated length over every access path of a real Handle / ResourceMap / StaticResourceMap',
            'E1/E3: all sequences of length <= 6 over six access paths + clear() x 8 loaded values (None, 0, empty containers, hostile __eq__/__bool__); load counter, identity and cached checked after every step Further: loaders that raise once, world-file $res{} access path, values with hostile __eq__, a finaliser running inside clear(), every Loop.switch(handle, clear_current, clear_next) history, switch requests through desper.switch, two handles under one name (layered map built by the real populator), resource names that are no slot names, value-equal handles on the loop.',
            'CPython semantics; values compared by identity only', '3/C12'),
    'C17': ('bounded-exhaustive enumeration of resource trees (names incl. non-identifiers, keyword, dunder; layered handles) against the live map, with mutation attempts on every snapshot',
            'E3: every resource tree with <= 4 nodes per map / <= 5 nodes in total over 6 names, two layering styles; every path through item, attribute and get access; every absent name; setattr/delattr attempts on every (sub-)snapshot followed by a full re-comparison; rounds of Handle.clear() after the snapshot was read (snapshot-first and map-first); re-snapshot after edits judged against the map itself; handle classes overriding __call__ / falsy / sized, a map class with its own split_char',
            'CPython semantics; names colliding with the snapshot\'s own members excluded (statement)', '3/C17'),
    'C19': ('explicit-state twin exploration of two real Worlds to fixpoint (controller shorthand vs World call, canonical-key equality); exhaustive enumeration of Prototype subclass shapes and OnUpdateProcessor cases',
            'E1: all World operation histories (2 ids, A/B(A)/X/Controller, processors, dispatch toggles) with every shorthand applied in every reached state to one twin through the Controller and to the other through World; E3: every Prototype shape (6 type lists x sources x prefix x subclass override), OnUpdateProcessor 0-3 listeners x dt sequences Reads compared after every operation, free-standing controller, controller handed to another entity, instance-level priorities, value-equal components, construction sources that raise while running.',
            'CPython semantics; twin equality through the generic canonical key', '3/C19'),
    'C20': ('explicit-state BFS over assignment histories on real Transform2D/3D instances with listeners on every event subset; exhaustive constructor / listener-subset families',
            'E1: all assignment histories to fixpoint (quick: depth 3) over 2 instances x 3 properties x 8 rotations / 3 vectors; E3: all listener subset pairs, all constructor argument combinations, registration histories with clear(), every sequence of <= 5 operations over assignments / disable / enable / clear / re-register, a listener pausing its own transform (or raising) during a release, listeners dropped / removed / added from inside a callback, falsy listeners',
            'CPython semantics', '3/C20'),
    'C16': ('bounded-exhaustive enumeration of real directory trees x rule sets x option combinations x directory listing orders against an independent tree->key-set function',
            'E3: every directory tree of the family (<= 4 entries, depth <= 3, names with / without extension, directories with extension, empty directories) x 1-2 rules (rule dir nested / missing / plain file; extension filters; extra args) x nest_on_conflict x trim_extensions (constructor / per call) x 1-2 populations x every os.scandir order for small directories; every way of handing the extension filter to add_rule (tuple, set, keys view, one-shot iterator; cleared / overwritten / recycled by the caller afterwards)',
            'CPython semantics; os.scandir wrapped to own the listing order; tmpfs scratch directories', '3/C16'),
}

NOT_YET = {p: 'check under construction (planned in DESIGN.md section 3); not claimed yet' for p in
           ['C%02d' % i for i in range(1, 21)] if p not in CHECKS}


def main():
    checks = []
    for pid, (tech, text, note, ref) in sorted(CHECKS.items()):
        checks.append({
            'property_id': pid,
            'quick_cmd': f'./check {pid} --tier quick',
            'thorough_cmd': f'./check {pid} --tier thorough',
            'evidence_file': f'/verif/evidence/{pid}.json',
            'replay_cmd_template': f'./check {pid} --replay {{path}}',
            'engine': 'desper-mc',
            'level_claimed': {'category': 'model_checking', 'text': text,
                              'design_ref': ref},
            'level_note': note,
            'technique': tech,
        })
    manifest = {
        'version': 1,
        'setup_cmd': '/venv/bin/python -c "import sys; sys.path.insert(0, \'/verif\'); import mc.env, mc.kernel, mc.report, mc.canon; print(\'desper-mc ready\')"',
        'hooks': {
            'guard': 'DESPER_VERIF',
            'enable': 'no hooks: the checks drive the unmodified package from /repo (VERIF_REPO overrides the tree)',
            'baseline_off_cmd': 'cd /repo && /venv/bin/python -m pytest -ra -q -p no:cacheprovider --timeout=900 --continue-on-collection-errors',
            'source_commits': [],
            'add_only': True,
        },
        'engines': [{
            'name': 'desper-mc',
            'path': '/verif/mc',
            'serves_properties': sorted(CHECKS),
            'kind_free_text': 'hand-written explicit-state / bounded-exhaustive explorer for Python, run on the real desper objects (E1 BFS with replay and canonical keys, E2 deviation-bounded choice enumeration, E3 exhaustive input families)',
        }],
        'checks': checks,
        'not_applicable': [{'property_id': p, 'reason': r}
                           for p, r in sorted(NOT_YET.items())],
        'notes': 'See DESIGN.md. Known findings: KNOWN_FINDINGS.txt. Seeded breaking changes: seeded/.',
    }
    with open(os.path.join(HERE, 'MANIFEST.json'), 'w') as fout:
        json.dump(manifest, fout, indent=1)
        fout.write('\n')


if __name__ == '__main__':
    main()
