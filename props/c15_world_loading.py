"""C15 - a loaded world contains exactly what its description says.

E3 (DESIGN.md 2.3): every member of an explicitly described, finite family of
world descriptions is loaded by the real desper code through every entry point
and compared with an oracle that is a *table*, not a parser: each argument
value of the grammar is one of the menu constants below and the table says
what a component must receive for it.

A case is the JSON-able tuple ``(entry, sparse, processors, entities)``,
``(entry, sparse, processors, entities, steps)`` or
``(entry, sparse, processors, entities, steps, tree)``:

    entry       'dict'            populate_world_from_dict(World(), d)
                'dict_handle'     WorldHandle whose only transform function is
                                  populate_world_from_dict, stored at 'w'
                'file_root'       WorldFromFileHandle stored at 'w'
                'file_composite'  WorldFromFileHandle stored with
                                  root['worlds/w'] = h (implicit sub-map)
                'file_submap'     root['worlds'] = ResourceMap() first, then
                                  root['worlds/w'] = h
                'file_extra'      as 'file_root', with one more transform
                                  function appended to the handle:
                                  populate_world_from_dict of EXTRA_ENTITY
                                  (id "hud", one Hnd component)
    sparse      true: empty 'args'/'kwargs'/'components'/'processors'/
                'entities' keys are omitted; false: written as []/{}
    processors  [[ 'A', args, kwargs ] | [ 'B', [], {} ], ...]
                (or [ 'C', [], {} ]: ProcB2, a subclass of ProcB)
    entities    [[ id | null, [[ 'P', args, kwargs ] | [ 'H', [], {} ], ...]]]
    steps       (optional; absent in the older 4-tuple form = []) what happens
                around the first load and its checks, in this order:
                at most one of 'customise_other_before' /
                'customise_other_after' (file entries whose description holds
                the pass-through string "$notref"): ANOTHER
                WorldFromFileHandle on the same file is created - before /
                after the handle under test is constructed, always before it
                loads - and a custom dict transformer that rewrites every
                string argument starting with "$notref" is appended in place
                to the dict transformers of ITS WorldFromFileTransformer; the
                other handle is then dropped (never loaded, never stored).
                The handle under test must load exactly as without it.
                'reload' (file entries whose description holds a $res{} /
                $handle{} marker): after the first load and its checks a
                fresh resource handle is assigned at root key 'a/b', the
                world handle is cleared and loaded again, and the second
                world is checked against the tree as it is *now*.  (Every
                further resource path of the case is replaced likewise.)
                at most one 'fail_<cause>_<who>' (file entries; never
                together with an isolation step): before the load under test
                a load attempt FAILS for a transient cause, then the cause is
                removed.  cause 'resource': load() of every resource handle
                of the tree raises (description holds a $res{} marker);
                'file': the world file is written only afterwards; 'module':
                the module of the argument "${c15h_late.OBJ}" is put into
                sys.modules only afterwards.  who 'same': the failed attempt
                is root[key] of the handle under test; 'other': of ANOTHER
                WorldFromFileHandle on the same file stored at root key 'w2'.
                If the attempt raises (any exception), the load under test
                must pass every clause; if it does not raise the case ends
                (nothing is promised about such a load).
    tree        (optional; absent = {}) {'split_char': c}: for the whole case
                ``desper.ResourceMap.split_char`` (class attribute) is c, one
                of '/', ':', '|', '.'; every composite key the harness uses
                (a/b, worlds/w, ...) is joined with c.  Put back to '/' at the
                end of the case.

The strings in ``args``/``kwargs`` are the literal JSON values written to the
file.  Beside the menu constants they may be the markers of PATH_TABLE:
``$res{...}`` / ``$handle{...}`` naming one of PATH_KEYS (keys with a dash, a
blank, '@', a leading digit, ...) at one of four positions of the tree; the
harness puts a resource handle at every path the case names.  A resource
marker must be replaced by what load() of the handle at that path returned
last (recorded by the harness handle itself, not asked from desper's cache).  For the two ``dict`` entries (real types, nothing is resolved there)
the harness passes the *resolved* description: the table's expected objects
stand where the reference markers were.
"""
import collections
import copy
import enum
import functools
import importlib
import itertools
import json
import os
import shutil
import sys
import tempfile
import threading
import types

from mc import env  # noqa: F401  (binds desper to $VERIF_REPO)
from mc import kernel
from mc.report import Violation, HarnessError

import desper
from desper.model.world import object_from_string

# --------------------------------------------------------------------------
# names of the in-memory modules (unique: nothing real is called like this)
MOD = 'c15h_mod'
PKG = 'c15h_pkg'
SUB = PKG + '.sub'
LATE = 'c15h_late'          # installed late by the 'fail_module_*' steps
_MODULE_NAMES = (MOD, PKG, SUB, LATE)

V_OBJ = '${%s.OBJ}' % MOD
V_ATTR = '${%s.Cls.attr}' % MOD
V_SUB = '${%s.OBJ}' % SUB
V_RES = '$res{a.b}'
V_HANDLE = '$handle{a.b}'
V_NOT_START = 'x ' + V_OBJ
V_NESTED = [V_OBJ]
V_EMPTY = ''                          # the empty string: passes through
V_DOLLAR = '$notref'
# outside the 14-value menu, own part ('extra-forms')
V_MARKTXT = '${%s.MARKTXT}' % MOD     # a str object whose text is '$res{a.b}'
V_LOCK = '${%s.LOCK}' % MOD           # a threading.Lock(): not deep-copyable
V_MODULE = '${%s}' % SUB              # a module object: not deep-copyable
# outside the 14-value menu, part 'failed-first-attempt'
V_LATE = '${%s.OBJ}' % LATE           # importable only once LATE is installed


# outside the 14-value menu, part 'falsy-objects': ${...} naming an object
# that is FALSE in a boolean context.  name -> attribute path below MOD
FALSY_OBJECTS = [
    ('zero', ['ZERO']), ('false', ['FALSE']), ('none', ['NONE']),
    ('empty_tuple', ['EMPTY_TUPLE']), ('empty_text', ['EMPTY_TEXT']),
    ('empty_list', ['EMPTY_LIST']), ('empty_dict', ['EMPTY_DICT']),
    ('enum_member_zero', ['Layer', 'BACKGROUND']),
    ('instance_bool_false', ['FALSY']), ('instance_len_zero', ['SIZED0']),
]
FALSY_KIND = 'falsy_object_ref'
FALSY_MARKER = {name: '${%s}' % '.'.join([MOD] + attrs)
                for name, attrs in FALSY_OBJECTS}
FALSY_MENU = [FALSY_MARKER[name] for name, _ in FALSY_OBJECTS]
# tree option 'falsy' (parts 'falsy-handles'): every resource handle of the
# tree is an instance of a Handle subclass that is false in a boolean context
# and loads a resource that is false as well
#   flavour               bool(handle)            load() returns
#   'len_zero'            __len__() == 0          a fresh empty list
#   'bool_false'          __bool__() is False     an object whose __bool__()
#                                                 is False
#   'false_until_loaded'  __bool__() == cached    None
FALSY_FLAVOURS = ('len_zero', 'bool_false', 'false_until_loaded')


def jkey(value):
    return json.dumps(value, sort_keys=True)


# menu value -> kind.  Kinds are also the names of the shortcut counters and
# the ``form`` feature of violation signatures.
MENU = [1, 1.5, None, 'plain', V_EMPTY, V_DOLLAR, V_NOT_START, V_NESTED,
        {'k': 'v'}, V_OBJ, V_ATTR, V_SUB, V_RES, V_HANDLE]
KINDS = ['int_passthrough', 'float_passthrough', 'null_passthrough',
         'plain_string', 'empty_string', 'dollar_not_marker',
         'marker_not_at_start',
         'nested_list_passthrough', 'dict_passthrough',
         'object_ref', 'attr_ref', 'package_ref', 'res_ref', 'handle_ref']
EXTRA_MENU = [V_MARKTXT, V_LOCK, V_MODULE]
EXTRA_KINDS = ['object_ref_to_marker_text', 'uncopyable_object_ref',
               'module_object_ref']
KIND_OF = {jkey(v): k for v, k in zip(MENU + EXTRA_MENU, KINDS + EXTRA_KINDS)}
KIND_OF[jkey(V_LATE)] = 'late_module_ref'
for _name, _text in FALSY_MARKER.items():
    KIND_OF[jkey(_text)] = FALSY_KIND + '_' + _name
FALSY_NAME_OF = {FALSY_KIND + '_' + name: name for name, _ in FALSY_OBJECTS}
del _name, _text
REF_KINDS = {'object_ref', 'attr_ref', 'package_ref', 'res_ref', 'handle_ref',
             'object_ref_to_marker_text', 'uncopyable_object_ref',
             'module_object_ref', 'late_module_ref', 'res_path_ref',
             'handle_path_ref'} | set(FALSY_NAME_OF)

# -- resource paths ---------------------------------------------------------
# Keys of a ResourceMap are arbitrary strings (file names, typically).  Each
# key of this menu is put at four positions of the enclosing tree and referred
# to by $res{...} / $handle{...}; the marker text is BUILT here from the key
# list ('.'.join), so that the oracle looks a marker up in PATH_TABLE and
# never parses it.
PATH_KEYS = [
    ('identifier', 'b2'), ('dash', 'player-idle'), ('blank', 'level 1'),
    ('at', 'tile@2x'), ('plus', 'a+b'), ('leading_digit', '2x'),
    ('nonascii_letter', 'caf\u00e9'), ('comma', 'x,y'), ('hash', '#1'),
    ('tilde', '~tmp'), ('apostrophe', "it's"), ('parens', '(1)'),
    ('brackets', '[1]'), ('equals', 'a=b'), ('percent', '50%'),
    ('bang', '!'), ('star', '*'), ('double_quote', '"q"'),
    ('colon', 'a:b'), ('slash', 'a/b'), ('backslash', 'a\\b'),
    ('pipe', 'a|b'), ('dollar', '$x'), ('only_blank', ' '),
    ('tab', 'x\ty'), ('line_break', 'x\ny'),
]
PATH_POSITIONS = {
    'top': lambda k: [k],                       # root[k]
    'leaf': lambda k: ['a', k],                 # next to a/b, a/c
    'mid': lambda k: ['d', k, 'leaf'],          # the key names a sub-map
    'mid_and_leaf': lambda k: ['d', k, k],
}
SPLIT_CHARS = ('/', ':', '|', '.')      # ResourceMap.split_char; '/' = stock
PATH_TABLE = {}     # marker text -> (which, key name, position, key list)
PATH_MARKER = {}    # (which, key name, position) -> marker text
for _name, _key in PATH_KEYS:
    for _pos, _make in PATH_POSITIONS.items():
        for _which in ('res', 'handle'):
            _text = '$' + _which + '{' + '.'.join(_make(_key)) + '}'
            PATH_TABLE[_text] = (_which, _name, _pos, _make(_key))
            PATH_MARKER[_which, _name, _pos] = _text
del _name, _key, _pos, _make, _which, _text


def kind_of(value):
    """Kind of an argument value: table look-up on the exact JSON value."""
    kind = KIND_OF.get(jkey(value))
    if kind is None and isinstance(value, str) and value in PATH_TABLE:
        kind = PATH_TABLE[value][0] + '_path_ref'
    return kind


def path_legal(keys, split_char):
    """The key list is addressable: no key holds the delimiter of the tree
    or the '.' of the marker syntax."""
    return all(k and split_char not in k and '.' not in k for k in keys)

ENTRIES = ('dict', 'dict_handle', 'file_root', 'file_composite',
           'file_submap')
EXTRA_ENTRY = 'file_extra'
ALL_ENTRIES = ENTRIES + (EXTRA_ENTRY, )
PLACEMENT = {'dict': 'none', 'dict_handle': 'root', 'file_root': 'root',
             'file_composite': 'composite', 'file_submap': 'submap',
             'file_extra': 'root'}
# key lists: joined with the delimiter of the case's tree
WORLD_KEY = {'dict_handle': ['w'], 'file_root': ['w'],
             'file_composite': ['worlds', 'w'],
             'file_submap': ['worlds', 'w'], 'file_extra': ['w']}
# what the further transform function of 'file_extra' adds (spec form, as in
# the ``entities`` of a case; the id is in no id menu)
EXTRA_ENTITY = ['hud', [['H', [], {}]]]
RELOAD = 'reload'
OTHER_BEFORE = 'customise_other_before'
OTHER_AFTER = 'customise_other_after'
ISOLATION_STEPS = (OTHER_BEFORE, OTHER_AFTER)
# 'fail_<cause>_<who>': a load attempt that fails for a transient cause
# precedes the load under test
FAIL_CAUSES = ('resource', 'file', 'module')
FAIL_WHO = ('same', 'other')
FAIL_STEPS = tuple(f'fail_{c}_{w}' for c in FAIL_CAUSES for w in FAIL_WHO)
STEPS = ISOLATION_STEPS + FAIL_STEPS + (RELOAD, )
OTHER_WORLD_KEY = 'w2'      # where the OTHER handle of 'fail_*_other' lives
# what the custom dict transformer of the OTHER handle makes of "$notref..."
REWRITTEN = 'rewritten by the dict transformer of another handle'


def notref_rewriter(world_handle, world, initial_dict, passthrough_dict):
    """Project specific dict transformer (signature of the stock ones): every
    string argument starting with "$notref" is replaced."""
    def map_function(arg):
        if isinstance(arg, str) and arg.startswith(V_DOLLAR):
            return REWRITTEN
        return arg

    args_list = passthrough_dict.get('args', [])
    kwargs_map = passthrough_dict.get('kwargs', {})
    args_list[:] = map(map_function, args_list)
    kwargs_map.update({k: map_function(v) for k, v in kwargs_map.items()})


# --------------------------------------------------------------------------
# harness classes.  They are published as attributes of the in-memory module
# ``c15h_mod`` so that the "type" strings of the JSON files resolve.
_CREATED = []


class Named:
    """Opaque importable object; identity is what is checked."""

    def __init__(self, label):
        self.label = label

    def __repr__(self):
        return f'<Named {self.label}>'


class Res:
    """What a resource handle loads."""

    def __init__(self, label):
        self.label = label

    def __repr__(self):
        return f'<Res {self.label}>'


class Unavailable(Exception):
    """What a resource handle raises while its resource is not there yet."""


_NEVER_LOADED = Named('<the resource handle never completed a load>')


class FalsyRes(Res):
    """A loaded resource that is false in a boolean context."""

    def __bool__(self):
        return False

    def __repr__(self):
        return f'<FalsyRes {self.label}>'


class EmptyListRes(list):
    """A loaded resource that is an empty list (identity is checked)."""

    def __init__(self, label):
        super().__init__()
        self.label = label

    def __repr__(self):
        return f'<EmptyListRes {self.label}>'


class FalsyNamed(Named):
    """Importable object whose __bool__() is False."""

    def __bool__(self):
        return False


class SizedNamed(Named):
    """Importable object whose __len__() is 0."""

    def __len__(self):
        return 0


Layer = enum.IntEnum('Layer', {'BACKGROUND': 0, 'FOREGROUND': 1})


class ResHandle(desper.Handle):
    """``switch['available']`` false: load() raises (transient cause).
    ``produced`` lists what load() returned, oldest first: the table's
    "loaded resource" is the last one, independently of desper's cache.
    The subclasses below are FALSE in a boolean context (tree option
    'falsy'); the harness never asks a handle for its truth value except to
    count the coverage names."""

    def make_resource(self):
        return Res(self.label)

    def __init__(self, label, switch=None):
        self.label = label
        self.loads = 0
        self.switch = switch if switch is not None else {'available': True}
        self.produced = []

    def load(self):
        self.loads += 1
        if not self.switch['available']:
            raise Unavailable(f'resource {self.label} is not there yet')
        self.produced.append(self.make_resource())
        return self.produced[-1]

    def __repr__(self):
        return f'<{type(self).__name__} {self.label}>'


class LenZeroHandle(ResHandle):
    """Sized like an empty collection; loads an empty list."""

    def __len__(self):
        return 0

    def make_resource(self):
        return EmptyListRes(self.label)


class BoolFalseHandle(ResHandle):
    def __bool__(self):
        return False

    def make_resource(self):
        return FalsyRes(self.label)


class FalseUntilLoadedHandle(ResHandle):
    """True once its resource is cached; the resource is None."""

    def __bool__(self):
        return self.cached

    def make_resource(self):
        return None


HANDLE_CLASSES = {None: ResHandle, 'len_zero': LenZeroHandle,
                  'bool_false': BoolFalseHandle,
                  'false_until_loaded': FalseUntilLoadedHandle}


class Plain:
    """Component recording its constructor arguments."""

    def __init__(self, *args, **kwargs):
        self.args = args
        self.kwargs = kwargs
        _CREATED.append(self)


@desper.event_handler('on_add', 'on_world_load')
class Hnd:
    """Handler component logging every callback with its arguments."""

    def __init__(self, *args, **kwargs):
        self.args = args
        self.kwargs = kwargs
        self.log = []
        _CREATED.append(self)

    def on_add(self, *args, **kwargs):
        self.log.append(('on_add', args, kwargs))

    def on_world_load(self, *args, **kwargs):
        self.log.append(('on_world_load', args, kwargs))


class ProcA(desper.Processor):
    def __init__(self, *args, **kwargs):
        self.args = args
        self.kwargs = kwargs
        _CREATED.append(self)

    def process(self, dt=1):
        pass


class ProcB(desper.Processor):
    def __init__(self, *args, **kwargs):
        self.args = args
        self.kwargs = kwargs
        _CREATED.append(self)

    def process(self, dt=1):
        pass


class ProcB2(ProcB):
    """A processor whose type is a subclass of another listed type."""


TYPES = {'P': Plain, 'H': Hnd, 'A': ProcA, 'B': ProcB, 'C': ProcB2}
TYPE_STRINGS = {'P': MOD + '.Plain', 'H': MOD + '.Hnd',
                'A': MOD + '.ProcA', 'B': MOD + '.ProcB',
                'C': MOD + '.ProcB2'}
PROC_TAGS = ('A', 'B', 'C')

_SCRATCH = None          # private directory for the generated JSON files
_COUNTER = itertools.count()


def _make_scratch():
    base = '/dev/shm' if os.path.isdir('/dev/shm') and os.access(
        '/dev/shm', os.W_OK) else None
    return tempfile.mkdtemp(prefix='c15_worlds_', dir=base)


class Harness:
    """Everything global one case touches: in-memory modules in
    ``sys.modules``, the lru_cache of ``object_from_string``, the class
    attribute ``ResourceMap.split_char``, one JSON file.
    All of it is put back on exit.

    split_char      delimiter of composite keys for the whole case
    paths           further key lists (PATH_TABLE) that get a resource handle
    late_installed  false: the module LATE is not importable until
                    install_late()
    falsy           None, or the flavour (FALSY_FLAVOURS) of every resource
                    handle of the tree
    """

    def __init__(self, split_char='/', paths=(), late_installed=True,
                 falsy=None):
        if split_char not in SPLIT_CHARS:
            raise HarnessError(f'delimiter {split_char!r} is not in the menu')
        if falsy not in HANDLE_CLASSES:
            raise HarnessError(f'unknown handle flavour {falsy!r}')
        self.falsy = falsy
        self.handle_cls = HANDLE_CLASSES[falsy]
        self.split_char = split_char
        self.paths = [list(keys) for keys in paths]
        self.late_installed = late_installed

    def key(self, *keys):
        """Composite key of the case's tree."""
        if not path_legal(keys, self.split_char):
            raise HarnessError(f'{keys!r} cannot be addressed with '
                               f'delimiter {self.split_char!r}')
        return self.split_char.join(keys)

    def __enter__(self):
        for name in _MODULE_NAMES:
            if name in sys.modules:
                raise HarnessError(f'{name} is already in sys.modules')
        if desper.ResourceMap.__dict__.get('split_char') != '/':
            raise HarnessError('ResourceMap.split_char is not the stock "/" '
                               'at the start of a case')
        desper.ResourceMap.split_char = self.split_char
        object_from_string.cache_clear()
        del _CREATED[:]
        self.own_scratch = None
        self.filename = None
        self.customised = []

        mod = types.ModuleType(MOD)
        pkg = types.ModuleType(PKG)
        pkg.__path__ = []
        sub = types.ModuleType(SUB)
        pkg.sub = sub
        for cls in TYPES.values():
            setattr(mod, cls.__name__, cls)
        self.obj = mod.OBJ = Named('mod.OBJ')
        self.attr = Named('mod.Cls.attr')
        mod.Cls = type('Cls', (), {'attr': self.attr})
        self.sub_obj = sub.OBJ = Named('pkg.sub.OBJ')
        self.sub_attr = Named('pkg.sub.Cls.attr')
        sub.Cls = type('Cls', (), {'attr': self.sub_attr})
        self.marktxt = mod.MARKTXT = ''.join(['$res', '{a.b}'])
        self.lock = mod.LOCK = threading.Lock()
        # named objects that are false in a boolean context
        mod.ZERO, mod.FALSE, mod.NONE = 0, False, None
        mod.EMPTY_TUPLE, mod.EMPTY_TEXT = (), ''
        mod.EMPTY_LIST, mod.EMPTY_DICT = [], {}
        mod.Layer = Layer
        mod.FALSY = FalsyNamed('mod.FALSY')
        mod.SIZED0 = SizedNamed('mod.SIZED0')
        self.falsy_objects = {
            name: functools.reduce(getattr, attrs, mod)
            for name, attrs in FALSY_OBJECTS}
        for name, obj in self.falsy_objects.items():
            if obj:
                raise HarnessError(f'the named object {name} is not false')
        self.mod, self.pkg, self.sub = mod, pkg, sub
        sys.modules[MOD] = mod
        sys.modules[PKG] = pkg
        sys.modules[SUB] = sub
        self.late = types.ModuleType(LATE)
        self.late_obj = self.late.OBJ = Named('late.OBJ')
        if self.late_installed:
            sys.modules[LATE] = self.late

        # the enclosing resource tree
        self.switch = {'available': True}
        self.root = desper.ResourceMap()
        self.h_ab = self.handle_cls('a/b', self.switch)
        self.h_ac = self.handle_cls('a/c', self.switch)
        self.h_r = self.handle_cls('r', self.switch)
        self.root[self.key('a', 'b')] = self.h_ab
        self.root[self.key('a', 'c')] = self.h_ac
        self.root[self.key('r')] = self.h_r
        self.path_handles = {}
        for keys in self.paths:
            if tuple(keys) in self.path_handles:
                continue
            hdl = self.handle_cls('/'.join(keys), self.switch)
            self.root[self.key(*keys)] = hdl
            self.path_handles[tuple(keys)] = hdl
        return self

    def install_late(self):
        sys.modules[LATE] = self.late
        self.late_installed = True

    def __exit__(self, *exc):
        # cases stay independent of each other even on a tree where the
        # sequence is shared between handles: what this case appended to the
        # OTHER handle's sequence is taken out of that same sequence again
        # (nothing of desper is touched; on the unchanged tree the sequence
        # dies with the other handle anyway)
        for seq in self.customised:
            try:
                while notref_rewriter in seq:
                    seq.remove(notref_rewriter)
            except Exception:
                pass
        del self.customised[:]
        desper.ResourceMap.split_char = '/'
        for name in _MODULE_NAMES:
            sys.modules.pop(name, None)
        object_from_string.cache_clear()
        del _CREATED[:]
        if self.filename is not None:
            try:
                os.unlink(self.filename)
            except FileNotFoundError:
                pass
        if self.own_scratch is not None:
            shutil.rmtree(self.own_scratch, ignore_errors=True)
        return False

    # -- the table ---------------------------------------------------------
    def expected(self, value, resolve=False):
        """menu value -> (kind, 'is' | 'eq', expected object).

        The loaded resource of a handle is what its load() returned last
        (``produced``), never what desper's cache answers; ``resolve``: the
        harness itself resolves the marker (dict entries) and loads the
        handle first if nobody has."""
        kind = kind_of(value)
        if kind is None:
            raise HarnessError(f'argument value {value!r} is not in the menu')

        def loaded(hdl):
            if resolve and not hdl.produced:
                hdl()
            return hdl.produced[-1] if hdl.produced else _NEVER_LOADED

        if kind in ('res_path_ref', 'handle_path_ref'):
            keys = tuple(PATH_TABLE[value][3])
            if keys not in self.path_handles:
                raise HarnessError(f'path {keys!r} is not in the tree')
            hdl = self.path_handles[keys]
            return kind, 'is', loaded(hdl) if kind == 'res_path_ref' else hdl
        if kind == 'object_ref':
            return kind, 'is', self.obj
        if kind == 'attr_ref':
            return kind, 'is', self.attr
        if kind == 'package_ref':
            return kind, 'is', self.sub_obj
        if kind == 'late_module_ref':
            return kind, 'is', self.late_obj
        if kind == 'res_ref':
            return kind, 'is', loaded(self.h_ab)
        if kind == 'handle_ref':
            return kind, 'is', self.h_ab
        if kind == 'object_ref_to_marker_text':
            return kind, 'is', self.marktxt
        if kind == 'uncopyable_object_ref':
            return kind, 'is', self.lock
        if kind == 'module_object_ref':
            return kind, 'is', self.sub
        if kind in FALSY_NAME_OF:
            return kind, 'is', self.falsy_objects[FALSY_NAME_OF[kind]]
        return kind, 'eq', value

    def replace_a_b(self):
        """Assign a fresh resource handle at root key 'a/b' and at every
        further path of the case; from now on the table expects those (and
        what they load)."""
        self.h_ab_old = self.h_ab
        self.h_ab = self.handle_cls('a/b (second)', self.switch)
        self.root[self.key('a', 'b')] = self.h_ab
        for keys in list(self.path_handles):
            hdl = self.handle_cls('/'.join(keys) + ' (second)', self.switch)
            self.root[self.key(*keys)] = hdl
            self.path_handles[keys] = hdl

    def customise_other_handle(self, filename):
        """ANOTHER WorldFromFileHandle on the same file gets a custom dict
        transformer, in place (the only way the API offers); the handle is
        dropped afterwards: never loaded, never stored in the tree."""
        probe = {'type': None, 'args': [V_DOLLAR, 'plain', 1],
                 'kwargs': {'k': V_DOLLAR + '{x}'}}
        notref_rewriter(None, None, copy.deepcopy(probe), probe)
        if probe != {'type': None, 'args': [REWRITTEN, 'plain', 1],
                     'kwargs': {'k': REWRITTEN}}:
            raise HarnessError('the custom dict transformer does not rewrite')
        other = desper.WorldFromFileHandle(filename)
        file_transformers = [
            f for f in other.transform_functions
            if isinstance(f, desper.WorldFromFileTransformer)]
        if len(file_transformers) != 1:
            raise HarnessError('a stock WorldFromFileHandle has '
                               f'{len(file_transformers)} file transformers')
        target = file_transformers[0]
        try:
            target.dict_transformers.append(notref_rewriter)
        except AttributeError:      # an immutable sequence: give it its own
            target.dict_transformers = (list(target.dict_transformers)
                                        + [notref_rewriter])
        if notref_rewriter not in target.dict_transformers:
            raise HarnessError('the other handle was not customised')
        self.customised.append(target.dict_transformers)

    def reserve(self):
        """Name of the case's JSON file; nothing is written yet."""
        global _SCRATCH
        directory = _SCRATCH
        if directory is None:
            directory = self.own_scratch = _make_scratch()
        self.filename = os.path.join(
            directory, f'w_{os.getpid()}_{next(_COUNTER)}.json')
        if os.path.exists(self.filename):
            raise HarnessError(f'{self.filename} exists already')
        return self.filename

    def write(self, description):
        if self.filename is None:
            self.reserve()
        with open(self.filename, 'w') as fout:
            json.dump(description, fout)
        return self.filename

    def describe(self, procs, ents, sparse, as_file):
        """The description handed to desper: JSON text values and type strings
        (file) or real types and the table's objects (dict)."""
        def value(v):
            if as_file:
                return copy.deepcopy(v)
            _, how, obj = self.expected(v, resolve=True)
            return obj if how == 'is' else copy.deepcopy(v)

        def item(spec):
            tag, args, kwargs = spec
            d = {'type': TYPE_STRINGS[tag] if as_file else TYPES[tag]}
            if args or not sparse:
                d['args'] = [value(v) for v in args]
            if kwargs or not sparse:
                d['kwargs'] = {k: value(v) for k, v in kwargs.items()}
            return d

        desc = {}
        if procs or not sparse:
            desc['processors'] = [item(p) for p in procs]
        elist = []
        for eid, comps in ents:
            e = {}
            if eid is not None:
                e['id'] = eid
            if comps or not sparse:
                e['components'] = [item(c) for c in comps]
            elist.append(e)
        if elist or not sparse:
            desc['entities'] = elist
        return desc


def same_value(a, b):
    """Equality and same type, recursively (pass-through values)."""
    if type(a) is not type(b):
        return False
    if isinstance(a, list):
        return len(a) == len(b) and all(map(same_value, a, b))
    if isinstance(a, dict):
        return (list(sorted(a)) == list(sorted(b))
                and all(same_value(a[k], b[k]) for k in a))
    return a == b


def short(obj, n=160):
    text = repr(obj)
    return text if len(text) <= n else text[:n] + '...'


def description_form(procs, ents):
    """Coarsest label of the reference markers a description contains
    (feature of failures that cannot be attributed to one argument)."""
    kinds = set()
    for _, args, kwargs in list(procs) + [c for _, cs in ents for c in cs]:
        for v in list(args) + list(kwargs.values()):
            kinds.add(kind_of(v))
    if kinds & {'uncopyable_object_ref', 'module_object_ref'}:
        return 'uncopyable_object_ref'
    if kinds & {'res_ref', 'handle_ref', 'res_path_ref', 'handle_path_ref'}:
        return 'resource_ref'
    if 'object_ref_to_marker_text' in kinds:
        return 'object_ref_to_marker_text'
    if kinds & set(FALSY_NAME_OF):
        return FALSY_KIND
    if kinds & {'object_ref', 'attr_ref', 'package_ref', 'late_module_ref'}:
        return 'object_ref'
    return 'no_ref'


def id_form(ents):
    live = [(eid, cs) for eid, cs in ents if cs]
    seen_one = False
    for eid, _ in live:
        if eid == 1:
            seen_one = True
        elif eid is None and seen_one:
            return 'colliding_explicit_id'
    if any(is_falsy_id(eid) for eid, _ in live):
        return 'falsy_explicit_id'
    if any(eid is not None for eid, _ in live):
        return 'explicit_id'
    return 'auto_id' if live else 'no_entity'


def is_falsy_id(eid):
    """An identifier that is given (not null) and false in a boolean context
    (0, ""): as legal a hashable as any other."""
    return eid is not None and not eid


def values_of(procs, ents):
    """Every argument value of a description."""
    for _, args, kwargs in list(procs) + [c for _, cs in ents for c in cs]:
        for v in list(args) + list(kwargs.values()):
            yield v


def has_kind(procs, ents, kinds):
    return any(kind_of(v) in kinds for v in values_of(procs, ents))


def has_resource_ref(procs, ents):
    """The description holds a $res{} / $handle{} marker."""
    return has_kind(procs, ents, ('res_ref', 'handle_ref', 'res_path_ref',
                                  'handle_path_ref'))


def has_res_marker(procs, ents):
    """The description holds a $res{} marker (a resource gets loaded)."""
    return has_kind(procs, ents, ('res_ref', 'res_path_ref'))


def has_late_ref(procs, ents):
    return has_kind(procs, ents, ('late_module_ref', ))


def paths_of(procs, ents):
    """Key lists of the path markers of a description (table look-up)."""
    out = []
    for v in values_of(procs, ents):
        if isinstance(v, str) and v in PATH_TABLE:
            if PATH_TABLE[v][3] not in out:
                out.append(PATH_TABLE[v][3])
    return out


def has_dollar_passthrough(procs, ents):
    """The description holds the pass-through string "$notref"."""
    for _, args, kwargs in list(procs) + [c for _, cs in ents for c in cs]:
        for v in list(args) + list(kwargs.values()):
            if kind_of(v) == 'dollar_not_marker':
                return True
    return False


# --------------------------------------------------------------------------
def split_case(case):
    """-> (entry, sparse, procs, ents, steps, tree); the 4-tuple form of
    older replay records has no steps, the 5-tuple form no tree options."""
    case = json.loads(json.dumps(case))
    if len(case) == 4:
        case = case + [[]]
    if len(case) == 5:
        case = case + [{}]
    if len(case) != 6:
        raise HarnessError(f'malformed case {case!r}')
    entry, sparse, procs, ents, steps, tree = case
    if entry not in ALL_ENTRIES:
        raise HarnessError(f'unknown entry {entry!r}')
    if not isinstance(tree, dict) or set(tree) - {'split_char', 'falsy'} or (
            tree.get('split_char', '/') not in SPLIT_CHARS) or (
            'falsy' in tree and tree['falsy'] not in FALSY_FLAVOURS):
        raise HarnessError(f'unknown tree options {tree!r}')
    if 'falsy' in tree and not (entry.startswith('file')
                                and has_resource_ref(procs, ents)):
        raise HarnessError(f'tree options {tree!r} need a file entry and a '
                           '$res{} / $handle{} marker')
    if not isinstance(steps, list) or any(s not in STEPS for s in steps):
        raise HarnessError(f'unknown steps {steps!r}')
    order = [STEPS.index(s) for s in steps]
    if order != sorted(set(order)) or len(
            [s for s in steps if s in ISOLATION_STEPS + FAIL_STEPS]) > 1:
        raise HarnessError(f'steps {steps!r}: at most one isolation or '
                           'failed-attempt step, then at most one reload')
    for step in steps:
        if step not in FAIL_STEPS:
            continue
        cause = step.split('_')[1]
        if not entry.startswith('file') or (
                cause == 'resource' and not has_res_marker(procs, ents)) or (
                cause == 'module' and not has_late_ref(procs, ents)):
            raise HarnessError(f'step {step!r} needs a file entry and a '
                               'marker whose resolution can fail')
    for keys in paths_of(procs, ents):
        if not entry.startswith('file') or not path_legal(
                keys, tree.get('split_char', '/')):
            raise HarnessError(f'path {keys!r} needs a file entry and a '
                               'delimiter that is in none of its keys')
    if RELOAD in steps and not (entry.startswith('file')
                                and has_resource_ref(procs, ents)):
        raise HarnessError(f'steps {steps!r} need a file entry and a '
                           '$res{} / $handle{} marker')
    if set(steps) & set(ISOLATION_STEPS) and not (
            entry.startswith('file') and has_dollar_passthrough(procs, ents)):
        raise HarnessError(f'steps {steps!r} need a file entry and a '
                           '"$notref" argument')
    return entry, sparse, procs, ents, steps, tree


def run_world_case(case):
    entry, sparse, procs, ents, steps, tree = split_case(case)
    late = not any(s.startswith('fail_module') for s in steps)
    with Harness(tree.get('split_char', '/'), paths_of(procs, ents),
                 late, tree.get('falsy')) as h:
        return _check_world_case(h, entry, sparse, procs, ents, steps,
                                 jkey(list(case)))


def _check_world_case(h, entry, sparse, procs, ents, steps, key):
    is_file = entry.startswith('file')
    extra = entry == EXTRA_ENTRY
    feat = dict(entry=(EXTRA_ENTRY if extra else 'file') if is_file
                else entry, placement=PLACEMENT[entry])
    isolation = [s for s in steps if s in ISOLATION_STEPS]
    failing = [s for s in steps if s in FAIL_STEPS]
    steps = [s for s in steps if s not in ISOLATION_STEPS + FAIL_STEPS]
    if isolation:
        feat['phase'] = 'other_handle_customised'
    cause = who = None
    if failing:
        _, cause, who = failing[0].split('_')
        feat['phase'] = 'after_failed_attempt'
    custom_delimiter = h.split_char != '/'
    if custom_delimiter:
        # (only then: signatures of the stock delimiter stay as they were)
        feat['delimiter'] = 'custom'
    if h.falsy is not None:
        # (only then, likewise)
        feat['referents'] = 'falsy_handles'
    hits = collections.Counter()
    calls = 0
    # what the world must contain: the description, plus what the further
    # transform function adds
    exp_ents = ents + [copy.deepcopy(EXTRA_ENTITY)] if extra else ents

    def fail(clause, detail, form):
        raise Violation(clause, detail, form=form, **feat)

    # -- load --------------------------------------------------------------
    handle = None
    wkey = None
    if entry == 'dict':
        real = h.describe(procs, ents, sparse, as_file=False)
        world = desper.World()
        try:
            desper.populate_world_from_dict(world, real)
        except Exception as exc:
            raise Violation(
                'load_completes', f'populate_world_from_dict raised '
                f'{type(exc).__name__}: {short(str(exc), 300)}',
                form=description_form(procs, ents), exc=type(exc).__name__,
                **feat)
        calls += 1
    else:
        if is_file:
            text = h.describe(procs, ents, sparse, as_file=True)
            # (cause 'file': the world file is not there yet)
            filename = h.reserve() if cause == 'file' else h.write(text)
            if OTHER_BEFORE in isolation:
                h.customise_other_handle(filename)
            handle = desper.WorldFromFileHandle(filename)
            if OTHER_AFTER in isolation:
                h.customise_other_handle(filename)
            if extra:
                more = h.describe([], [EXTRA_ENTITY], True, as_file=False)
                handle.transform_functions.append(
                    lambda hdl, wld: desper.populate_world_from_dict(wld,
                                                                     more))
        else:
            real = h.describe(procs, ents, sparse, as_file=False)
            handle = desper.WorldHandle()
            handle.transform_functions.append(
                lambda hdl, wld: desper.populate_world_from_dict(wld, real))
        if entry == 'file_submap':
            h.root[h.key('worlds')] = desper.ResourceMap()
        wkey = h.key(*WORLD_KEY[entry])
        h.root[wkey] = handle
        if failing:
            # -- a load attempt fails for a transient cause, the cause is
            # removed, and only then comes the load under test
            attempt_key = wkey
            if who == 'other':
                attempt_key = h.key(OTHER_WORLD_KEY)
                h.root[attempt_key] = desper.WorldFromFileHandle(filename)
            if cause == 'resource':
                h.switch['available'] = False
            elif cause == 'module' and LATE in sys.modules:
                raise HarnessError(f'{LATE} is importable already')
            try:
                h.root[attempt_key]
            except Exception:
                raised = True
            else:
                raised = False
            calls += 1
            if cause == 'resource':
                h.switch['available'] = True
            elif cause == 'file':
                h.write(text)
            else:
                h.install_late()
            del _CREATED[:]
            if not raised:
                # what a load yields while a referenced resource cannot be
                # loaded is not in the statement: nothing to go on with
                return {'calls': calls, 'hits': {}, 'key': key}
            hits['first_attempt_raised'] += 1
        try:
            world = h.root[wkey]
        except Exception as exc:
            raise Violation(
                'load_completes', f'root[{wkey!r}] raised '
                f'{type(exc).__name__}: {short(str(exc), 300)}',
                form=description_form(procs, ents), exc=type(exc).__name__,
                **feat)
        calls += 1

    if not isinstance(world, desper.World):
        fail('load_completes', f'load returned {short(world)}', 'no_ref')

    calls += _check_loaded(h, world, handle, procs, exp_ents, is_file, feat,
                           hits)

    # -- further steps -------------------------------------------------------
    for step in steps:
        # RELOAD: the resource the description refers to is replaced in the
        # tree, the world handle dropped its world and loads again
        feat2 = dict(feat, phase='reload_after_resource_replaced')
        h.replace_a_b()
        del _CREATED[:]
        handle.clear()
        calls += 1
        try:
            world2 = h.root[wkey]
        except Exception as exc:
            raise Violation(
                'load_completes', f'root[{wkey!r}] after root["a/b"] = '
                f'<new handle> and clear() raised {type(exc).__name__}: '
                f'{short(str(exc), 300)}',
                form=description_form(procs, ents), exc=type(exc).__name__,
                **feat2)
        calls += 1
        if not isinstance(world2, desper.World):
            raise Violation('load_completes',
                            f'second load returned {short(world2)}',
                            form='no_ref', **feat2)
        hits2 = collections.Counter()
        calls += _check_loaded(h, world2, handle, procs, exp_ents, is_file,
                               feat2, hits2)
        hits['reload_after_resource_replaced'] += 1
        for kind in ('res_ref', 'handle_ref', 'res_path_ref',
                     'handle_path_ref'):
            if hits2[kind]:
                hits[kind + '_after_replace'] += hits2[kind]

    # -- coverage names -----------------------------------------------------------
    live = [(eid, comps) for eid, comps in ents if comps]
    explicit = [(eid, comps) for eid, comps in live if eid is not None]
    autos = [(eid, comps) for eid, comps in live if eid is None]
    form = id_form(ents)
    if form == 'colliding_explicit_id':
        hits['colliding_explicit_id'] += 1
    if explicit:
        hits['explicit_id'] += 1
    if any(isinstance(e, str) and e for e, _ in explicit):
        hits['string_id'] += 1
    if any(is_falsy_id(e) for e, _ in explicit):
        hits['falsy_id'] += 1
    if any(is_falsy_id(e) and isinstance(e, int) for e, _ in explicit):
        hits['zero_id'] += 1
    if any(is_falsy_id(e) and isinstance(e, str) for e, _ in explicit):
        hits['empty_string_id'] += 1
    if autos:
        hits['auto_id'] += 1
    if autos and any(is_falsy_id(e) for e, _ in explicit):
        hits['falsy_id_next_to_auto_id'] += 1
    if len(live) != len(ents):
        hits['empty_entity_skipped'] += 1
    seen_auto = False
    for eid, comps in live:
        if eid is None:
            seen_auto = True
        elif seen_auto:
            hits['explicit_id_after_auto'] += 1
            break
    if any(len(comps) == 2 for _, comps in live):
        hits['two_components'] += 1
    if len(live) == 2:
        hits['two_entities'] += 1
    if len(live) >= 3:
        hits['three_entities'] += 1
    hits[{'none': 'dict_entry', 'root': 'root_key_handle',
          'composite': 'composite_key_handle',
          'submap': 'submap_key_handle'}[feat['placement']]] += 1
    if entry == 'dict_handle':
        hits['dict_through_world_handle'] += 1
    if extra:
        hits['extra_transform_function'] += 1
        if any(c[0] == 'H' for _, comps in live for c in comps):
            # the situation in which a per-function dispatch shows
            hits['extra_transform_after_file_handler'] += 1
    if not sparse:
        hits['empty_keys_written'] += 1
    if failing:
        # (all clauses passed on the load that followed the failed attempt)
        hits[{'resource': 'load_after_failed_resource_load',
              'file': 'load_after_missing_world_file',
              'module': 'load_after_missing_module'}[cause]] += 1
        hits['load_after_failed_attempt_of_the_same_handle' if who == 'same'
             else 'load_after_failed_attempt_of_another_handle'] += 1
    if custom_delimiter:
        hits['custom_delimiter'] += 1
        for kind in ('res_ref', 'handle_ref', 'res_path_ref',
                     'handle_path_ref'):
            if hits[kind]:
                hits['custom_delimiter_' + kind] += hits[kind]
        if len(WORLD_KEY.get(entry, [])) > 1:
            hits['custom_delimiter_composite_world_key'] += 1
    if h.falsy is not None:
        hits['falsy_handles_' + h.falsy] += 1
        if failing:
            hits['falsy_handles_after_failed_attempt'] += 1
    if isolation:
        # (all clauses passed: the "$notref" arguments arrived unchanged)
        hits['other_handle_customised'] += 1
        hits['other_handle_customised_first' if OTHER_BEFORE in isolation
             else 'other_handle_customised_later'] += 1
    tags = [p[0] for p in procs]
    if 'C' in tags:
        hits['subclass_processor'] += 1
        if 'B' in tags:
            hits['subclass_processor_before_base' if tags.index('C')
                 < tags.index('B') else 'base_processor_before_subclass'] += 1
            if 'A' in tags:
                hits['subclass_and_base_next_to_unrelated_processor'] += 1
    return {'calls': calls, 'hits': dict(hits), 'key': key}


def _check_loaded(h, world, handle, procs, ents, is_file, feat, hits):
    """Every clause on one loaded world: ``ents`` is everything the world
    must contain, ``h`` the table of the tree as it is now.  Returns the
    number of implementation calls checked."""
    calls = 0

    def fail(clause, detail, form):
        raise Violation(clause, detail, form=form, **feat)

    # -- returned disabled, nothing called yet ------------------------------
    if handle is not None:
        if world.dispatch_enabled is not False:
            fail('dispatch_disabled_on_return',
                 f'dispatch_enabled == {world.dispatch_enabled!r} after load',
                 'no_ref')
        for inst in _CREATED:
            if isinstance(inst, Hnd) and inst.log:
                fail('no_callback_before_enable',
                     f'handler component logged {short(inst.log)} while the '
                     'world was still disabled', 'handler_component')

    # -- processors ----------------------------------------------------------
    found_procs = world.processors
    calls += 1
    exp_types = []
    if is_file:
        exp_types += [desper.OnUpdateProcessor, desper.CoroutineProcessor]
        hits['default_processors'] += 1
    exp_types += [TYPES[p[0]] for p in procs]
    got_types = [type(p) for p in found_procs]
    names = [t.__name__ for t in got_types]
    if (collections.Counter(got_types) != collections.Counter(exp_types)):
        fail('processor_set', 'processors by type: expected '
             f'{[t.__name__ for t in exp_types]}, found {names}',
             'processors')
    if got_types != exp_types:
        fail('processor_order', 'processors by type: expected '
             f'{[t.__name__ for t in exp_types]}, found {names}',
             'processors')
    listed = list(found_procs[len(exp_types) - len(procs):])
    for spec, inst in zip(procs, listed):
        _check_args(h, spec, inst, 'processor ' + spec[0], fail, hits,
                    is_file)
    if procs:
        hits['listed_processors'] += 1
    if [p[0] for p in procs] == ['B', 'A']:
        hits['processor_order_BA'] += 1

    # -- entities --------------------------------------------------------------
    found_ids = world.entities
    calls += 1
    found = {}
    for eid in found_ids:
        if any(eid == o and type(eid) is type(o) for o in found):
            fail('entity_set', f'entity {eid!r} listed twice in '
                 f'{found_ids!r}', id_form(ents))
        found[eid] = world.get_components(eid)
        calls += 1
    live = [(eid, comps) for eid, comps in ents if comps]
    explicit = [(eid, comps) for eid, comps in live if eid is not None]
    autos = [(eid, comps) for eid, comps in live if eid is None]
    if len(found) != len(live):
        fail('entity_set', f'expected {len(live)} entities '
             f'(ids {[e for e, _ in live]}, null = automatic), found '
             f'{found_ids!r}', id_form(ents))
    rest = dict(found)
    for eid, comps in explicit:
        match = [o for o in rest if o == eid and type(o) is type(eid)]
        if not match:
            fail('entity_set', f'no entity with the given id {eid!r}; '
                 f'found {found_ids!r}', id_form(ents))
        _check_components(h, eid, comps, rest.pop(match[0]), fail, hits,
                          is_file)
    # what is left must be the id-less entities, under ids that are not the
    # given ones (already removed) - in any assignment
    auto_ids = list(rest)
    failure = None
    for perm in itertools.permutations(auto_ids):
        trial = collections.Counter()
        try:
            for (_, comps), eid in zip(autos, perm):
                _check_components(h, eid, comps, rest[eid], fail, trial,
                                  is_file)
        except Violation as viol:
            failure = failure or viol
            continue
        hits.update(trial)
        failure = None
        break
    if failure is not None:
        raise failure

    # -- nothing else: the type queries see the same components ---------------
    for cls in (Plain, Hnd):
        pairs = world.get(cls)
        calls += 1
        got = sorted((repr(e), id(c)) for e, c in pairs)
        exp = sorted((repr(e), id(c)) for e, cs in found.items()
                     for c in cs if type(c) is cls)
        if got != exp:
            fail('nothing_else', f'world.get({cls.__name__}) lists '
                 f'{len(got)} components, the entities own {len(exp)}',
                 'no_ref')

    # -- callbacks -------------------------------------------------------------
    handlers = [(eid, c) for eid, cs in found.items() for c in cs
                if type(c) is Hnd]
    if handle is not None:
        try:
            world.dispatch_enabled = True
        except Exception as exc:
            raise Violation('enable_completes', 'enabling dispatch raised '
                            f'{type(exc).__name__}: {short(str(exc), 300)}',
                            form='handler_component', exc=type(exc).__name__,
                            **feat)
        calls += 1
    for eid, comp in handlers:
        adds = [r for r in comp.log if r[0] == 'on_add']
        loads = [r for r in comp.log if r[0] == 'on_world_load']
        if len(adds) != 1:
            fail('on_add_once', f'handler of entity {eid!r}: on_add called '
                 f'{len(adds)} times', 'handler_component')
        args, kwargs = adds[0][1:]
        if not (len(args) == 2 and not kwargs and args[0] == eid
                and args[1] is world):
            fail('on_add_once', f'handler of entity {eid!r}: on_add received '
                 f'{short((args, kwargs))}', 'handler_component')
        if handle is None:
            continue
        if len(loads) != 1:
            fail('on_world_load_once', f'handler of entity {eid!r}: '
                 f'on_world_load called {len(loads)} times '
                 f'({[r[0] for r in comp.log]})', 'handler_component')
        args, kwargs = loads[0][1:]
        if not (len(args) == 2 and not kwargs and args[0] is handle
                and args[1] is world):
            fail('on_world_load_once', f'handler of entity {eid!r}: '
                 f'on_world_load received {short((args, kwargs))}',
                 'handler_component')
        if [r[0] for r in comp.log] != ['on_add', 'on_world_load']:
            fail('callback_order', f'handler of entity {eid!r}: '
                 f'{[r[0] for r in comp.log]}', 'handler_component')
    if handlers:
        hits['handler_component'] += 1
        if handle is not None:
            hits['handler_callbacks_in_order'] += 1
    if len(handlers) >= 2:
        hits['two_handler_components'] += 1
    return calls


def _check_components(h, eid, comps, found, fail, hits, is_file):
    exp_types = [TYPES[c[0]] for c in comps]
    got_types = [type(c) for c in found]
    if (len(got_types) != len(exp_types)
            or set(got_types) != set(exp_types)):
        fail('component_types', f'entity {eid!r}: expected components '
             f'{[t.__name__ for t in exp_types]}, found '
             f'{[t.__name__ for t in got_types]}', 'components')
    for spec in comps:
        inst = [c for c in found if type(c) is TYPES[spec[0]]][0]
        _check_args(h, spec, inst, f'entity {eid!r} component {spec[0]}',
                    fail, hits, is_file)


def _check_args(h, spec, inst, where, fail, hits, is_file):
    """The instance received exactly the expected positional and keyword
    values: identity for resolved objects, equality + type otherwise."""
    tag, args, kwargs = spec
    carrier = 'processor' if tag in PROC_TAGS else 'component'
    if len(inst.args) != len(args):
        fail('arg_count', f'{where}: expected {len(args)} positional '
             f'arguments, received {short(inst.args)}', carrier)
    if sorted(inst.kwargs) != sorted(kwargs):
        fail('arg_count', f'{where}: expected keywords {sorted(kwargs)}, '
             f'received {short(inst.kwargs)}', carrier)
    slots = [(f'args[{i}]', v, inst.args[i]) for i, v in enumerate(args)]
    slots += [(f'kwargs[{k!r}]', v, inst.kwargs[k])
              for k, v in kwargs.items()]
    for slot, value, got in slots:
        kind, how, exp = h.expected(value)
        if how == 'is':
            ok = got is exp
        else:
            ok = same_value(got, exp)
        form = kind
        if kind in FALSY_NAME_OF:
            form = FALSY_KIND
        if kind in ('res_path_ref', 'handle_path_ref'):
            _, key_name, position, keys = PATH_TABLE[value]
            form = kind + (':identifier_keys' if all(
                k.isidentifier() for k in keys) else ':nonidentifier_key')
        if not ok:
            fail('arg_value', f'{where} {slot} written as {value!r}: '
                 f'expected {"the object" if how == "is" else "the value"} '
                 f'{short(exp)}, received {short(got)}', form)
        if kind in ('res_path_ref', 'handle_path_ref'):
            hits['path_key_' + key_name] += 1
            hits['path_position_' + position] += 1
        if is_file:
            hits[kind] += 1
            if kind in FALSY_NAME_OF:
                hits[FALSY_KIND] += 1
                if slot.startswith('kwargs'):
                    hits['falsy_object_kwarg_ref'] += 1
                if carrier == 'processor':
                    hits['falsy_object_processor_arg_ref'] += 1
            if h.falsy is not None and kind in (
                    'handle_ref', 'handle_path_ref') and not got:
                # (the handle passed the identity clause and is false now)
                hits['falsy_handle_ref'] += 1
                hits['falsy_handle_ref_' + h.falsy] += 1
                if kind == 'handle_path_ref' and position != 'top':
                    hits['falsy_handle_ref_below_a_sub_map'] += 1
            if h.falsy is not None and kind in (
                    'res_ref', 'res_path_ref') and not got:
                hits['falsy_resource_ref'] += 1
                hits['falsy_resource_ref_' + h.falsy] += 1
            if kind in REF_KINDS and slot.startswith('kwargs'):
                hits['kwarg_ref'] += 1
            if kind in REF_KINDS and carrier == 'processor':
                hits['processor_arg_ref'] += 1
        elif how == 'is':
            hits['dict_real_object_arg'] += 1
        else:
            hits['dict_plain_arg'] += 1


# --------------------------------------------------------------------------
# object_from_string alone.  The case carries the split of the dotted name
# into (module, attribute path): the reference never guesses it.
OFS_NAMES = [
    (MOD, []), (MOD, ['OBJ']), (MOD, ['Cls']), (MOD, ['Cls', 'attr']),
    (MOD, ['Plain']), (PKG, []), (SUB, []), (SUB, ['OBJ']),
    (SUB, ['Cls', 'attr']),
    ('collections', ['ChainMap']), ('collections.abc', ['Mapping']),
    ('json.decoder', ['JSONDecoder', 'decode']), ('os', ['path', 'join']),
] + [(MOD, _attrs) for _, _attrs in FALSY_OBJECTS]     # false named objects


def run_ofs_case(case):
    module, attrs = json.loads(json.dumps(case))
    name = '.'.join([module] + attrs)
    with Harness():
        exp = functools.reduce(getattr, attrs,
                               importlib.import_module(module))
        results = []
        for _ in range(2):          # the second call is served by the cache
            try:
                results.append(object_from_string(name))
            except Exception as exc:
                raise Violation('object_from_string',
                                f'{name!r} raised {type(exc).__name__}: '
                                f'{short(str(exc))}', entry='none',
                                placement='none',
                                form='attr_path' if attrs else 'module')
        for got in results:
            if got is not exp:
                raise Violation('object_from_string',
                                f'{name!r}: expected {short(exp)}, got '
                                f'{short(got)}', entry='none',
                                placement='none',
                                form='attr_path' if attrs else 'module')
    hits = {'ofs_module' if not attrs else
            'ofs_nested_attr' if len(attrs) > 1 else 'ofs_attr': 1}
    if '.' in module:
        hits['ofs_submodule'] = 1
    if not exp:
        hits['ofs_falsy_object'] = 1
    return {'calls': 2, 'hits': hits, 'key': name}


# --------------------------------------------------------------------------
# case families
def arg_shapes_slotwise(menu, small):
    """One slot runs over the whole menu while every other slot of the shape
    runs over ``small`` (full product of the others); all shapes with <= 2
    positional and <= 1 keyword argument; every slot takes the varying role."""
    out, seen = [], set()

    def add(vals, npos, nkw):
        args = list(vals[:npos])
        kwargs = {'k': vals[npos]} if nkw else {}
        k = jkey([args, kwargs])
        if k not in seen:
            seen.add(k)
            out.append((args, kwargs))

    add([], 0, 0)
    for npos, nkw in ((1, 0), (0, 1), (2, 0), (1, 1), (2, 1)):
        n = npos + nkw
        for slot in range(n):
            for v in menu:
                for others in itertools.product(small, repeat=n - 1):
                    vals = list(others)
                    vals.insert(slot, v)
                    add(vals, npos, nkw)
    return out


def arg_shapes_full(menu):
    """Every slot of every shape over the whole menu (full product)."""
    out = [([], {})]
    for npos, nkw in ((1, 0), (0, 1), (2, 0), (1, 1), (2, 1)):
        for vals in itertools.product(menu, repeat=npos + nkw):
            out.append((list(vals[:npos]),
                        {'k': vals[npos]} if nkw else {}))
    return out


def with_steps(entry, sparse, procs, ents, split_char='/', first=(),
               falsy=None):
    """The case of this description and entry: file entries whose description
    holds a $res{} / $handle{} marker go on with the reload step (that case
    contains the single-load case: same first load, same checks).  ``first``:
    steps in front of it; the tree options are only written for a delimiter
    other than the stock one / for a flavour of falsy resource handles."""
    steps = list(first)
    if entry.startswith('file') and has_resource_ref(procs, ents):
        steps.append(RELOAD)
    tree = {}
    if split_char != '/':
        tree['split_char'] = split_char
    if falsy is not None:
        tree['falsy'] = falsy
    if not tree:
        return (entry, sparse, procs, ents, steps)
    return (entry, sparse, procs, ents, steps, tree)


def with_isolation(cases):
    """Every case, and after each case of a file entry whose description
    holds "$notref" the same case twice more: another handle on the same
    file customised before / after the handle under test is constructed."""
    out = []
    for case in cases:
        out.append(case)
        entry, sparse, procs, ents, steps = case
        if entry.startswith('file') and has_dollar_passthrough(procs, ents):
            for iso in ISOLATION_STEPS:
                out.append((entry, sparse, procs, ents, [iso] + steps))
    return out


def argument_cases(shapes, entries):
    cases = []
    for args, kwargs in shapes:
        for carrier in ('component', 'processor'):
            for entry in entries:
                if carrier == 'component':
                    cases.append(with_steps(entry, True, [],
                                            [[None, [['P', args, kwargs]]]]))
                else:
                    cases.append(with_steps(entry, True,
                                            [['A', args, kwargs]], []))
    return with_isolation(cases)


def extra_cases():
    cases = []
    for v in EXTRA_MENU:
        for args, kwargs in (([v], {}), ([], {'k': v})):
            cases.append(('file_root', True, [],
                          [[None, [['P', args, kwargs]]]]))
            cases.append(('file_root', True, [['A', args, kwargs]], []))
    return cases


A0 = ['A', [], {}]
A1 = ['A', [V_ATTR, V_NOT_START], {}]
B0 = ['B', [], {}]
C0 = ['C', [], {}]                  # ProcB2, a subclass of ProcB
P0 = ['P', [1], {}]
P1 = ['P', [V_OBJ], {'k': V_RES}]
P2 = ['P', [V_HANDLE, V_NESTED], {'k': V_SUB}]
H0 = ['H', [], {}]
IDS = [None, 7, 'p1', 1, 0, '']


def processor_lists(variants):
    out = [[]]
    out += [[a] for a in variants] + [[B0]]
    out += [[a, B0] for a in variants] + [[B0, a] for a in variants]
    return out


def subclass_processor_lists(variants):
    """Every ordered sub-list (every subset in every order) of {ProcA
    variant, ProcB, ProcB2} that contains ProcB2."""
    out = []
    for others in [[]] + [[B0]] + [[a] for a in variants] + [
            [a, B0] for a in variants]:
        out += [list(p) for p in itertools.permutations(others + [C0])]
    return out


def component_lists(plains):
    out = [[]]
    out += [[p] for p in plains] + [[H0]]
    out += [[p, H0] for p in plains] + [[H0, p] for p in plains]
    return out


def entity_lists(comp_lists, max_entities):
    """0..max entities; explicit ids distinct.  The explicit id 1 may follow
    an id-less entity: the description lists two entities, the automatic
    identifier of the first must not be the one given to the second."""
    options = [[eid, comps] for eid in IDS for comps in comp_lists]
    out = []
    for n in range(max_entities + 1):
        for combo in itertools.product(options, repeat=n):
            ids = [e[0] for e in combo if e[0] is not None]
            if len(set(map(jkey, ids))) != len(ids):
                continue
            out.append([list(e) for e in combo])
    return out


def structure_cases(proc_lists, ent_lists, sparses, entries, split_char='/',
                    falsy=None):
    cases = []
    for ents in ent_lists:
        for procs in proc_lists:
            for sparse in sparses:
                for entry in entries:
                    if falsy is not None and not has_resource_ref(procs,
                                                                  ents):
                        continue
                    cases.append(with_steps(entry, sparse, procs, ents,
                                            split_char, falsy=falsy))
    return cases


FILE_PLACEMENTS = ('file_root', 'file_composite', 'file_submap')
FILE_ENTRIES = FILE_PLACEMENTS + (EXTRA_ENTRY, )


def one_argument_cases(value, entries, split_char, falsy=None):
    """The value as the only argument: positional / keyword x component /
    processor x entries."""
    cases = []
    for args, kwargs in (([value], {}), ([], {'k': value})):
        for entry in entries:
            cases.append(with_steps(entry, True, [],
                                    [[None, [['P', args, kwargs]]]],
                                    split_char, falsy=falsy))
            cases.append(with_steps(entry, True, [['A', args, kwargs]], [],
                                    split_char, falsy=falsy))
    return cases


def path_cases(pairs):
    """Every key of PATH_KEYS at every position of PATH_POSITIONS, as
    $res{...} and as $handle{...}, under every delimiter of SPLIT_CHARS that
    is in none of the path's keys; ``pairs``: moreover every ordered pair of
    keys at position 'leaf', $res{} of the first as positional and
    $handle{} of the second as keyword argument of the same component /
    processor (and the other way round)."""
    cases = []
    for split_char in SPLIT_CHARS:
        legal = [name for name, key in PATH_KEYS
                 if path_legal([key], split_char)]
        for name in legal:
            for position in PATH_POSITIONS:
                for which in ('res', 'handle'):
                    cases += one_argument_cases(
                        PATH_MARKER[which, name, position], FILE_PLACEMENTS,
                        split_char)
        if not pairs:
            continue
        for n1 in legal:
            for n2 in legal:
                for w1, w2 in (('res', 'handle'), ('handle', 'res')):
                    args = [PATH_MARKER[w1, n1, 'leaf']]
                    kwargs = {'k': PATH_MARKER[w2, n2, 'leaf']}
                    for entry in FILE_PLACEMENTS:
                        cases.append(with_steps(
                            entry, True, [],
                            [[None, [['P', args, kwargs]]]], split_char))
                        cases.append(with_steps(
                            entry, True, [['A', args, kwargs]], [],
                            split_char))
    return cases


CUSTOM_SPLIT_CHARS = tuple(c for c in SPLIT_CHARS if c != '/')
# resource keys of the quick part 'falsy-handles' (thorough: all of PATH_KEYS)
FALSY_PATH_NAMES = ['identifier', 'dash', 'blank']


def delimiter_cases(proc_lists, ent_lists, sparses):
    cases = []
    for split_char in CUSTOM_SPLIT_CHARS:
        cases += structure_cases(proc_lists, ent_lists, sparses, ALL_ENTRIES,
                                 split_char)
    return cases


def delimiter_argument_cases(shapes):
    cases = []
    for split_char in CUSTOM_SPLIT_CHARS:
        for args, kwargs in shapes:
            for entry in ENTRIES:
                cases.append(with_steps(entry, True, [],
                                        [[None, [['P', args, kwargs]]]],
                                        split_char))
                cases.append(with_steps(entry, True, [['A', args, kwargs]],
                                        [], split_char))
    return cases


# the fixed argument lists of part 'failed-first-attempt': each holds a
# marker of every kind whose resolution the fail steps make fail
PF = ['P', [V_RES, V_LATE], {'k': V_HANDLE}]
AF = ['A', [V_LATE], {'k': V_RES}]


def falsy_object_cases(others, entries):
    """Part 'falsy-objects': the slot-wise argument family whose varying
    slot runs over FALSY_MENU (${...} naming an object that is false in a
    boolean context) while the other slots run over ``others``."""
    cases = []
    for args, kwargs in arg_shapes_slotwise(FALSY_MENU, others):
        if not has_kind([], [[None, [['P', args, kwargs]]]], FALSY_NAME_OF):
            continue
        for entry in entries:
            cases.append(with_steps(entry, True, [],
                                    [[None, [['P', args, kwargs]]]]))
            cases.append(with_steps(entry, True, [['A', args, kwargs]], []))
    return cases


def falsy_handle_cases(proc_lists, blocks, path_names, split_chars,
                       fail_ent_lists):
    """Part 'falsy-handles': for every flavour of FALSY_FLAVOURS
    - for every (delimiter, entity lists, sparse values) of ``blocks`` the
      structure family (descriptions without a resource marker left out) x
      file entries, reload step included;
    - the slot-wise argument family (whole menu in one slot, the others
      over {1, $res{a.b}, $handle{a.b}}), descriptions with a resource
      marker, x file placements;
    - the keys ``path_names`` at every position as $res{} / $handle{}, one
      argument, x file placements x delimiters;
    - the failed-first-attempt family of ``fail_ent_lists`` under '/'."""
    cases = []
    shapes = [(args, kwargs) for args, kwargs in arg_shapes_slotwise(
        MENU, [1, V_RES, V_HANDLE])
        if has_resource_ref([], [[None, [['P', args, kwargs]]]])]
    keys = dict(PATH_KEYS)
    for flavour in FALSY_FLAVOURS:
        for split_char, ent_lists, sparses in blocks:
            cases += structure_cases(proc_lists, ent_lists, sparses,
                                     FILE_ENTRIES, split_char, flavour)
        for split_char in split_chars:
            for name in path_names:
                if not path_legal([keys[name]], split_char):
                    continue
                for position in PATH_POSITIONS:
                    for which in ('res', 'handle'):
                        cases += one_argument_cases(
                            PATH_MARKER[which, name, position],
                            FILE_PLACEMENTS, split_char, flavour)
        for args, kwargs in shapes:
            cases += [with_steps(entry, True, [],
                                 [[None, [['P', args, kwargs]]]],
                                 falsy=flavour)
                      for entry in FILE_PLACEMENTS]
            cases += [with_steps(entry, True, [['A', args, kwargs]], [],
                                 falsy=flavour)
                      for entry in FILE_PLACEMENTS]
        cases += failed_attempt_cases(processor_lists([AF]), fail_ent_lists,
                                      [True], ['/'], flavour)
    return cases


def failed_attempt_cases(proc_lists, ent_lists, sparses, split_chars,
                         falsy=None):
    """Every description x file entry x every fail step it can take (cause
    'file': all; 'resource': a $res{} marker; 'module': a ${late.OBJ}
    marker)."""
    cases = []
    for split_char in split_chars:
        for ents in ent_lists:
            for procs in proc_lists:
                causes = ['file']
                if has_res_marker(procs, ents):
                    causes.append('resource')
                if has_late_ref(procs, ents):
                    causes.append('module')
                if falsy is not None and not has_resource_ref(procs, ents):
                    continue
                for sparse in sparses:
                    for entry in FILE_ENTRIES:
                        for step in FAIL_STEPS:
                            if step.split('_')[1] in causes:
                                cases.append(with_steps(
                                    entry, sparse, procs, ents, split_char,
                                    first=[step], falsy=falsy))
    return cases


def families(tier):
    """part name -> (runner, cases, params)."""
    fam = collections.OrderedDict()
    fam['object-from-string'] = (run_ofs_case, [tuple(c) for c in OFS_NAMES],
                                 dict(names=len(OFS_NAMES)))
    if tier == 'quick':
        small = [1, V_OBJ]
        shapes = arg_shapes_slotwise(MENU, small)
        fam['arguments'] = (
            run_world_case, argument_cases(shapes, ENTRIES),
            dict(mode='slot-wise', menu=MENU, others=small,
                 carriers=['component', 'processor'], entries=ENTRIES,
                 isolation_steps=list(ISOLATION_STEPS)))
        fam['extra-forms'] = (run_world_case, extra_cases(),
                              dict(menu=EXTRA_MENU))
        fam['structure'] = (
            run_world_case,
            structure_cases(processor_lists([A1]),
                            entity_lists(component_lists([P1]), 2),
                            [True, False], ALL_ENTRIES),
            dict(processors='sub-lists of [A1, B] in both orders',
                 components='<= 2 distinct of P1, H in both orders',
                 ids=IDS, max_entities=2, A1=A1, P1=P1, entries=ALL_ENTRIES,
                 extra_entity=EXTRA_ENTITY))
        fam['processor-subclass'] = (
            run_world_case,
            structure_cases(subclass_processor_lists([A1]),
                            entity_lists(component_lists([P1]), 1),
                            [True, False], ALL_ENTRIES),
            dict(processors='every ordered sub-list of {A1, B, B2} that '
                 'contains B2 (ProcB2 is a subclass of ProcB)',
                 components='<= 2 distinct of P1, H in both orders',
                 ids=IDS, max_entities=1, A1=A1, P1=P1, entries=ALL_ENTRIES,
                 extra_entity=EXTRA_ENTITY))
        fam['resource-paths'] = (
            run_world_case, path_cases(pairs=False),
            dict(keys=dict(PATH_KEYS), positions=sorted(PATH_POSITIONS),
                 markers=['$res{}', '$handle{}'], split_chars=SPLIT_CHARS,
                 slots=['args[0]', "kwargs['k']"],
                 carriers=['component', 'processor'],
                 entries=FILE_PLACEMENTS, pairs=False))
        fam['delimiter'] = (
            run_world_case,
            delimiter_cases(processor_lists([A1]),
                            entity_lists(component_lists([P1, P2]), 1),
                            [True]),
            dict(split_chars=CUSTOM_SPLIT_CHARS, sparse=[True],
                 processors='sub-lists of [A1, B] in both orders',
                 components='<= 2 distinct of P1|P2, H in both orders',
                 ids=IDS, max_entities=1, A1=A1, P1=P1, P2=P2,
                 entries=ALL_ENTRIES, extra_entity=EXTRA_ENTITY))
        fam['failed-first-attempt'] = (
            run_world_case,
            failed_attempt_cases(processor_lists([AF]),
                                 entity_lists(component_lists([PF]), 1),
                                 [True], ['/']),
            dict(steps=list(FAIL_STEPS), split_chars=['/'],
                 processors='sub-lists of [AF, B] in both orders',
                 components='<= 2 distinct of PF, H in both orders',
                 ids=IDS, max_entities=1, AF=AF, PF=PF, entries=FILE_ENTRIES,
                 extra_entity=EXTRA_ENTITY))
        others = [V_OBJ, V_RES]
        fam['falsy-objects'] = (
            run_world_case, falsy_object_cases(others, ENTRIES),
            dict(mode='slot-wise', menu=FALSY_MENU, others=others,
                 objects=dict(FALSY_OBJECTS),
                 carriers=['component', 'processor'], entries=ENTRIES))
        fam['falsy-handles'] = (
            run_world_case,
            falsy_handle_cases(
                processor_lists([A1]),
                [(c, entity_lists(component_lists([P1, P2]), 1), [True])
                 for c in ('/', ':')],
                FALSY_PATH_NAMES, ['/', ':'],
                entity_lists(component_lists([PF]), 1)),
            dict(flavours=FALSY_FLAVOURS, split_chars=['/', ':'],
                 structure=[dict(split_char=c, max_entities=1, sparse=[True])
                            for c in ('/', ':')],
                 processors='sub-lists of [A1, B] in both orders',
                 components='<= 2 distinct of P1|P2, H in both orders',
                 ids=IDS, A1=A1, P1=P1, P2=P2,
                 entries=FILE_ENTRIES, extra_entity=EXTRA_ENTITY,
                 arguments=dict(mode='slot-wise', menu=MENU,
                                others=[1, V_RES, V_HANDLE],
                                entries=FILE_PLACEMENTS),
                 path_keys=FALSY_PATH_NAMES,
                 positions=sorted(PATH_POSITIONS),
                 failed_first_attempt=dict(
                     steps=list(FAIL_STEPS), max_entities=1, AF=AF, PF=PF)))
    else:
        fam['arguments'] = (
            run_world_case, argument_cases(arg_shapes_full(MENU), ENTRIES),
            dict(mode='full product', menu=MENU,
                 carriers=['component', 'processor'], entries=ENTRIES,
                 isolation_steps=list(ISOLATION_STEPS)))
        fam['extra-forms'] = (run_world_case, extra_cases(),
                              dict(menu=EXTRA_MENU))
        fam['structure'] = (
            run_world_case,
            structure_cases(processor_lists([A0, A1]),
                            entity_lists(component_lists([P0, P1, P2]), 2),
                            [True, False], ALL_ENTRIES),
            dict(processors='sub-lists of [A0|A1, B] in both orders',
                 components='<= 2 distinct of P0|P1|P2, H in both orders',
                 ids=IDS, max_entities=2, A0=A0, A1=A1, P0=P0, P1=P1, P2=P2,
                 entries=ALL_ENTRIES, extra_entity=EXTRA_ENTITY))
        fam['processor-subclass'] = (
            run_world_case,
            structure_cases(subclass_processor_lists([A0, A1]),
                            entity_lists(component_lists([P1]), 2),
                            [True, False], ALL_ENTRIES),
            dict(processors='every ordered sub-list of {A0|A1, B, B2} that '
                 'contains B2 (ProcB2 is a subclass of ProcB)',
                 components='<= 2 distinct of P1, H in both orders',
                 ids=IDS, max_entities=2, A0=A0, A1=A1, P1=P1,
                 entries=ALL_ENTRIES, extra_entity=EXTRA_ENTITY))
        fam['structure-3'] = (
            run_world_case,
            structure_cases([[], [A1, B0], [B0, A1]],
                            [e for e in
                             entity_lists(component_lists([P1]), 3)
                             if len(e) == 3],
                            [True], ALL_ENTRIES),
            dict(processors=[[], [A1, B0], [B0, A1]],
                 components='<= 2 distinct of P1, H in both orders',
                 ids=IDS, entities=3, A1=A1, P1=P1, entries=ALL_ENTRIES,
                 extra_entity=EXTRA_ENTITY))
        fam['resource-paths'] = (
            run_world_case, path_cases(pairs=True),
            dict(keys=dict(PATH_KEYS), positions=sorted(PATH_POSITIONS),
                 markers=['$res{}', '$handle{}'], split_chars=SPLIT_CHARS,
                 slots=['args[0]', "kwargs['k']"],
                 carriers=['component', 'processor'],
                 entries=FILE_PLACEMENTS, pairs=True))
        fam['delimiter'] = (
            run_world_case,
            delimiter_cases(processor_lists([A1]),
                            entity_lists(component_lists([P1, P2]), 2),
                            [True, False]),
            dict(split_chars=CUSTOM_SPLIT_CHARS,
                 processors='sub-lists of [A1, B] in both orders',
                 components='<= 2 distinct of P1|P2, H in both orders',
                 ids=IDS, max_entities=2, A1=A1, P1=P1, P2=P2,
                 entries=ALL_ENTRIES, extra_entity=EXTRA_ENTITY))
        small = [1, V_RES]
        fam['delimiter-arguments'] = (
            run_world_case,
            delimiter_argument_cases(arg_shapes_slotwise(MENU, small)),
            dict(mode='slot-wise', menu=MENU, others=small,
                 split_chars=CUSTOM_SPLIT_CHARS,
                 carriers=['component', 'processor'], entries=ENTRIES))
        fam['failed-first-attempt'] = (
            run_world_case,
            failed_attempt_cases(processor_lists([AF]),
                                 entity_lists(component_lists([PF]), 2),
                                 [True], SPLIT_CHARS[:2]),
            dict(steps=list(FAIL_STEPS), split_chars=SPLIT_CHARS[:2],
                 processors='sub-lists of [AF, B] in both orders',
                 components='<= 2 distinct of PF, H in both orders',
                 ids=IDS, max_entities=2, AF=AF, PF=PF,
                 entries=FILE_ENTRIES, extra_entity=EXTRA_ENTITY))
        others = [1, V_OBJ, V_RES, V_HANDLE]
        fam['falsy-objects'] = (
            run_world_case, falsy_object_cases(others, ENTRIES),
            dict(mode='slot-wise', menu=FALSY_MENU, others=others,
                 objects=dict(FALSY_OBJECTS),
                 carriers=['component', 'processor'], entries=ENTRIES))
        all_names = [name for name, _ in PATH_KEYS]
        fam['falsy-handles'] = (
            run_world_case,
            falsy_handle_cases(
                processor_lists([A1]),
                [('/', entity_lists(component_lists([P1, P2]), 2), [True]),
                 ('/', entity_lists(component_lists([P1, P2]), 1), [False])]
                + [(c, entity_lists(component_lists([P1, P2]), 1),
                    [True, False]) for c in CUSTOM_SPLIT_CHARS],
                all_names, SPLIT_CHARS,
                entity_lists(component_lists([PF]), 1)),
            dict(flavours=FALSY_FLAVOURS, split_chars=SPLIT_CHARS,
                 structure=[dict(split_char='/', max_entities=2,
                                 sparse=[True]),
                            dict(split_char='/', max_entities=1,
                                 sparse=[False])]
                 + [dict(split_char=c, max_entities=1, sparse=[True, False])
                    for c in CUSTOM_SPLIT_CHARS],
                 processors='sub-lists of [A1, B] in both orders',
                 components='<= 2 distinct of P1|P2, H in both orders',
                 ids=IDS, A1=A1, P1=P1, P2=P2,
                 entries=FILE_ENTRIES, extra_entity=EXTRA_ENTITY,
                 arguments=dict(mode='slot-wise', menu=MENU,
                                others=[1, V_RES, V_HANDLE],
                                entries=FILE_PLACEMENTS),
                 path_keys=all_names, positions=sorted(PATH_POSITIONS),
                 failed_first_attempt=dict(
                     steps=list(FAIL_STEPS), max_entities=1, AF=AF, PF=PF)))
    return fam


RULE = (
    'E3, no sampling: every world description of an explicit grammar is '
    'loaded by the real code through 5 entry variants (populate_world_from_'
    'dict on a World; the same as the transform function of a WorldHandle; '
    'WorldFromFileHandle on a generated JSON file with the handle stored at '
    "root key 'w', under the composite key 'worlds/w' with an implicit "
    'sub-map, and under an explicitly assigned sub-map) - part "structure" '
    "adds a 6th, 'file_extra': the file handle at root key 'w' with one more "
    'transform function appended (populate_world_from_dict of a dictionary '
    'with one entity "hud" owning one Hnd), expected content = file '
    'description + that entity, every Hnd (of the file and of the further '
    'function) logging on_add once then on_world_load(handle, world) once '
    'after enabling - and compared with a '
    'table oracle (menu value -> object the component must receive).  '
    'Every case of a file entry whose description holds a $res{a.b} / '
    '$handle{a.b} marker goes on, after the first load and all its checks, '
    'with the step "reload": root["a/b"] = a fresh handle, clear() on the '
    'world handle, root[key] again, and every clause is evaluated on the '
    'second world against the tree as it is then (the new handle / what the '
    'new handle loads, by identity; the other values as before; callbacks '
    'with the second world); such a case contains its single-load case, '
    'which is therefore not listed separately.  '
    'Every case of part "arguments" with a file entry whose description '
    'holds the pass-through string "$notref" is listed three times: as it '
    'is, and with the step "customise_other_before" / '
    '"customise_other_after" in front: ANOTHER WorldFromFileHandle on the '
    'same file is created before / after the handle under test is '
    'constructed (always before it loads), a custom dict transformer that '
    'rewrites every string argument starting with "$notref" is appended in '
    'place to the dict_transformers of its WorldFromFileTransformer, and '
    'the other handle is dropped (never loaded, never stored); the handle '
    'under test must pass every clause exactly as without it ("$notref" '
    'arrives as that str).  '
    'Argument values: 14-value menu (int, float, null, plain string, the '
    'EMPTY string "", '
    '"$notref", marker not at the start, marker inside a nested list, dict, '
    '${mod.OBJ}, ${mod.Cls.attr}, ${pkg.sub.OBJ}, $res{a.b}, $handle{a.b}).  '
    'Part "arguments": one Plain component of one id-less entity, or one '
    'ProcA, with every shape of <= 2 positional and <= 1 keyword argument; '
    'quick = each slot in turn runs over the whole menu while all other '
    'slots of the shape run over {1, ${mod.OBJ}} (product), thorough = the '
    'full product of all slots over the menu; crossed with carrier '
    '{component, processor} x 5 entries.  Part "structure": processor lists '
    '= every sub-list of {ProcA variant, ProcB} in both orders x entity '
    'lists of 0-2 entities (3 in the thorough part structure-3), each id in '
    '{absent, 7, "p1", 1, 0, ""} (ids distinct, 1 never after an id-less '
    'entity; 0 and "" are false in a boolean context and equal to no '
    'automatic id 1, 2, ...), '
    'each with 0-2 distinct component types of {Plain variant, Hnd} in both '
    'orders x empty keys omitted / written x 6 entries; Plain / ProcA '
    'variants are fixed argument lists named in the part parameters.  Part '
    '"processor-subclass": the same product with processor lists = every '
    'ordered sub-list (every subset in every order) of {ProcA variant, '
    'ProcB, ProcB2} that contains ProcB2, a SUBCLASS of ProcB (subclass '
    'listed before its base, after it, alone, next to the unrelated ProcA), '
    'x entity lists of 0-1 entities (thorough: 0-2) x empty keys omitted / '
    'written x 6 entries; expected: exactly the listed processors, each '
    'exact type once, in the listed order.  Part '
    '"extra-forms": ${name} of a str whose text is "$res{a.b}", of a '
    'threading.Lock and of a module, one argument, positional or keyword, '
    'component or processor, root placement.  Part "object-from-string": 13 '
    'dotted names whose (module, attribute path) split is given by the case, '
    'against importlib.import_module + getattr, called twice.  Part '
    '"resource-paths": 25 resource keys (an identifier, and keys holding a '
    'dash, blank, @, +, leading digit, non-ASCII letter, comma, #, ~, '
    'apostrophe, parentheses, brackets, =, %, !, *, double quote, colon, '
    'slash, backslash, pipe, $, a lone blank, a tab) x 4 positions in the '
    'enclosing tree (root[K]; a/K next to a/b; d/K/leaf where K names a '
    'sub-map; d/K/K) x {$res{...}, $handle{...}} x {positional, keyword} x '
    '{component, processor} x 3 file placements x every delimiter of '
    '{"/", ":", "|", "."} (ResourceMap.split_char, class attribute, set for '
    'the whole case) that is in none of the keys of the path; thorough adds '
    'every ordered pair of keys at position a/K as $res{} positional + '
    '$handle{} keyword (and the other way round) of one component / '
    'processor; each case goes on with the reload step (every path of the '
    'case gets a fresh handle); expected: the handle stored at that path / '
    'what its load() returned last, by identity.  Part "delimiter": for '
    'each split_char of {":", "|", "."} the structure family (processor '
    'lists of {A1, B}, 0-1 entities (thorough 0-2) with <= 2 components of '
    '{P1|P2, Hnd}, all ids, 6 entries; quick: empty keys omitted only) with '
    'the tree built through keys joined by that delimiter (a:b, worlds:w), '
    'reload step included; thorough part "delimiter-arguments": the '
    'slot-wise argument family (others = {1, $res{a.b}}) x 5 entries under '
    'the same three delimiters.  Part "failed-first-attempt": processor '
    'lists of {AF, B} x 0-1 entities (thorough 0-2) with <= 2 components '
    'of {PF, Hnd} x all ids x 4 file entries x every step '
    'fail_<cause>_<who> the description can take (cause: resource = every '
    'resource handle raises in load(), needs a $res{} marker; file = the '
    'world file does not exist yet; module = the module of ${c15h_late.OBJ} '
    'is not importable yet; who: same = the failing attempt is made through '
    'the handle under test, other = through another WorldFromFileHandle on '
    'the same file stored at root key w2), thorough also under delimiter '
    '":"; the attempt is made, the cause removed, and the load under test '
    '(plus reload step) must pass every clause.  Part "falsy-objects": '
    'the referent of a ${...} marker is FALSE in a boolean context - 10 '
    'named objects of the harness module: 0, False, None, (), "", an empty '
    'list, an empty dict, an IntEnum member of value 0 (${mod.Layer.'
    'BACKGROUND}), an instance whose __bool__() is False, an instance whose '
    '__len__() is 0; slot-wise argument family (the varying slot runs over '
    'these 10 markers, the other slots over {${mod.OBJ}, $res{a.b}}; '
    'thorough: {1, ${mod.OBJ}, $res{a.b}, $handle{a.b}}) x {component, '
    'processor} x 5 entries, reload step where a resource marker is there; '
    'expected: the named object itself, by identity; part "object-from-'
    'string" lists the same 10 dotted names.  Part "falsy-handles": tree '
    'option falsy = one of 3 flavours: EVERY resource handle of the tree is '
    'an instance of a Handle subclass that is false in a boolean context '
    '(__len__() == 0 / __bool__() False / __bool__() == cached) and loads a '
    'resource that is false too (a fresh empty list / an instance whose '
    '__bool__() is False / None); per flavour: the structure family of part '
    '"delimiter" (descriptions that hold a resource marker only; 4 file '
    'entries; quick: delimiters "/" and ":", 0-1 entities, empty keys '
    'omitted; thorough: "/" with 0-2 entities, and all four delimiters with '
    '0-1 entities and empty keys omitted / written), the slot-wise argument '
    'family (one slot over the 14-value menu, the others over {1, '
    '$res{a.b}, $handle{a.b}}, shapes with a resource marker) x {component, '
    'processor} x 3 file placements, the resource keys {identifier, dash, '
    'blank} (thorough: all) x 4 positions x {$res, $handle} x {positional, '
    'keyword} x {component, processor} x 3 file placements x delimiters '
    '{"/", ":"} (thorough: all four), and the failed-first-attempt family '
    'with 0-1 entities under "/"; every case with the reload step; '
    'expected as everywhere: the handle stored at the path / what its '
    'load() returned last, by identity.  A case is '
    'distinct by its JSON text; non-trivial = it passed the oracle while '
    'exercising a named shortcut (reference kinds, id kinds, handler '
    'component, handle placement, further transform function, reload after '
    'the resource was replaced, empty string argument, subclass processor '
    'before / after its base, another handle customised first / later, '
    'resource key classes and positions, custom delimiter, load after a '
    'failed attempt by cause and by handle, each false named object, a '
    'handle / a loaded resource that is false when the component holds it, '
    'per flavour, a false handle below a sub-map).')

ASSUMPTIONS = [
    'out of the alphabet: malformed markers (unterminated, trailing text '
    'after the closing brace, empty or unresolvable names, paths that name '
    'no handle), duplicate component types within one entity, duplicate '
    'processor types (two processors of the same exact type; a type and a '
    'subclass of it are two different types and are in the alphabet: part '
    'processor-subclass), duplicate entity ids - an explicit id 1 is only '
    'listed '
    'before id-less entities -, rebinding a named ${...} python object '
    'between loads (object_from_string is documented as cached; its '
    'lru_cache is cleared around every case, never inside one)',
    'the resource tree, unlike the named python objects, may change between '
    'two loads: the reload step replaces the handle stored at the one path '
    'the menu refers to (a/b) by plain assignment; removing the path, '
    'replacing a handle by a sub-map or moving the world handle itself '
    'between the loads is not in the alphabet.  What clear() does to the '
    'first world, and the state of the replaced handle, are not asked',
    'falsy identifiers are the int 0 and the empty string; 0.0 and False '
    '(equal to 0 as dictionary keys) and ids that are equal across types '
    '(1 / 1.0 / True) are not in the id menu',
    "the further transform function of 'file_extra' is the documented "
    'populate_world_from_dict on real types, run after the file loader; it '
    'adds no processor and its entity id "hud" is in no id menu, so it '
    'never collides with the file description.  How many times '
    'on_world_load is *dispatched* is not asked, only what each handler '
    'component has logged once the world is enabled',
    'the dict entry points receive the resolved description (real types, '
    'and the named object / loaded resource / handle where the file has a '
    'marker); whether populate_world_from_dict itself should resolve marker '
    'strings is not asked',
    'id-less entities may receive any identifiers that differ from each '
    'other and from the given ones; every assignment of the remaining '
    'world entities to the id-less descriptions is accepted',
    'components of one entity are compared by type, not by position; '
    'processors are compared as a sequence (clause processor_order is '
    'separate from processor_set so that it can be dropped alone)',
    'an entity listed without components does not exist afterwards; an '
    'id-less one may still consume an automatic identifier',
    'populate_world_from_dict on a caller-made enabled World: on_add once '
    'per handler component, on_world_load not asked (there is no handle)',
    'a WorldHandle with populate_world_from_dict as transform function is '
    'treated as the handle form of the dictionary entry point (no default '
    'processors expected there)',
    'pass-through values are compared by equality and exact type '
    '(recursively), references by identity; how often the loader copies or '
    'constructs intermediate objects is not asked',
    'isolation steps: the other handle is a stock WorldFromFileHandle on '
    'the same file, customised in place through '
    'transform_functions[...].dict_transformers.append (if the sequence has '
    'no append, a new list is assigned to that one transformer instead); it '
    'is never loaded - what a customised handle itself loads is not in the '
    'statement.  The custom transformer is checked on a literal dictionary '
    'before use (harness error otherwise).  At the end of the case the '
    'harness takes its function out of the very sequence it appended to '
    '(cases stay independent on a tree that shares the sequence); nothing '
    'of desper is saved, patched or restored.  Isolation steps are confined '
    'to part "arguments" (entries file_root, file_composite, file_submap)',
    'the empty string is an argument value like any other str; empty '
    'dictionary keys / keyword names are not in the menu',
    'resource paths: a key is any non-empty str without "." (the marker '
    'syntax gives no way to write such a key) and without the delimiter of '
    'the tree; keys holding "{" or "}" (indistinguishable from malformed '
    'markers) and empty keys are not in the key menu; a key with a line '
    'break is (the pinned tree passed "$res{a.x\\ny}" through as a str: '
    'the stock patterns used "." without DOTALL - repaired, section 4)',
    'the delimiter is changed only the documented way (class attribute '
    'ResourceMap.split_char, one character, constant during a case, the '
    'tree built after the change); an instance attribute, a change between '
    'building the tree and loading, and multi-character delimiters are not '
    'in the alphabet',
    '"the loaded resource" of a $res{} marker is the object returned by the '
    'most recent completed load() of the handle stored at that path, as '
    'recorded by the harness handle; how often load() is called is not '
    'asked',
    'failed first attempt: the oracle accepts any exception from the '
    'attempt and asks nothing about it (if it does not raise, the case ends '
    'without a verdict and without a coverage name); after the cause is '
    'removed the load under test - the same handle again without clear(), '
    'or another handle that shares file and resources - is an ordinary load '
    'of a well-formed description and must pass every clause.  Causes are '
    'transient and external (resource handle load() raising, missing world '
    'file, module not yet in sys.modules); the lru_cache of '
    'object_from_string is not cleared between attempt and load',
    'falsy referents: the statement says "the named Python object", "the '
    'loaded resource", "the resource\'s handle" without any condition on '
    'what bool() of that object answers, and Handle is a base class for '
    'user code; the oracle therefore expects a false referent exactly as a '
    'true one (identity).  The harness handles define __len__ / __bool__ '
    'only - no __eq__, no __hash__ change; the harness itself never '
    'branches on the truth value of a handle or a resource (it only counts '
    'the coverage names falsy_handle_ref / falsy_resource_ref when the '
    'object a component received is false at that moment).  Sub-maps and '
    'the world handle itself are stock (true) objects; a falsy component / '
    'processor TYPE is not in the alphabet.  In a tree of flavour '
    'false_until_loaded a handle named only by $handle{} is false when it '
    'is resolved, one also named by $res{} earlier in the file is true',
    'named objects of the main menu are deep-copyable instances; objects '
    'that cannot be deep-copied (a lock, a module) and a named str whose '
    'text looks like a resource marker are confined to part extra-forms',
]


def run(tier, rep):
    global _SCRATCH
    rep.rule = RULE
    rep.assumptions += ASSUMPTIONS
    rep.require_hits(object_ref=1, attr_ref=1, package_ref=1, res_ref=1,
                     handle_ref=1, marker_not_at_start=1,
                     nested_list_passthrough=1, dollar_not_marker=1,
                     kwarg_ref=1, processor_arg_ref=1, explicit_id=1,
                     string_id=1, colliding_explicit_id=1, auto_id=1,
                     handler_component=1, handler_callbacks_in_order=1,
                     two_handler_components=1, root_key_handle=1,
                     composite_key_handle=1, submap_key_handle=1,
                     dict_entry=1, dict_real_object_arg=1,
                     default_processors=1, ofs_nested_attr=1,
                     ofs_submodule=1,
                     falsy_id=1, zero_id=1, empty_string_id=1,
                     falsy_id_next_to_auto_id=1,
                     extra_transform_function=1,
                     extra_transform_after_file_handler=1,
                     reload_after_resource_replaced=1,
                     res_ref_after_replace=1, handle_ref_after_replace=1,
                     empty_string=1, subclass_processor=1,
                     subclass_processor_before_base=1,
                     base_processor_before_subclass=1,
                     subclass_and_base_next_to_unrelated_processor=1,
                     other_handle_customised=1,
                     other_handle_customised_first=1,
                     other_handle_customised_later=1,
                     # resource-paths
                     res_path_ref=1, handle_path_ref=1,
                     res_path_ref_after_replace=1,
                     handle_path_ref_after_replace=1,
                     # delimiter
                     custom_delimiter=1, custom_delimiter_res_ref=1,
                     custom_delimiter_handle_ref=1,
                     custom_delimiter_res_path_ref=1,
                     custom_delimiter_handle_path_ref=1,
                     custom_delimiter_composite_world_key=1,
                     # failed-first-attempt
                     first_attempt_raised=1, late_module_ref=1,
                     load_after_failed_resource_load=1,
                     load_after_missing_world_file=1,
                     load_after_missing_module=1,
                     load_after_failed_attempt_of_the_same_handle=1,
                     load_after_failed_attempt_of_another_handle=1,
                     # falsy-objects
                     falsy_object_ref=1, falsy_object_kwarg_ref=1,
                     falsy_object_processor_arg_ref=1, ofs_falsy_object=1,
                     **{kind: 1 for kind in FALSY_NAME_OF},
                     # falsy-handles
                     falsy_handle_ref=1, falsy_resource_ref=1,
                     falsy_handle_ref_below_a_sub_map=1,
                     falsy_handles_after_failed_attempt=1,
                     **{'falsy_handles_' + f: 1 for f in FALSY_FLAVOURS},
                     **{'falsy_handle_ref_' + f: 1 for f in FALSY_FLAVOURS},
                     **{'falsy_resource_ref_' + f: 1
                        for f in FALSY_FLAVOURS},
                     **{'path_key_' + name: 1 for name, _ in PATH_KEYS},
                     **{'path_position_' + pos: 1 for pos in PATH_POSITIONS})
    saved = {name: sys.modules.get(name) for name in _MODULE_NAMES}
    _SCRATCH = _make_scratch()
    try:
        sizes = {}
        for part, (runner, cases, params) in families(tier).items():
            kernel.enumerate_cases(runner, cases, rep, part, params=params,
                                   chunk=50 if len(cases) < 20000 else 200)
            sizes[part] = len(cases)
        rep.extra['c15_cases_per_part'] = sizes
        rep.extra['c15_menu'] = dict(zip(KINDS + EXTRA_KINDS,
                                         MENU + EXTRA_MENU))
        rep.extra['c15_id_menu'] = IDS
        rep.extra['c15_case_forms'] = [
            '(entry, sparse, processors, entities)',
            '(entry, sparse, processors, entities, steps)',
            '(entry, sparse, processors, entities, steps, tree options: '
            'split_char, falsy)']
        rep.extra['c15_steps'] = list(STEPS)
        rep.extra['c15_path_keys'] = dict(PATH_KEYS)
        rep.extra['c15_path_positions'] = {
            pos: make('<key>') for pos, make in PATH_POSITIONS.items()}
        rep.extra['c15_split_chars'] = list(SPLIT_CHARS)
        rep.extra['c15_falsy_object_menu'] = dict(FALSY_MARKER)
        rep.extra['c15_falsy_handle_flavours'] = list(FALSY_FLAVOURS)
    finally:
        shutil.rmtree(_SCRATCH, ignore_errors=True)
        _SCRATCH = None
        object_from_string.cache_clear()
        for name, module in saved.items():
            if module is None:
                sys.modules.pop(name, None)
            else:
                sys.modules[name] = module


def replay(rec):
    part = rec['part']
    if part == 'object-from-string':
        runner = run_ofs_case
    elif part in ('arguments', 'extra-forms', 'structure', 'structure-3',
                  'processor-subclass', 'resource-paths', 'delimiter',
                  'delimiter-arguments', 'failed-first-attempt',
                  'falsy-objects', 'falsy-handles'):
        runner = run_world_case
    else:
        raise SystemExit(f'unknown part {part}')
    try:
        runner(rec['case'])
    except Violation as viol:
        return viol
    return None
