"""C19 - controllers, references and prototypes are faithful shorthands."""
import collections
import itertools

from mc import env  # noqa: F401
from mc import kernel
from mc.canon import canon
from mc.report import Violation, Lookalike

import desper

RULE = ('(a) E1 twin exploration to fixpoint: two real Worlds driven in '
        'lockstep through World operations (add / remove / delete / immediate '
        'delete / process / clear / disable / enable over 2 ids and classes '
        'A, B(A), X, a Controller subclass K); in every reached state each '
        'shorthand (add_component, remove_component, has_component, '
        'get_component, get_components, delete, ComponentReference get / set '
        '/ del, ProcessorReference get / set / del) is applied to twin 1 '
        'through the Controller attached to entity 1 and the corresponding '
        'World call to twin 2: results and successor canonical keys must be '
        'equal, and an attached controller must name its real owner.  '
        '(b) E3: every Prototype subclass shape.  (c) E3: OnUpdateProcessor '
        'with 0-3 listeners x dt values.')


class Plain:
    def __init__(self, label):
        self.label = label

    def __repr__(self):
        return self.label

    def __hash__(self):
        # deterministic (labels are strings, PYTHONHASHSEED is fixed): the
        # iteration order of desper's listener sets must not depend on
        # object addresses, or replays of one history could differ
        return hash(self.label)


class A(Plain):
    pass


class B(A):
    def __bool__(self):     # legal components may be falsy
        return False


class X(Plain):
    """A legal component type with value-based equality: every X equals
    every other X (like a dataclass with equal fields)."""

    def __eq__(self, other):
        return isinstance(other, X)

    def __hash__(self):
        return 7


class PA(desper.Processor):
    def __init__(self, label):
        self.label = label
        self.priority = 3       # instance level priority (class default: 0)

    def process(self, dt):
        pass


class PB(PA):
    pass


class K(desper.Controller, Plain):
    a = desper.ComponentReference(A)
    b = desper.ComponentReference(B)
    x = desper.ComponentReference(X)
    pa = desper.ProcessorReference(PA)
    pb = desper.ProcessorReference(PB)


TYPES = {'A': A, 'B': B, 'X': X, 'K': K}
PTYPES = {'PA': PA, 'PB': PB}
REFS = {'A': 'a', 'B': 'b', 'X': 'x'}
PREFS = {'PA': 'pa', 'PB': 'pb'}
IDS = (1, 2)


class Ctx:
    pass


def lab(x):
    if isinstance(x, (tuple, list)):
        return sorted(lab(i) for i in x)
    return getattr(x, 'label', x)


class TwinDriver:
    name = 'twin'

    def __init__(self, toggles=True, types=('A', 'B', 'X'), max_postponed=2):
        self.toggles = toggles
        self.types = types
        self.max_postponed = max_postponed

    def params(self):
        return dict(ids=IDS, types=self.types + ('K',), toggles=self.toggles,
                    processors=tuple(PTYPES), max_postponed=self.max_postponed)

    def initial(self):
        ctx = Ctx()
        ctx.hits = collections.Counter()
        ctx.w = [desper.World(), desper.World()]
        ctx.k = [None, None]        # controller last attached to entity 1
        ctx.counter = 0
        ctx.enabled = True
        ctx.postponed = 0
        ctx.keep = []
        return ctx

    def _knows(self, ctx):
        """Controller of twin 1 is attached to entity 1 and was told so."""
        k = ctx.k[0]
        return (k is not None and ctx.w[0].get_component(1, K) is k
                and k.world is ctx.w[0])

    def ops(self, ctx):
        if (self.toggles and not ctx.enabled
                and ctx.postponed >= self.max_postponed):
            return [('enable',)]
        ops = [('attach',)]
        for e in IDS:
            for t in self.types:
                ops.append(('add', e, t))
                ops.append(('remove', e, t))
        ops.append(('remove', 1, 'K'))
        for e in IDS:
            ops.append(('delete', e))
            if ctx.w[0].get_components(e):
                ops.append(('delete_now', e))
        ops.append(('process',))
        if ctx.enabled or not self.toggles:
            ops.append(('clear',))
        if self.toggles:
            ops.append(('disable',) if ctx.enabled else ('enable',))
        for p in PTYPES:
            ops.append(('addproc', p))
        # a free-standing controller for entity 2 (desper.controller(e, w)
        # style: never attached as a component), whatever the state of 2
        for t in self.types:
            ops += [('f_add', t), ('f_remove', t), ('f_has', t),
                    ('f_get', t), ('fref_get', t), ('fref_set', t),
                    ('fref_del', t)]
        ops += [('f_gets',), ('f_delete',)]
        if self._knows(ctx):
            for t in self.types:
                ops += [('s_add', t), ('s_remove', t), ('s_has', t),
                        ('s_get', t), ('ref_get', t), ('ref_set', t),
                        ('ref_del', t)]
            ops += [('s_remove', 'K'), ('s_gets',), ('s_delete',)]
            for p in PTYPES:
                ops += [('pref_get', p), ('pref_set', p), ('pref_del', p)]
        return ops

    def _new(self, ctx, tname, table=TYPES):
        ctx.counter += 1
        pair = [table[tname](f'{tname}{ctx.counter}') for _ in range(2)]
        ctx.keep.extend(pair)
        return pair

    def apply(self, ctx, op):
        w1, w2 = ctx.w
        kind = op[0]
        r1 = r2 = None
        deleted_k = False
        if kind.startswith(('f_', 'fref_')):
            ctx.hits['free_controller_' + kind] += 1
            free = K('free')
            plain = desper.controller(2, w1)
            free.entity, free.world = plain.entity, plain.world
            if not w1.get_components(2):
                ctx.hits['shorthand_on_entity_without_components'] += 1
            short = ('s_' + kind[2:]) if kind.startswith('f_') else kind[1:]
            try:
                r1, r2 = self._shorthand(ctx, (short,) + tuple(op[1:]), free,
                                         w2, entity=2)
            except Violation:
                raise
            except Exception as exc:
                raise Violation('shorthand_same_result',
                                f'{op}: raised {exc!r}', op=kind)
        elif kind.startswith(('s_', 'ref_', 'pref_')):
            ctx.hits['shorthand_' + kind] += 1
            k = ctx.k[0]
            if k.entity != 1:
                raise Violation('controller_knows_its_entity',
                                f'controller attached to entity 1 says '
                                f'entity = {k.entity!r}')
            try:
                r1, r2 = self._shorthand(ctx, op, k, w2)
            except Violation:
                raise
            except Exception as exc:
                raise Violation('shorthand_same_result',
                                f'{op}: raised {exc!r}', op=kind)
        elif kind == 'attach':
            k1, k2 = self._new(ctx, 'K')
            w1.add_component(1, k1)
            w2.add_component(1, k2)
            ctx.k = [k1, k2]
            if not ctx.enabled:
                ctx.postponed += 1
                ctx.hits['attach_while_disabled'] += 1
        elif kind == 'add':
            c1, c2 = self._new(ctx, op[2])
            w1.add_component(op[1], c1)
            w2.add_component(op[1], c2)
        elif kind == 'remove':
            r1 = w1.remove_component(op[1], TYPES[op[2]])
            r2 = w2.remove_component(op[1], TYPES[op[2]])
        elif kind == 'delete':
            w1.delete_entity(op[1])
            w2.delete_entity(op[1])
        elif kind == 'delete_now':
            w1.delete_entity(op[1], immediate=True)
            w2.delete_entity(op[1], immediate=True)
        elif kind == 'process':
            errs = []
            for w in (w1, w2):
                try:
                    w.process(1)
                    errs.append(None)
                except KeyError as exc:
                    errs.append(repr(exc))
            if errs[0] != errs[1]:
                raise Violation('shorthand_same_effect',
                                f'process(): controller side -> {errs[0]}, '
                                f'World side -> {errs[1]}', op='process')
            if errs[0] is not None:
                # deferred delete of an id without components (pinned by the
                # suite): both twins are in the same situation - C05's topic
                raise kernel.Pruned('process raised KeyError (C05)')
        elif kind == 'clear':
            w1.clear()
            w2.clear()
            ctx.postponed = 0
        elif kind == 'disable':
            w1.dispatch_enabled = False
            w2.dispatch_enabled = False
            ctx.enabled = False
        elif kind == 'enable':
            w1.dispatch_enabled = True
            w2.dispatch_enabled = True
            ctx.enabled = True
            if ctx.postponed:
                ctx.hits['postponed_on_add_released'] += 1
            ctx.postponed = 0
        elif kind == 'addproc':
            p1, p2 = self._new(ctx, op[1], PTYPES)
            w1.add_processor(p1)
            w2.add_processor(p2)
        else:
            raise ValueError(op)
        del deleted_k
        if lab(r1) != lab(r2):
            raise Violation('shorthand_same_result',
                            f'{op}: through the controller -> {lab(r1)!r}, '
                            f'World call -> {lab(r2)!r}', op=kind)
        self._compare_reads(ctx, op)
        k1 = self.key_of(ctx, 0)
        k2 = self.key_of(ctx, 1)
        if k1 != k2:
            raise Violation('shorthand_same_effect',
                            f'{op}: the twin worlds differ afterwards:\n'
                            f'  controller side: {k1}\n  World side: {k2}',
                            op=kind)
        # an attached controller that has been told (dispatching enabled)
        for i in (0, 1):
            k = ctx.w[i].get_component(1, K)
            if k is not None and ctx.enabled and (k.world is not ctx.w[i]
                                                  or k.entity != 1):
                raise Violation('controller_knows_entity_and_world',
                                f'after {op}: controller attached to entity '
                                f'1 has entity = {k.entity!r}, world '
                                f'{"ok" if k.world is ctx.w[i] else k.world!r}',
                                op=kind, twin=i)

    def _compare_reads(self, ctx, op):
        """Every read-only shorthand is asked after every operation (also
        after plain World calls), so that anything a shorthand remembers
        from an earlier read is confronted with the world as it is now; and
        the twins must hold the *same instances* (by label), not merely the
        same types."""
        w1, w2 = ctx.w
        for e in IDS:
            l1 = sorted(c.label for c in w1.get_components(e))
            l2 = sorted(c.label for c in w2.get_components(e))
            if l1 != l2:
                raise Violation('shorthand_same_effect',
                                f'{op}: entity {e} owns {l1} on the '
                                f'controller side, {l2} on the World side',
                                op=op[0], instances=True)
        vehicles = []
        if self._knows(ctx):
            vehicles.append((ctx.k[0], 1))
        free = K('free')
        free.entity, free.world = 2, w1
        vehicles.append((free, 2))
        for k, e in vehicles:
            reads = [('get_components', lab(k.get_components()),
                      lab(w2.get_components(e)))]
            for t in self.types + ('K',):
                klass = TYPES[t]
                reads.append((f'has_component({t})', k.has_component(klass),
                              w2.has_component(e, klass)))
                reads.append((f'get_component({t})',
                              lab(k.get_component(klass)),
                              lab(w2.get_component(e, klass))))
            for t in self.types:
                reads.append((f'reference {t}', lab(getattr(k, REFS[t])),
                              lab(w2.get_component(e, TYPES[t]))))
            for p in PTYPES:
                reads.append((f'processor reference {p}',
                              lab(getattr(k, PREFS[p])),
                              lab(w2.get_processor(PTYPES[p]))))
            for what, a, b in reads:
                if a != b:
                    raise Violation(
                        'shorthand_same_result',
                        f'after {op}: {what} through the controller of '
                        f'entity {e} -> {a!r}, World call -> {b!r}',
                        op='read_after_' + op[0])
        ctx.hits['reads_compared_after_every_operation'] += 1

    def _shorthand(self, ctx, op, k, w2, entity=1):
        kind = op[0]
        if kind == 's_add':
            c1, c2 = self._new(ctx, op[1])
            return k.add_component(c1), w2.add_component(entity, c2)
        if kind == 's_remove':
            return (k.remove_component(TYPES[op[1]]),
                    w2.remove_component(entity, TYPES[op[1]]))
        if kind == 's_has':
            return (k.has_component(TYPES[op[1]]),
                    w2.has_component(entity, TYPES[op[1]]))
        if kind == 's_get':
            return (k.get_component(TYPES[op[1]]),
                    w2.get_component(entity, TYPES[op[1]]))
        if kind == 's_gets':
            return k.get_components(), w2.get_components(entity)
        if kind == 's_delete':
            return k.delete(), w2.delete_entity(entity)
        if kind == 'ref_get':
            return (getattr(k, REFS[op[1]]),
                    w2.get_component(entity, TYPES[op[1]]))
        if kind == 'ref_set':
            c1, c2 = self._new(ctx, op[1])
            setattr(k, REFS[op[1]], c1)
            return None, w2.add_component(entity, c2)
        if kind == 'ref_del':
            delattr(k, REFS[op[1]])
            w2.remove_component(entity, TYPES[op[1]])
            return None, None
        if kind == 'pref_get':
            return (getattr(k, PREFS[op[1]]),
                    w2.get_processor(PTYPES[op[1]]))
        if kind == 'pref_set':
            p1, p2 = self._new(ctx, op[1], PTYPES)
            setattr(k, PREFS[op[1]], p1)
            return None, w2.add_processor(p2)
        if kind == 'pref_del':
            delattr(k, PREFS[op[1]])
            w2.remove_processor(PTYPES[op[1]])
            return None, None
        raise ValueError(op)

    def check(self, ctx):
        return None

    def key_of(self, ctx, i):
        w = ctx.w[i]
        names = {}
        for e in IDS + (3,):
            for comp in w.get_components(e):
                names[id(comp)] = f'{e}.{type(comp).__name__}'
        for proc in w.processors:
            names[id(proc)] = (f'proc.{type(proc).__name__}',
                               getattr(proc, 'priority', None))

        def namer(o):
            n = names.get(id(o))
            if n is not None:
                return n
            if isinstance(o, (Plain, PA)):
                return '~' + type(o).__name__
            return None
        k = w.get_component(1, K)
        told = None if k is None else (k.entity, k.world is w)
        return (canon((w,), namer), told)

    def key(self, ctx):
        return (self.key_of(ctx, 0), ctx.enabled, ctx.postponed)


# -- (a2) a controller instance handed from one entity to another ------------
def run_move(case):
    """The same Controller instance is given to a second entity before (or
    after) its first attachment is torn down.  At the end it is attached to
    entity 2 only and must know exactly that."""
    give, tear, order, disabled = case
    w = desper.World()
    k = K('k')
    w.create_entity(k, A('a1'), entity_id=1)
    steps = ['give', 'tear'] if order == 'give_first' else ['tear', 'give']
    if disabled:
        w.dispatch_enabled = False
    for step in steps:
        if step == 'give':
            if give == 'create':
                w.create_entity(k, X('x2'), entity_id=2)
            else:
                w.add_component(2, k)
        else:
            if tear == 'remove':
                w.remove_component(1, K)
            elif tear == 'delete_now':
                w.delete_entity(1, immediate=True)
            else:
                w.delete_entity(1)
                if order == 'tear_first' or not disabled:
                    pass
    if disabled:
        w.dispatch_enabled = True
    if tear == 'delete':
        w.process(1)
    owners = [e for e in (1, 2) if w.get_component(e, K) is k]
    if owners != [2]:
        raise Violation('controller_moves', f'{case}: owners {owners}')
    if order == 'give_first' and (k.world is not w or k.entity != 2):
        # the removal that arrives later concerns the *older* attachment
        raise Violation(
            'controller_knows_entity_and_world',
            f'{case}: controller attached to entity 2 only has entity = '
            f'{k.entity!r}, world {"ok" if k.world is w else k.world!r}',
            op='move', twin=0)
    if order == 'give_first':
        got = lab(k.get_components())
        want = lab(w.get_components(2))
        if got != want or k.has_component(K) is not True:
            raise Violation('shorthand_same_result',
                            f'{case}: get_components through the moved '
                            f'controller -> {got}, World -> {want}',
                            op='read_after_move')
    return {'calls': 4, 'hits': {'controller_handed_to_another_entity': 1,
                                 'moved_' + order: 1},
            'key': repr(case)}


def move_cases():
    return [(g, t, o, d) for g in ('create', 'add')
            for t in ('remove', 'delete_now', 'delete')
            for o in ('give_first', 'tear_first') for d in (0, 1)]


# -- (b) Prototype shapes ----------------------------------------------------
def _mk(name):
    return type(name, (), {'__init__': lambda self, tag='default':
                           setattr(self, 'built_by', tag)})


CA = _mk('CA')
CB = _mk('CB')
CA2 = _mk('CA')     # same __name__, different class

TYPE_LISTS = {
    'empty': (), 'one': (CA,), 'two': (CA, CB), 'same_name': (CA, CA2),
    'repeat': (CA, CA), 'three': (CB, CA, CA2),
}
# per listed class: which sources exist
SOURCES = list(itertools.product((0, 1), repeat=2))  # (entry?, method?)


class SourceFailed(Lookalike):
    """Raised by a construction source while it runs (an AttributeError,
    KeyError, TypeError ... of its own): it is the caller's to see, not a
    reason to fall back to another source."""


def _failing(*args):
    raise SourceFailed('construction source failed while running')


def run_prototype(case):
    fault = 'none'
    if len(case) == 5:
        fault = case[4]
        case = case[:4]
    tl_name, src, prefix_kind, sub_kind = case
    if fault != 'none':
        return run_prototype_fault(tl_name, src, prefix_kind, fault)
    types = TYPE_LISTS[tl_name]
    uniq = []
    for t in types:
        if t not in uniq:
            uniq.append(t)
    src = dict(zip(uniq, src))
    prefix = {'default': 'init_', 'custom': 'make_'}[prefix_kind]
    hits = {}
    ns = {'component_types': types}
    if prefix_kind == 'custom':
        ns['init_prefix'] = prefix
        hits['custom_prefix'] = 1
    entries = {}
    for t in uniq:
        has_entry, has_method = src[t]
        if has_entry:
            entries[t] = (lambda tt, _t=t: tt('entry'))
        if has_method:
            ns[prefix + t.__name__] = (lambda self, tt: tt('method'))
        # a method under the *other* prefix must be ignored
        other = 'make_' if prefix == 'init_' else 'init_'
        ns[other + t.__name__] = (lambda self, tt: tt('wrong_prefix'))
    if entries:
        ns['init_methods'] = entries
    base = type('Proto', (desper.Prototype,), ns)
    expected_src = dict(src)
    order = 'sub_only'
    if ':' in sub_kind:
        sub_kind, order = sub_kind.split(':')
    other = 'make_' if prefix == 'init_' else 'init_'
    if sub_kind == 'none' or not uniq:
        cls = base
        sub_kind = 'none'
    elif sub_kind == 'override_method':
        t = uniq[0]
        cls = type('SubProto', (base,),
                   {prefix + t.__name__: (lambda self, tt: tt('sub_method'))})
        hits['subclass_override'] = 1
        if not expected_src[t][1]:
            hits['subclass_adds_method'] = 1
    elif sub_kind == 'override_entries':
        t = uniq[-1]
        cls = type('SubProto', (base,),
                   {'init_methods': {t: (lambda tt: tt('sub_entry'))}})
        hits['subclass_override'] = 1
    elif sub_kind == 'change_prefix':
        # the subclass only switches to the other prefix: the methods the
        # base class ignored are now the prefixed ones
        cls = type('SubProto', (base,), {'init_prefix': other})
        hits['subclass_changes_prefix'] = 1
    else:
        cls = base
        sub_kind = 'none'

    def want_for(kind, t):
        if kind == 'override_entries':
            # the subclass mapping replaces the base mapping wholesale
            entry = 'sub_entry' if t is uniq[-1] else None
        else:
            entry = 'entry' if expected_src[t][0] else None
        shared = [u for u in uniq if u.__name__ == t.__name__
                  and expected_src[u][1]]
        if kind == 'change_prefix':
            method = 'wrong_prefix'
        elif (kind == 'override_method'
                and t.__name__ == uniq[0].__name__):
            method = 'sub_method'
        elif shared:
            method = 'method'
            if not expected_src[t][1]:
                hits['same_name_shares_method'] = 1
        else:
            method = None
        if entry:
            if method:
                hits['entry_wins'] = 1
            return entry
        if method:
            hits['prefixed_method'] = 1
            return method
        hits['default_constructor'] = 1
        return 'default'

    # which prototypes are iterated, in which order: a class must not be
    # affected by another class of its family having been iterated before
    plan = [(cls, sub_kind)]
    if cls is not base:
        if order == 'base_first':
            plan = [(base, 'none'), (cls, sub_kind), (base, 'none')]
            hits['base_iterated_before_subclass'] = 1
        elif order == 'sub_first':
            plan = [(cls, sub_kind), (base, 'none'), (cls, sub_kind)]
            hits['subclass_iterated_before_base'] = 1
    seen_ids = set()
    calls = 0
    keepalive = []
    for pcls, kind in plan:
        proto = pcls()
        for round_ in range(2):
            got = list(proto)
            calls += 1
            if len(got) != len(types):
                raise Violation('one_component_per_listed_type',
                                f'{case}: {len(got)} components for '
                                f'{len(types)} listed types')
            for t, obj in zip(types, got):
                if type(obj) is not t:
                    raise Violation('components_in_listed_order',
                                    f'{case}: expected a {t.__name__} '
                                    f'({id(t)}), got {type(obj).__name__}')
                if id(obj) in seen_ids:
                    raise Violation('new_component_each_time', f'{case}')
                seen_ids.add(id(obj))
                want = want_for(kind, t)
                if obj.built_by != want:
                    raise Violation(
                        'construction_source_priority',
                        f'{case}: {pcls.__name__} (plan '
                        f'{[c.__name__ for c, _ in plan]}): {t.__name__} '
                        f'built by {obj.built_by!r}, expected {want!r}',
                        expected=want, got=obj.built_by)
            keepalive.append(got)
    del keepalive
    return {'calls': calls, 'hits': hits, 'key': repr(case)}


def run_prototype_fault(tl_name, src, prefix_kind, fault):
    """The source that has to build the first listed type raises while it
    runs: iterating raises that exception - no component of that type is
    built by a lower-priority source instead."""
    case = (tl_name, src, prefix_kind, 'none', fault)
    types = TYPE_LISTS[tl_name]
    uniq = []
    for t in types:
        if t not in uniq:
            uniq.append(t)
    src = dict(zip(uniq, src))
    prefix = {'default': 'init_', 'custom': 'make_'}[prefix_kind]
    ns = {'component_types': types}
    if prefix_kind == 'custom':
        ns['init_prefix'] = prefix
    entries = {}
    victim = uniq[0]
    for t in uniq:
        has_entry, has_method = src[t]
        winner = 'entry' if has_entry else ('method' if has_method else None)
        if has_entry:
            entries[t] = (_failing if (t is victim and winner == 'entry')
                          else (lambda tt, _t=t: tt('entry')))
        if has_method:
            ns[prefix + t.__name__] = (
                (lambda self, tt: _failing()) if (t is victim
                                                  and winner == 'method')
                else (lambda self, tt: tt('method')))
    if entries:
        ns['init_methods'] = entries
    has_entry, has_method = src[victim]
    if not has_entry and has_method:
        # (listed classes of one name share the prefixed method)
        ns[prefix + victim.__name__] = lambda self, tt: _failing()
    cls = type('Proto', (desper.Prototype,), ns)
    hits = {'winning_source_raises': 1,
            ('failing_entry' if has_entry else 'failing_method'): 1}
    try:
        got = list(cls())
    except SourceFailed:
        return {'calls': 1, 'hits': hits, 'key': repr(case)}
    except Exception as exc:
        raise Violation('construction_source_priority',
                        f'{case}: the source building {victim.__name__} '
                        f'raised SourceFailed, iterating raised {exc!r}',
                        expected='exception', got=type(exc).__name__)
    built = [getattr(o, 'built_by', None) for o in got
             if type(o) is victim]
    raise Violation('construction_source_priority',
                    f'{case}: the '
                    f'{"init_methods entry" if has_entry else "prefixed method"}'
                    f' of {victim.__name__} raised while running, but '
                    f'iterating completed and {victim.__name__} was built '
                    f'by {built}', expected='exception', got=str(built[:1]))


def prototype_cases():
    out = []
    for tl_name, types in TYPE_LISTS.items():
        n = len(set(types))
        if not n:
            continue
        for src in itertools.product(SOURCES, repeat=n):
            if src[0] == (0, 0):
                continue        # the first type has no source that can fail
            for prefix_kind in ('default', 'custom'):
                out.append((tl_name, src, prefix_kind, 'none',
                            'winner_raises'))
    for tl_name, types in TYPE_LISTS.items():
        n = len(set(types))
        for src in itertools.product(SOURCES, repeat=n):
            for prefix_kind in ('default', 'custom'):
                for sub_kind in ('none', 'override_method',
                                 'override_entries', 'change_prefix'):
                    out.append((tl_name, src, prefix_kind, sub_kind))
                    if sub_kind != 'none' and n:
                        for order in ('base_first', 'sub_first'):
                            out.append((tl_name, src, prefix_kind,
                                        f'{sub_kind}:{order}'))
    return out


# -- (c) OnUpdateProcessor -----------------------------------------------------
@desper.event_handler('on_update')
class UL:
    def __init__(self, log, i):
        self.log = log
        self.i = i

    def on_update(self, dt):
        self.log.append((self.i, dt))


def run_on_update(case):
    n, dts = case
    w = desper.World()
    w.add_processor(desper.OnUpdateProcessor())
    log = []
    keep = [UL(log, i) for i in range(n)]
    for u in keep:
        w.create_entity(u)
    for dt in dts:
        del log[:]
        w.process(dt)
        if sorted(log) != [(i, dt) for i in range(n)] or any(
                type(d) is not type(dt) for _, d in log):
            raise Violation('on_update_relays_dt_once',
                            f'{n} listeners, process({dt!r}) -> {log}')
    return {'calls': len(dts), 'hits': {'listeners_%d' % n: 1},
            'key': repr(case)}


def drivers(tier):
    if tier == 'quick':
        return {'twin': (TwinDriver(toggles=True, types=('B', 'X')),
                         dict(max_states=300000, time_budget=300))}
    return {'twin': (TwinDriver(toggles=True, types=('A', 'B', 'X'),
                                max_postponed=3),
                     dict(max_states=3000000, time_budget=3000))}


def run(tier, rep):
    rep.rule = RULE
    rep.assumptions += [
        'shorthands are exercised only through a controller that is attached '
        'to entity 1 and has received on_add (world set)',
        'a subclass that redefines init_methods replaces the inherited '
        'mapping (plain class attribute semantics)',
        'classes sharing a __name__ share the prefixed method (documented: '
        'use init_methods to tell them apart)',
    ]
    rep.require_hits(reads_compared_after_every_operation=1,
                     free_controller_f_delete=1,
                     shorthand_on_entity_without_components=1,
                     shorthand_s_add=1, shorthand_ref_set=1,
                     shorthand_pref_set=1, shorthand_s_delete=1,
                     attach_while_disabled=1, postponed_on_add_released=1,
                     entry_wins=1, prefixed_method=1, default_constructor=1,
                     same_name_shares_method=1, custom_prefix=1,
                     subclass_override=1, subclass_adds_method=1,
                     subclass_changes_prefix=1,
                     base_iterated_before_subclass=1,
                     subclass_iterated_before_base=1,
                     listeners_0=1, listeners_3=1)
    for name, (driver, kw) in drivers(tier).items():
        kernel.explore(driver, rep, part=name, params=driver.params(), **kw)
    rep.require_hits(controller_handed_to_another_entity=1,
                     moved_give_first=1)
    kernel.enumerate_cases(run_move, move_cases(), rep, 'controller-moves',
                           chunk=4)
    rep.require_hits(winning_source_raises=1, failing_entry=1,
                     failing_method=1)
    kernel.enumerate_cases(run_prototype, prototype_cases(), rep,
                           'prototype-shapes', chunk=100)
    dts = (0, 1, 0.5, -2, 10 ** 9, 1e-9)
    cases = [(n, seq) for n in range(4)
             for k in (1, 2, 3) for seq in itertools.product(dts, repeat=k)
             if tier == 'thorough' or k < 3]
    kernel.enumerate_cases(run_on_update, cases, rep, 'on-update', chunk=50)


def replay(rec):
    part = rec['part']
    case = kernel.totuple(rec['case'])
    if part == 'controller-moves':
        runner = run_move
    elif part == 'prototype-shapes':
        runner = run_prototype
    elif part == 'on-update':
        runner = run_on_update
    else:
        for tier in ('thorough', 'quick'):
            ds = drivers(tier)
            if part in ds:
                return kernel.replay_case(ds[part][0], rec['case'])
        raise SystemExit(f'unknown part {part}')
    try:
        runner(case)
    except Violation as v:
        return v
    return None
