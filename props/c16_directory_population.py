"""C16 - directory population mirrors the file tree under the rules.

E3 (bounded-exhaustive enumeration of inputs): every directory tree of a
small, explicitly described family is built for real under a private
directory on tmpfs, crossed with every rule set / option combination /
directory listing order of the family, populated twice into the same map by
the real ``DirectoryResourcePopulator`` and compared after each population
with a reference function written from the property statement.

A case is the JSON-able tuple ``(tree, rules, opts, perm)`` or, in the parts
added later, ``(tree, rules, opts, perm, tree3)``:

``tree``   entries below the rule directory ``r``, parents first; directories
           carry a trailing slash: ``('a.x', 'd/', 'd/b.x')``.  Two names are
           neither a directory nor a regular file (parts "specials*"):
           ``p`` is always a FIFO (os.mkfifo), ``l`` always a dangling
           symbolic link (os.symlink to a missing target): ``('d/', 'd/p')``
``rules``  1-2 rules ``(directory, extension filter, extras?)`` with directory
           in ``r`` | ``r/d`` (exists iff the tree has ``d/``) | ``m`` (never
           exists) | ``f`` (a plain file next to ``r``) | ``q`` (a FIFO next
           to ``r``, created only for the cases that name it: part
           "rule-fifo"); extension filter = a tuple of extensions that the
           driver hands to ``add_rule(file_exts=...)`` as a fresh list that
           nobody touches again, unless the rule has a fourth member (parts
           "filter-forms*"): ``(directory, filter, extras?, given)`` with
           given = how the caller spells the filter and what the caller does
           with that object afterwards, see FILTER_FORMS
``opts``   ``(nest, trim, nest_how, trim_how[, root_how])``; how = ``ctor``
           (value given to the constructor, nothing per call) or ``call``
           (constructor gets the *opposite* value, the call overrides it);
           root_how (default ``plain``) = how the root directory is spelled
           and given: ``plain`` | ``slash`` (constructor, trailing separator)
           | ``call`` | ``call-slash`` (the constructor holds ANOTHER existing
           directory with foreign files, every call passes ``root=``)
``perm``   mixed-radix index choosing the ``os.scandir`` order of every
           directory that a rule scans and that has at least two entries
``tree3``  (optional) the tree on disk for a THIRD population of the same
           map: ``tree`` with one file turned into a directory holding a file
           or one directory (and all below it) turned into a file; without it
           the case populates twice
"""
import atexit
import functools
import glob
import hashlib
import itertools
import multiprocessing
import os
import shutil
import signal
import sys
import tempfile

from mc import env  # noqa: F401  (binds desper to $VERIF_REPO; keep first)
from mc import kernel
from mc.report import Violation, HarnessError

import desper

# ---------------------------------------------------------------------------
# the family
# ---------------------------------------------------------------------------
FILES = ('a.x', 'a.y', 'b.x', 'c')
PARENT_DIRS = ('d', 'd.x')          # directories that may have children
LEAF_DIRS = ('e',)                  # always empty
MAX_DEPTH = 3
# entries that exist (os.path.lexists) but are neither a directory nor a
# regular file; the name decides the kind
FIFO_NAME = 'p'
LINK_NAME = 'l'
SPECIAL_NAMES = (LINK_NAME, FIFO_NAME)
LINK_TARGET = 'no-such-target'      # relative: resolved next to the link
FIFO_RULE = 'q'                     # rule path that is a FIFO next to r
EXT_FILTERS = ((), ('.x',), ('.x', '.y'))
HOWS = ('ctor', 'call')
ROOT_HOWS = ('plain', 'slash', 'call', 'call-slash')
MORPH_CHILD = 'b.x'                 # the file inside a file-turned-directory
# how the caller hands the extension filter to add_rule(file_exts=...) and
# what the caller does with that very object afterwards (fourth member of a
# rule; parts "filter-forms*").  add_rule documents Iterable[str]: every
# iterable of the extensions is the same filter, and the filter of a rule is
# the one it was given - whatever the caller's object holds later
FILTER_FORMS = {
    'list': 'a fresh list, never touched again (every other part)',
    'tuple': 'a tuple',
    'set': 'a set, never touched again',
    'frozenset': 'a frozenset',
    'keys': 'the keys view of a dict (sized, iterable, re-iterable)',
    'iter': 'a generator: one-shot, no len(), empty once consumed',
    'list-cleared': 'a list that the caller clears right after add_rule',
    'list-junked': 'a list whose content the caller replaces by [".zz"] '
                   'right after add_rule',
    'set-cleared': 'a set that the caller clears right after add_rule',
    'set-junked': 'a set whose content the caller replaces by {".zz"} right '
                  'after add_rule',
    'recycled': 'ONE scratch list per case, cleared and refilled by the '
                'caller before each add_rule that uses it (after the last '
                'one it keeps that rule\'s extensions)',
}
JUNK_EXT = '.zz'                    # extension of no file of the alphabet
# coarse class of a form (signature feature "filter_given")
FILTER_CLASS = {'tuple': 'other_container', 'set': 'other_container',
                'frozenset': 'other_container', 'keys': 'other_container',
                'iter': 'one_shot', 'list-cleared': 'mutated_later',
                'list-junked': 'mutated_later', 'set-cleared': 'mutated_later',
                'set-junked': 'mutated_later', 'recycled': 'mutated_later'}
# forms of a single rule ('recycled' alone is 'list' again)
SINGLE_FORMS = ('tuple', 'set', 'frozenset', 'keys', 'iter', 'list-cleared',
                'list-junked', 'set-cleared', 'set-junked')

RULE = (
    'E3 bounded-exhaustive: EVERY prefix-closed set of at most N entries '
    '(N = 3 quick, 4 thorough) over the paths of depth <= 3 built from files '
    '{a.x, a.y, b.x, c}, directories {d, d.x} (may have children) and e '
    '(always empty) below the rule directory r, built as real files on '
    'tmpfs; x every rule set of 1-2 rules, rule = directory {r, r/d, missing '
    'm, plain file f} x extension filter {(), {.x}, {.x,.y}} x with/without '
    'extra positional+keyword arguments (pairs: first rule without, second '
    'with extras - 78 rule sets; thorough adds part "mirror-pairs" = the '
    'other 132 ordered pairs on the trees with <= 3 entries); x '
    'nest_on_conflict x trim_extensions x each given '
    'at construction or per call (the constructor then holds the opposite '
    'value; quick: both at construction or both per call, thorough: each '
    'independently); x every os.scandir order of every scanned directory with <= 3 '
    'entries (sorted and reversed for 4; quick tier: the listing orders are '
    'crossed with the options given at construction only, options given '
    'per call meet the sorted listing - thorough has the full product).  '
    'Each case populates the same map '
    'twice; the whole oracle runs after the first and after the second '
    'population (so one- and two-population histories are both covered).  '
    'Parts "backlinks" (and "backlinks-pairs" in thorough) re-run tree x '
    'rules x nest x trim of the corresponding mirror part (sorted listing, '
    'options at construction) and check only parent/key of every reachable '
    'node, shadowed handles included.  Part "roots": EVERY tree with <= 2 '
    '(thorough: 3) entries x the 78 core rule sets x nest x trim (at '
    'construction; thorough: both at construction or both per call) x root '
    'spelling {root + "/" at construction, root per call (the constructor '
    'holds another existing directory with foreign files under the same rule '
    'directories), root + "/" per call}, sorted listing, two populations, '
    'same oracle (the plain root at construction is every other part).  '
    'Parts "specials" / "specials-pairs": the entry alphabet is extended, '
    'in every directory, by p = a FIFO (os.mkfifo) and l = a dangling '
    'symbolic link (os.symlink to a missing relative target) - entries that '
    'glob lists but that are neither a regular file nor a directory; EVERY '
    'prefix-closed tree over the extended alphabet that holds at least one '
    'of them (in the rule directory or a sub-directory, alone or next to '
    'regular files / directories / the other special entry): quick = trees '
    'with <= 3 entries x the 14 single rules and trees with <= 2 entries x '
    'the 64 core pairs, thorough = trees with <= 3 entries x the 78 core '
    'rule sets; x nest x trim (at construction; thorough: both at '
    'construction or both per call), sorted listing, two populations, same '
    'oracle: a special entry produces NOTHING - no key (handle or sub-map) '
    'and no factory call with its path.  Part "rule-fifo": EVERY ordinary '
    'tree with <= 2 (thorough: 3) entries x 30 rule sets whose rule path q '
    'is a FIFO next to r (alone without / with filter and extras, after and '
    'before each of the 14 single rules) x nest x trim (at construction), '
    'sorted listing, two populations: ValueError is due in each.  '
    'Part "retree": EVERY tree with <= 2 (thorough: 3) entries x EVERY '
    'single-entry change of it {a file becomes a directory of the same name '
    'holding the file b.x | a directory with all below it becomes an empty '
    'file of the same name (except d.x next to a directory d)} x the 78 core '
    'rule sets x nest x trim (at construction; thorough: both at '
    'construction or both per call), sorted listing: two populations from '
    'the tree, then the tree is changed on disk and the same map is '
    'populated a THIRD time; the oracle runs after each population.  '
    'Parts "filter-forms" / "filter-forms-pairs": the way the caller hands '
    'the extension filter to add_rule(file_exts=...) - in every other part '
    'a fresh list that nobody touches again - becomes an input dimension '
    '(fourth member of a rule): {tuple, set, frozenset, dict keys view, '
    'generator (one-shot, no len()), list / set that the caller clears '
    'right after add_rule, list / set whose content the caller replaces by '
    'the foreign extension .zz right after add_rule, ONE scratch list '
    'cleared and refilled before each add_rule}.  "filter-forms": EVERY '
    'tree with <= 2 (thorough: 3) entries x {the 12 single rules over r / '
    'r/d (3 filters, without / with extras) x the 9 forms of a single rule '
    '(clearing an empty filter left out) = 100 rule sets, the 36 core pairs '
    'over r / r/d with BOTH filters passing through the one recycled list} '
    'x nest x trim (at construction; thorough: both at construction or both '
    'per call); "filter-forms-pairs" (thorough): EVERY tree with <= 2 '
    'entries x the 36 core pairs over r / r/d x {both rules in the same of '
    'the 9 forms, one rule in any of the 9 forms and the other a plain '
    'list} = 884 rule sets x nest x trim (at construction); sorted listing, '
    'plain root, two populations, same model and same oracle as everywhere '
    '(the filter of a rule is what add_rule was given).  The '
    'recording factory returns handles that are FALSY (__bool__) for every '
    'file except those named b.x, in every part.  '
    'A case is distinct by its input '
    'tuple; non-trivial = it '
    'exercised at least one named shortcut (conflict layering/replacement, '
    'trimmed key, filter rejection, directory with extension, empty '
    'directory, missing / non-directory rule path, implicit sub-map, falsy '
    'handle, root spelling, file <-> directory change before a third '
    'population, FIFO / dangling link ignored in the rule directory / a '
    'sub-directory / next to a regular file / alone, rule path that is a '
    'FIFO, filter given as tuple / set / frozenset / keys view / '
    'generator, caller\'s filter object cleared / overwritten / recycled '
    'after add_rule in a case where looking at it again would change the '
    'result, ...).')

ASSUMPTIONS = [
    'out of alphabet: dot-files (glob skips them by convention; the '
    'statement does not say whether they count as files of the tree)',
    'out of alphabet: a file and a directory that map to the same key under '
    'trimming (the statement names no winner); the alphabet has no such pair',
    'two files of ONE directory that trim to the same key (a.x, a.y) within '
    'one rule of one population: the listing order decides which is newer, '
    'so the winner is free - with nesting both must be present in either '
    'order, without it exactly one of them',
    'with nesting the newest handle must be the visible one and the older '
    'ones must all be present in lower ChainMap layers (compared as a '
    'multiset, the relative order of the lower layers is not demanded)',
    'the factory must receive the path as str naming the file (compared '
    'after os.path.abspath), then exactly the rule\'s extra arguments',
    'sub-maps are allowed (not demanded) for every directory under a rule '
    'directory, for the rule directory path and its ancestors; demanded only '
    'for directories on the way to an accepted file',
    'when ValueError is due (a rule path is a plain file or a FIFO) only '
    'the exception '
    'type and "nothing foreign was added" are checked; whether earlier rules '
    'were already applied is not specified',
    'entries that are neither a regular file nor a directory: a FIFO and a '
    'dangling symbolic link, named p and l (no extension, so only a rule '
    'without extension filter lets them reach the file / directory tests; '
    'the shortcuts fifo_entry_ignored / dangling_link_ignored count those '
    'cases only).  The statement speaks of regular files and directories '
    'only: such an entry must produce nothing.  Out of the alphabet: a '
    'symbolic link to an existing regular file or directory (the statement '
    'does not say whether it counts as one), sockets and device nodes, '
    'special entries with an extension, listing orders other than sorted '
    'and a third population for trees with special entries.  They are '
    'created inside the private scratch directory only, never opened, and '
    'removed with it',
    'a rule path that is not a directory: a plain file (f, or r/d after a '
    'tree change) or a FIFO (q); os.path.exists is true for both.  A rule '
    'path that is a dangling symbolic link (exists() false, lexists() true) '
    'is not enumerated: the statement does not say whether it is "missing"',
    'extension filter objects (parts "filter-forms*"): add_rule documents '
    'file_exts as Iterable[str], so every iterable of the same extensions '
    'is the same filter - also one that has no len() and can be iterated '
    'only once (a generator), in the first AND in the second population.  '
    '"The rule\'s extension filter" of the statement is read as the '
    'extensions add_rule was given: what the caller does to ITS object '
    'afterwards (clear it, overwrite it, refill it for the next add_rule - '
    'all before the first population) must not change which files the rule '
    'accepts.  The oracle is the unchanged one; nothing is demanded about '
    'how or when the implementation copies, nor about the type of the '
    'stored filter.  The shortcuts filter_alias_would_show_<form> count the '
    'cases in which an implementation that looked at the caller\'s object '
    'again at population time would yield a different set of accepted '
    'files.  Not enumerated: mutation of the object between two populations '
    '(an implementation that still sees the object then sees it before the '
    'first population too), a str as filter (an iterable of characters), '
    'duplicate extensions, iterables that raise, combination with listing '
    'orders / root spellings / special entries / a third population',
    'nest_on_conflict / trim_extensions have the same value in all '
    'populations of a case; so has the root (spelling and way of giving it)',
    'root spellings: absolute paths only (plain, with one trailing '
    'separator); relative roots, "." components, symlinks and doubled '
    'separators are not enumerated',
    'third population from a changed tree (part "retree"): the tree changes '
    'on disk under the same root (not through root=); MUST after it: every '
    'accepted file of the NEW tree is reachable through a handle built in '
    'that population, on top of ALL older handles of the same key with '
    'nesting (alone without); every directory of the new tree on the way to '
    'such a file answers get() with a sub-map (so no handle of an earlier '
    'population may survive under that key in any layer); the exception '
    'rule (a rule directory that became a plain file -> ValueError).  MAY: '
    'whatever an earlier population legitimately added under keys that the '
    'new tree does not demand (files/directories that disappeared, a '
    'directory that now holds no accepted file) may stay or go',
    'handles may be falsy: the recording handle defines __bool__ (False for '
    'every file not named b.x); presence must never be decided by truth '
    'value',
    'the populator only reads the file system: files are empty regular files',
    'back-links (part "backlinks", clause "backlinks") overlap C11; they are '
    'checked on the sorted listing order only - run() fails as a harness '
    'error if the main part ever sees a broken back-link that the backlinks '
    'part did not report',
]


def _depth(entry):
    return entry.rstrip('/').count('/') + 1


def _all_entries():
    out = []

    def rec(prefix, depth):
        for name in FILES:
            out.append(prefix + name)
        for name in LEAF_DIRS:
            out.append(prefix + name + '/')
        for name in PARENT_DIRS:
            out.append(prefix + name + '/')
            if depth < MAX_DEPTH:
                rec(prefix + name + '/', depth + 1)
    rec('', 1)
    return sorted(out, key=lambda e: (_depth(e), e))


def _parent(entry):
    """'d/a.x' -> 'd/',  'a.x' -> ''."""
    body = entry.rstrip('/')
    i = body.rfind('/')
    return body[:i + 1] if i >= 0 else ''


@functools.lru_cache(maxsize=None)
def trees(max_entries):
    """Every prefix-closed entry set with at most ``max_entries`` members."""
    universe = _all_entries()
    found = set()

    def rec(cur, start):
        found.add(tuple(cur))
        if len(cur) == max_entries:
            return
        have = set(cur)
        for i in range(start, len(universe)):
            e = universe[i]
            p = _parent(e)
            if p == '' or p in have:
                rec(cur + [e], i + 1)
    rec([], 0)
    return tuple(sorted(found, key=lambda t: (len(t), t)))


def _is_special(entry):
    """The entry is a FIFO or a dangling symbolic link (by its name)."""
    return (not entry.endswith('/')
            and entry.rsplit('/', 1)[-1] in SPECIAL_NAMES)


def _all_entries_with_specials():
    out = []

    def rec(prefix, depth):
        for name in FILES + SPECIAL_NAMES:
            out.append(prefix + name)
        for name in LEAF_DIRS:
            out.append(prefix + name + '/')
        for name in PARENT_DIRS:
            out.append(prefix + name + '/')
            if depth < MAX_DEPTH:
                rec(prefix + name + '/', depth + 1)
    rec('', 1)
    return sorted(out, key=lambda e: (_depth(e), e))


@functools.lru_cache(maxsize=None)
def special_trees(max_entries):
    """Every prefix-closed entry set with at most ``max_entries`` members
    over the universe extended by a FIFO ``p`` and a dangling link ``l`` in
    every directory, that holds at least one of those."""
    universe = _all_entries_with_specials()
    found = set()

    def rec(cur, start):
        found.add(tuple(cur))
        if len(cur) == max_entries:
            return
        have = set(cur)
        for i in range(start, len(universe)):
            e = universe[i]
            p = _parent(e)
            if p == '' or p in have:
                rec(cur + [e], i + 1)
    rec([], 0)
    return tuple(sorted((t for t in found if any(map(_is_special, t))),
                        key=lambda t: (len(t), t)))


def single_rules():
    out = []
    for d in ('r', 'r/d'):
        for exts in EXT_FILTERS:
            for extra in (0, 1):
                out.append((d, exts, extra))
    out.append(('m', (), 0))
    out.append(('f', (), 0))
    return out


def rule_sets(family):
    """'core': the 14 single rules + the 64 pairs (first rule without, second
    with extra arguments); 'other-pairs': the remaining 132 ordered pairs."""
    singles = single_rules()
    first = [r for r in singles if r[2] == 0]
    second = [r for r in singles if r[2] == 1 or r[0] in ('m', 'f')]
    core_pairs = [(a, b) for a in first for b in second]
    if family == 'core':
        return [(r,) for r in singles] + core_pairs
    if family == 'other-pairs':
        core = set(core_pairs)
        return [(a, b) for a in singles for b in singles
                if (a, b) not in core]
    if family == 'singles':
        return [(r,) for r in singles]
    if family == 'core-pairs':
        return core_pairs
    if family == 'fifo':
        # the rule path q is a FIFO: alone (the filter and the extras must
        # not matter), after and before each of the 14 single rules
        q = (FIFO_RULE, (), 0)
        return ([(q,), ((FIFO_RULE, ('.x',), 1),)]
                + [(r, q) for r in singles] + [(q, r) for r in singles])
    if family in ('filter-forms', 'filter-pairs'):
        # rules over an existing or possibly existing directory only (the
        # filter of a missing / non-directory rule path is never consulted)
        dir_rules = [r for r in singles if r[0] in ('r', 'r/d')]

        def vacuous(rule):
            # clearing an empty container changes nothing: that is the form
            # 'list' / 'set' again
            return rule[3].endswith('-cleared') and not rule[1]

        one = [(r + (form,),) for r in dir_rules for form in SINGLE_FORMS]
        pair_rules = [(a, b) for a in dir_rules if a[2] == 0
                      for b in dir_rules if b[2] == 1]
        if family == 'filter-forms':
            # + every core pair with both filters in the one scratch list
            out = one + [(a + ('recycled',), b + ('recycled',))
                         for a, b in pair_rules]
        else:
            # every core pair x {both rules the same form, one rule any new
            # form and the other a plain list}
            combos = ([(f, f) for f in SINGLE_FORMS]
                      + [(f, 'list') for f in SINGLE_FORMS]
                      + [('list', f) for f in SINGLE_FORMS])
            out = [(a + (fa,), b + (fb,)) for a, b in pair_rules
                   for fa, fb in combos]
        return [rs for rs in out if not any(map(vacuous, rs))]
    raise HarnessError(f'unknown rule family {family!r}')


def morphs(tree):
    """Every single-entry change of ``tree`` for a third population: a file
    becomes a directory of the same name holding MORPH_CHILD, a directory
    (with all below it) becomes a file of the same name.  Not enumerated: a
    directory ``d.x`` turning into a file next to a directory ``d`` (file and
    directory with the same key under trimming: out of alphabet)."""
    out = []
    for e in tree:
        if e.endswith('/'):
            base = e[:-1].rsplit('/', 1)[-1]
            if _ext(base) and _parent(e) + _stem(base) + '/' in tree:
                continue
            new = [x for x in tree if not x.startswith(e)] + [e[:-1]]
        else:
            new = [x for x in tree if x != e] + [e + '/',
                                                 e + '/' + MORPH_CHILD]
        out.append(tuple(sorted(new, key=lambda x: (_depth(x), x))))
    return out


def option_sets(how='all', roots=None):
    """how: 'ctor' (backlinks parts) | 'same' (quick: both options at
    construction or both per call) | 'all' (each independently).
    roots: None (old 4-field form = plain root) or the root_how values."""
    if roots is not None:
        return [o + (r,) for o in option_sets(how) for r in roots]
    if how == 'ctor':
        hows = [('ctor', 'ctor')]
    elif how == 'same':
        hows = [(h, h) for h in HOWS]
    else:
        hows = [(nh, th) for nh in HOWS for th in HOWS]
    return [(n, t, nh, th) for n in (1, 0) for t in (0, 1)
            for nh, th in hows]


# ---------------------------------------------------------------------------
# reference model (pure: works on the tree description, never on the disk)
# ---------------------------------------------------------------------------
def _ext(name):
    i = name.rfind('.')
    return name[i:] if i > 0 else ''


def _stem(name):
    i = name.rfind('.')
    return name[:i] if i > 0 else name


def _rule_status(tree, rule):
    d = rule[0]
    if d == 'r':
        return 'dir'
    if d == 'r/d':
        return ('dir' if 'd/' in tree else
                'file' if 'd' in tree else 'missing')
    if d == 'm':
        return 'missing'
    if d == 'f':
        return 'file'
    if d == FIFO_RULE:
        return 'fifo'
    raise HarnessError(f'unknown rule directory {d!r}')


def _entries_under(tree, rule):
    """Entries (tree notation) strictly below the rule's directory."""
    if rule[0] == 'r':
        return list(tree)
    return [e for e in tree if e.startswith('d/') and e != 'd/']


@functools.lru_cache(maxsize=4096)
def model(tree, rules, trim):
    """Everything the statement fixes for (tree, rules, trim).

    per_rule[i]   None when the rule is skipped / rejected, else a list of
                  (key, file path relative to the populator root)
    """
    status = [_rule_status(tree, r) for r in rules]
    per_rule = []
    required = set()        # directories on the way to an accepted file
    allowed = set()         # directories that may show up as sub-maps
    explicit = set()        # directories listed and not filtered by some rule
    filtered_by_some = set()
    scanned_dirs = set()    # tree notation ('' = r itself, 'd/', ...)
    n_filtered = 0
    flags = dict(dir_ext=0, empty_dir=0, trimmed=0, outside=0, fifo=0,
                 link=0, special_sub=0, special_with_file=0, special_alone=0,
                 special_filtered=0)
    covered_files = set()
    for rule, st in zip(rules, status):
        if st != 'dir':
            per_rule.append(None)
            continue
        rdir, exts, _ = rule
        parts = rdir.split('/')
        for i in range(1, len(parts) + 1):
            allowed.add('/'.join(parts[:i]))
        # the rule directory itself is listed by glob (as 'dir/')
        if not exts:
            explicit.add(rdir)
        else:
            filtered_by_some.add(rdir)
        scanned_dirs.add('' if rdir == 'r' else 'd/')
        acc = []
        for e in _entries_under(tree, rule):
            rel = 'r/' + e.rstrip('/')
            name = rel.rsplit('/', 1)[1]
            if e.endswith('/'):
                allowed.add(rel)
                scanned_dirs.add(e)
                if not exts or _ext(name) in exts:
                    explicit.add(rel)
                else:
                    filtered_by_some.add(rel)
                if _ext(name):
                    flags['dir_ext'] = 1
                if not any(o != e and o.startswith(e) for o in tree):
                    flags['empty_dir'] = 1
                continue
            if _is_special(e):
                # neither a regular file nor a directory: produces nothing.
                # Only a rule without extension filter lets it reach the
                # file / directory tests (the names have no extension)
                if exts:
                    flags['special_filtered'] = 1
                    continue
                flags['fifo' if name == FIFO_NAME else 'link'] = 1
                if _depth(e) > 1:
                    flags['special_sub'] = 1
                siblings = [o for o in tree if o != e
                            and _parent(o) == _parent(e)]
                if not siblings:
                    flags['special_alone'] = 1
                if any(not o.endswith('/') and not _is_special(o)
                       for o in siblings):
                    flags['special_with_file'] = 1
                continue
            covered_files.add(e)
            if exts and _ext(name) not in exts:
                n_filtered += 1
                continue
            key = rel
            if trim:
                key = rel.rsplit('/', 1)[0] + '/' + _stem(name)
                if key != rel:
                    flags['trimmed'] = 1
            acc.append((key, rel))
            comps = rel.split('/')
            for i in range(1, len(comps)):
                required.add('/'.join(comps[:i]))
        per_rule.append(acc)
    if any(not e.endswith('/') and not _is_special(e)
           and e not in covered_files for e in tree):
        flags['outside'] = 1
    implicit_required = {d for d in required if d not in explicit}
    return dict(status=tuple(status), per_rule=per_rule,
                required=frozenset(required), allowed=frozenset(allowed),
                explicit=frozenset(explicit),
                filtered_by_some=frozenset(filtered_by_some),
                implicit_required=frozenset(implicit_required),
                raises=('file' in status or 'fifo' in status),
                n_filtered=n_filtered,
                scanned=tuple(sorted(scanned_dirs)), flags=flags,
                rule_dirs=tuple(r[0] for r, s in zip(rules, status)
                                if s == 'dir'))


def expected_groups(mods):
    """mods = the model of every population so far, oldest first.
    key -> [(pop, rule index, {files}) ...] oldest first."""
    groups = {}
    for p, mod in enumerate(mods, 1):
        for ri, acc in enumerate(mod['per_rule']):
            if acc is None:
                continue
            here = {}
            for key, rel in acc:
                here.setdefault(key, set()).add(rel)
            for key, files in here.items():
                groups.setdefault(key, []).append((p, ri, files))
    return groups


def extras_of(ri, flag):
    if not flag:
        return (), {}
    return (ri + 1, 'p'), {'k': f'v{ri}'}


# ---------------------------------------------------------------------------
# listing orders
# ---------------------------------------------------------------------------
@functools.lru_cache(maxsize=4096)
def _children(tree):
    """tree-notation directory ('' = r) -> sorted child names."""
    ch = {'': []}
    for e in tree:
        if e.endswith('/'):
            ch.setdefault(e, [])
    for e in tree:
        ch[_parent(e)].append(e.rstrip('/').rsplit('/', 1)[-1])
    return {d: tuple(sorted(names)) for d, names in ch.items()}


def _orders(names):
    """Listing orders enumerated for a directory with these entries."""
    if len(names) <= 3:
        return list(itertools.permutations(names))
    return [tuple(names), tuple(reversed(names))]


def perm_count(tree, rules):
    mod = model(tree, rules, 0)
    ch = _children(tree)
    n = 1
    for d in mod['scanned']:
        if len(ch[d]) >= 2:
            n *= len(_orders(ch[d]))
    return n


def listing_plan(tree, rules, perm, root):
    """perm index -> {absolute directory path: tuple of names in order}."""
    mod = model(tree, rules, 0)
    ch = _children(tree)
    plan = {}
    permuted = 0
    for d in mod['scanned']:
        names = ch[d]
        if len(names) < 2:
            continue
        orders = _orders(names)
        perm, idx = divmod(perm, len(orders))
        path = os.path.normpath(os.path.join(root, 'r', d))
        plan[path] = orders[idx]
        if idx:
            permuted = 1
    if perm:
        raise HarnessError('permutation index out of range')
    return plan, permuted


_REAL_SCANDIR = os.scandir


class _Listing:
    """What os.scandir returns: iterable context manager of DirEntry."""

    def __init__(self, entries):
        self._it = iter(entries)

    def __iter__(self):
        return self

    def __next__(self):
        return next(self._it)

    def __enter__(self):
        return self

    def __exit__(self, *exc):
        return False

    def close(self):
        pass


class OrderedScandir:
    """Installs an ``os.scandir`` that lists directories in a planned order.

    Directories without a plan are listed sorted by name, so that nothing
    depends on the order the file system happens to return.
    """

    def __init__(self, plan):
        self.plan = plan
        self.calls = 0
        self.error = None

    def __call__(self, path='.'):
        with _REAL_SCANDIR(path) as it:
            entries = sorted(it, key=lambda e: e.name)
        self.calls += 1
        order = None
        if isinstance(path, str):
            order = self.plan.get(os.path.normpath(path))
        if order is not None:
            byname = {e.name: e for e in entries}
            if sorted(byname) != sorted(order):
                self.error = (f'listing plan {order!r} does not fit the '
                              f'directory content {sorted(byname)!r}')
                raise HarnessError(self.error)
            entries = [byname[n] for n in order]
        return _Listing(entries)

    def __enter__(self):
        os.scandir = self
        return self

    def __exit__(self, *exc):
        os.scandir = _REAL_SCANDIR
        return False


# ---------------------------------------------------------------------------
# private scratch directory
# ---------------------------------------------------------------------------
_BASE = [None]
_WORK = {'pid': None, 'dir': None}


def _make_base():
    if _BASE[0] is None:
        parent = '/dev/shm' if os.path.isdir('/dev/shm') and os.access(
            '/dev/shm', os.W_OK) else None
        _BASE[0] = tempfile.mkdtemp(prefix='verif-c16-', dir=parent)
        atexit.register(_drop_base, os.getpid())
    return _BASE[0]


def _drop_base(owner=None):
    if owner is not None and owner != os.getpid():
        return                      # forked worker: the parent removes it
    base, _BASE[0] = _BASE[0], None
    if base:
        # cut the directory off first: whoever still builds a tree under
        # the old name fails from now on and can add nothing while the
        # content (FIFOs and dangling links included: rmtree unlinks them,
        # it neither opens nor follows them) is removed
        dead = base + '.gone'
        try:
            os.rename(base, dead)
        except OSError:
            dead = base
        shutil.rmtree(dead, ignore_errors=True)
    _WORK.update(pid=None, dir=None)


def _workdir():
    pid = os.getpid()
    if _WORK['pid'] != pid:
        if _BASE[0] is None:
            raise HarnessError('no scratch directory (run()/replay() '
                               'creates it)')
        d = os.path.join(_BASE[0], f'w{pid}')
        os.mkdir(d)
        _WORK.update(pid=pid, dir=d)
    return _WORK['dir']


DECOY_FILES = ('r/zz.x', 'r/d/zz.x', 'r/d/zz.y')


def _decoy_root():
    """Another existing root (one per worker, never changed): what the
    constructor holds when the real root is given per call.  Every rule
    directory exists there and holds foreign files only."""
    d = os.path.join(_workdir(), 'decoy')
    if not os.path.isdir(d):
        os.makedirs(d + '/r/d')
        for f in DECOY_FILES:
            _touch(d + '/' + f)
        _touch(d + '/f')
    return d


def _touch(path):
    os.close(os.open(path, os.O_CREAT | os.O_EXCL | os.O_WRONLY, 0o600))


def _make_special(path, name):
    """A FIFO or a dangling symbolic link.  Both live inside the private
    scratch directory only (the link target is a relative name that exists
    nowhere); nothing ever opens them."""
    if name == LINK_NAME:
        os.symlink(LINK_TARGET, path)
    else:
        os.mkfifo(path, 0o600)


def _build(root, tree, beside=()):
    """``beside``: special entries next to r (FIFO_RULE)."""
    try:
        os.mkdir(root)
    except FileExistsError:
        shutil.rmtree(root)
        os.mkdir(root)
    os.mkdir(root + '/r')
    _touch(root + '/f')
    for name in beside:
        _make_special(root + '/' + name, FIFO_NAME)
    for e in tree:
        if e.endswith('/'):
            os.mkdir(root + '/r/' + e[:-1])
        elif _is_special(e):
            _make_special(root + '/r/' + e, e.rsplit('/', 1)[-1])
        else:
            _touch(root + '/r/' + e)


def _destroy(root, tree, beside=()):
    try:
        for e in reversed(tree):
            if e.endswith('/'):
                os.rmdir(root + '/r/' + e[:-1])
            else:
                # (unlink removes a FIFO, and a link rather than its target)
                os.unlink(root + '/r/' + e)
        for name in beside:
            os.unlink(root + '/' + name)
        os.unlink(root + '/f')
        os.rmdir(root + '/r')
        os.rmdir(root)
    except OSError:
        shutil.rmtree(root, ignore_errors=True)
        if os.path.lexists(root):
            raise HarnessError(f'cannot clean {root}')


# ---------------------------------------------------------------------------
# recording factory
# ---------------------------------------------------------------------------
TRUTHY_NAME = 'b.x'      # handles of every other file are falsy


class RecHandle(desper.Handle):
    """Handle that remembers how the populator built it."""

    def __init__(self, *args, **kwargs):
        self.call_args = args
        self.call_kwargs = kwargs
        self.pop = None
        self.rule = None
        self.seq = None
        self.file = None
        self.truthy = False

    def __bool__(self):
        # a legal object may be falsy: presence is never a truth value
        return self.truthy

    def load(self):
        return ('loaded', self.pop, self.rule, self.seq)


class Recorder:
    def __init__(self, root):
        self.root = root
        self.pop = 0
        self.created = []

    def factory(self, ri):
        def make(*args, **kwargs):
            h = RecHandle(*args, **kwargs)
            h.pop, h.rule, h.seq = self.pop, ri, len(self.created)
            h.file = self._file_of(h)
            h.truthy = (h.file is not None
                        and h.file.rsplit('/', 1)[-1] == TRUTHY_NAME)
            self.created.append(h)
            return h
        make.__name__ = f'factory{ri}'
        return make

    def file_of(self, h):
        return getattr(h, 'file', None)

    def _file_of(self, h):
        """Root-relative '/'-joined path of the file the handle was built
        from, or None when the first argument does not name one."""
        if not h.call_args or not isinstance(h.call_args[0], str):
            return None
        path = os.path.abspath(h.call_args[0])
        if not path.startswith(self.root + os.sep):
            return None
        return path[len(self.root) + 1:].replace(os.sep, '/')


def _walk(root_map):
    """All reachable nodes: (kind, path tuple, node, container, layer)."""
    out = []
    seen = set()
    stack = [((), root_map)]
    while stack:
        prefix, m = stack.pop()
        if id(m) in seen:
            continue
        seen.add(id(m))
        for name, sub in m.maps.items():
            out.append(('map', prefix + (name,), sub, m, 0))
            if isinstance(sub, desper.ResourceMap):
                stack.append((prefix + (name,), sub))
        for li, layer in enumerate(m.handles.maps):
            for name, h in layer.items():
                out.append(('handle', prefix + (name,), h, m, li))
    out.sort(key=lambda n: (len(n[1]), tuple(map(str, n[1])), n[0], n[4]))
    return out


def _keystr(path):
    return '/'.join(str(p) for p in path)


# ---------------------------------------------------------------------------
# oracle
# ---------------------------------------------------------------------------
def _features(mod, rules, nest=None, trim=None, **more):
    """Signature features: deliberately only what the clause itself names
    (one defect should give one or two signatures); the option combination
    and the rule set are in the recorded case."""
    f = {}
    if nest is not None:
        f['nest'] = bool(nest)
    f.update(more)
    return f


def check_population(m, recorder, mods, rules, nest, trim, raised,
                     tree_seq, nodes):
    """Main clauses after ``len(mods)`` populations; mods / tree_seq = model
    and tree of every population so far (the last one is the current).
    Returns (violation, facts)."""
    facts = {}
    pops = len(mods)
    mod = mods[-1]
    tree = tree_seq[-1]
    changed = any(t != tree for t in tree_seq)
    if any(o['raises'] for o in mods[:-1]) and not mod['raises']:
        raise HarnessError('a rule path that was a plain file is none any '
                           'more: not in the family')
    # -- exception behaviour ------------------------------------------------
    if mod['raises']:
        name = type(raised).__name__ if raised is not None else 'nothing'
        plain = [r[0] for r, st in zip(rules, mod['status'])
                 if st in ('file', 'fifo')]
        kinds = sorted({st for st in mod['status'] if st in ('file', 'fifo')})
        what = ' / a '.join('plain file' if k == 'file' else 'FIFO'
                            for k in kinds)
        if not isinstance(raised, ValueError):
            return Violation(
                'not_a_directory_valueerror',
                f'population {pops}: rule path {plain} exists and is a '
                f'{what}, not a directory: expected '
                f'ValueError, got {name}'
                + (f' ({raised})' if raised is not None else ''),
                raised=name, rule_path='+'.join(kinds)), facts
        for k in kinds:
            facts['rule_path_is_' + k] = 1
    elif raised is not None:
        return Violation(
            'unexpected_exception',
            f'population {pops} raised {type(raised).__name__}: {raised}',
            raised=type(raised).__name__,
            missing_rule='missing' in mod['status']), facts
    if 'missing' in mod['status']:
        facts['rule_missing'] = 1

    groups = expected_groups(mods)
    stacks = {}
    for kind, path, node, cont, layer in nodes:
        if kind == 'handle':
            stacks.setdefault(_keystr(path), []).append(node)

    def label(h):
        return (h.pop, h.rule, recorder.file_of(h))

    was_dir = set()
    if changed:
        was_dir = {'r/' + e[:-1] for t in tree_seq[:-1] for e in t
                   if e.endswith('/')}
    if not mod['raises']:
        # -- every accepted file is reachable, newest first ------------------
        for key in sorted(groups):
            gs = groups[key]
            newest = gs[-1]
            if newest[0] != pops:
                # only in an earlier population from another tree: the file
                # is gone (or is a directory now) - nothing is demanded
                if not changed:
                    raise HarnessError(f'model: key {key!r} vanished from '
                                       f'an unchanged tree')
                facts['key_of_vanished_file'] = 1
                continue
            got = m.get(key)
            want = sorted(newest[2])
            if not isinstance(got, RecHandle):
                return Violation(
                    'file_reachable',
                    f'population {pops}: expected a handle for {want} under '
                    f'key {key!r}, get() returned {type(got).__name__}',
                    **_features(mod, rules, got=type(got).__name__,
                                trimmed_key=key not in newest[2])), facts
            lab = label(got)
            all_labels = [(p, ri, f) for p, ri, fs in gs for f in fs]
            if not (lab[0] == newest[0] and lab[1] == newest[1]
                    and lab[2] in newest[2]):
                if lab in all_labels:
                    return Violation(
                        'newest_on_top',
                        f'population {pops}: key {key!r} shows the handle of '
                        f'(population, rule, file) {lab}, the newest is '
                        f'{(newest[0], newest[1], want)}',
                        **_features(mod, rules, nest=nest, trim=trim)), facts
                return Violation(
                    'file_reachable',
                    f'population {pops}: key {key!r} holds a handle built as '
                    f'(population, rule, file) {lab}, expected '
                    f'{(newest[0], newest[1], want)}',
                    **_features(mod, rules, got='other',
                                trimmed_key=key not in newest[2])), facts
            stack = stacks.get(key, [])
            if not stack or stack[0] is not got:
                return Violation(
                    'file_reachable',
                    f'key {key!r}: get() and the first ChainMap layer that '
                    f'has the name disagree',
                    **_features(mod, rules, trim=trim, got='layers')), facts
            try:
                value = m[key]
            except Exception as exc:        # noqa: BLE001
                return Violation(
                    'file_reachable',
                    f'map[{key!r}] raised {type(exc).__name__}',
                    **_features(mod, rules, trim=trim, got='getitem')), facts
            if value != got.load():
                return Violation(
                    'file_reachable',
                    f'map[{key!r}] is not the value loaded by the handle',
                    **_features(mod, rules, trim=trim, got='getitem')), facts
            facts['truthy_handle' if got else 'falsy_handle'] = 1
            if changed and key in was_dir:
                facts['third_population_directory_became_file'] = 1
            # -- factory arguments ------------------------------------------
            for h in stack:
                if not isinstance(h, RecHandle):
                    continue
                args, kwargs = extras_of(h.rule, rules[h.rule][2])
                f = recorder.file_of(h)
                ok = (f is not None and len(h.call_args) == 1 + len(args)
                      and tuple(h.call_args[1:]) == args
                      and dict(h.call_kwargs) == kwargs)
                if not ok:
                    shown = tuple('<path:%s>' % f if i == 0 and f else a
                                  for i, a in enumerate(h.call_args))
                    return Violation(
                        'factory_arguments',
                        f'handle under {key!r} built as factory{shown!r} '
                        f'kwargs {h.call_kwargs!r}; expected (path of the '
                        f'file, *{args!r}, **{kwargs!r})',
                        **_features(mod, rules, trim=trim,
                                    extras=bool(rules[h.rule][2]))), facts
                if args:
                    facts['extra_arguments'] = 1
            # -- conflicts --------------------------------------------------
            if len(all_labels) > 1:
                source = ('later_population' if gs[0][0] != gs[-1][0]
                          else 'overlapping_rules' if len(gs) > 1
                          else 'same_listing')
                if source == 'later_population' and pops == 2:
                    source = 'second_population'
                obs = sorted(map(repr, (label(h) for h in stack
                                        if isinstance(h, RecHandle))))
                if nest:
                    if obs != sorted(map(repr, all_labels)):
                        return Violation(
                            'nest_keeps_older',
                            f'population {pops}: key {key!r} should keep '
                            f'{sorted(all_labels)} (newest on top), layers '
                            f'hold {obs}',
                            **_features(mod, rules, trim=trim,
                                        source=source)), facts
                    facts['nested_conflict_layered'] = 1
                else:
                    if len(stack) != 1:
                        return Violation(
                            'replace_without_nest',
                            f'population {pops}: key {key!r} should hold '
                            f'only the newest handle, layers hold {obs}',
                            **_features(mod, rules, trim=trim,
                                        source=source)), facts
                    facts['replace_without_nest'] = 1
                if gs[0][0] != gs[-1][0]:
                    facts['second_population'] = 1
                    if pops == 3 and gs[0][0] == 1:
                        facts['third_population_same_key'] = 1
                if any(a[0] == b[0] for a, b in zip(gs, gs[1:])):
                    facts['overlapping_rules'] = 1
                if any(len(fs) > 1 for _, _, fs in gs):
                    facts['same_key_winner_free'] = 1
        # -- directories on the way are sub-maps ----------------------------
        for d in sorted(mod['required']):
            got = m.get(d)
            was_file = changed and d in groups
            if not isinstance(got, desper.ResourceMap):
                more = {}
                detail = ''
                if was_file:
                    more['was_file'] = True
                    if isinstance(got, RecHandle):
                        detail = (f' - the handle built in population '
                                  f'{got.pop} from {recorder.file_of(got)!r}'
                                  f', found in {len(stacks.get(d, ()))} '
                                  f'layer(s)')
                return Violation(
                    'directory_is_submap',
                    f'population {pops}: directory {d!r} leads to an '
                    f'accepted file but get() returned '
                    f'{type(got).__name__}{detail}',
                    **_features(
                        mod, rules,
                        listed=d not in mod['implicit_required'],
                        **more)), facts
            if was_file:
                # (get() looks into every handle layer first: a sub-map
                # here means no layer holds the name any more)
                facts['third_population_file_became_directory'] = 1
                if nest and len(groups[d]) > 1:
                    facts['file_became_directory_under_layers'] = 1
        if mod['implicit_required']:
            facts['implicit_submap'] = 1

    # -- nothing else ------------------------------------------------------
    tree_files = {'r/' + e for t in set(tree_seq) for e in t
                  if not e.endswith('/') and not _is_special(e)}
    specials = {'r/' + e for t in set(tree_seq) for e in t
                if _is_special(e)} | {FIFO_RULE}
    tree_dirs = {'r/' + e[:-1] for t in set(tree_seq) for e in t
                 if e.endswith('/')} | {'r'}
    allowed = mod['allowed']
    if changed:
        allowed = frozenset().union(*(o['allowed'] for o in mods))
    for kind, path, node, cont, layer in nodes:
        key = _keystr(path)
        bad = None
        if any((not isinstance(p, str)) or '/' in p or p == '' for p in path):
            bad = 'malformed_name'
        elif kind == 'map':
            if not isinstance(node, desper.ResourceMap):
                bad = 'not_a_map'
            elif key not in allowed:
                bad = ('map_for_file' if key in tree_files or key == 'f'
                       else 'map_for_special_entry' if key in specials
                       else 'map_outside_rule_dir' if key in tree_dirs
                       else 'map_for_nothing')
        else:
            if not isinstance(node, RecHandle):
                bad = 'foreign_handle'
            else:
                lab = label(node)
                ok = any(lab[0] == p and lab[1] == ri and lab[2] in fs
                         for p, ri, fs in groups.get(key, ()))
                if not ok:
                    f = lab[2]
                    accepted_somewhere = any(
                        f in fs for gs in groups.values() for _, _, fs in gs)
                    bad = ('handle_wrong_key' if accepted_somewhere
                           else 'handle_for_unaccepted_file'
                           if f in tree_files or f == 'f'
                           else 'handle_for_special_entry' if f in specials
                           else 'handle_for_directory' if f in tree_dirs
                           else 'handle_for_nothing')
        if bad:
            src = (recorder.file_of(node) if isinstance(node, RecHandle)
                   else type(node).__name__)
            what = (f'sub-map at {key!r}' if kind == 'map' else
                    f'handle at {key!r} (layer {layer}) built from {src!r}')
            return Violation(
                'nothing_else',
                f'population {pops}: {what} corresponds to no accepted file '
                f'or directory under a rule directory ({bad})',
                **_features(mod, rules, trim=trim, what=bad)), facts
    # -- a FIFO / dangling link is no regular file: no factory call either --
    for h in recorder.created:
        f = recorder.file_of(h)
        if f in specials:
            return Violation(
                'nothing_else',
                f'population {pops}: the factory of rule {h.rule} was called '
                f'in population {h.pop} with the path of {f!r}, which is '
                f'neither a regular file nor a directory '
                f'(factory_call_for_special_entry)',
                **_features(mod, rules, trim=trim,
                            what='factory_call_for_special_entry')), facts
    if not groups and not mod['raises']:
        facts['nothing_accepted'] = 1
    return None, facts


def check_backlinks(nodes, mod):
    """parent/key of every reachable node (overlaps C11)."""
    bad = 0
    first = None
    n = 0
    for kind, path, node, cont, layer in nodes:
        n += 1
        parent = getattr(node, 'parent', None)
        key = getattr(node, 'key', None)
        if parent is cont and key == path[-1]:
            continue
        bad += 1
        if first is not None:
            continue
        where = _keystr(path)
        if kind == 'handle':
            feats = dict(node='handle' if layer == 0 else 'shadowed_handle')
        else:
            rule_dirs = mod['rule_dirs']
            if any(rd.startswith(where + '/') for rd in rule_dirs):
                why = 'rule_dir_ancestor'
            elif where in mod['filtered_by_some']:
                why = 'dir_entry_filtered'
            else:
                why = 'listed_dir'
            feats = dict(node='map', why=why)
        pk = None if parent is None else (
            'the containing map' if parent is cont else 'another object')
        first = Violation(
            'backlinks',
            f'{kind} reachable at {where!r}: parent is {pk}, key is {key!r}; '
            f'expected parent = containing map, key = {path[-1]!r}', **feats)
    return first, n, bad


# ---------------------------------------------------------------------------
# one case
# ---------------------------------------------------------------------------
def _norm_case(case):
    """Old form (tree, rules, (nest, trim, nest_how, trim_how), perm) and new
    form (tree, rules, opts + (root_how,), perm, tree3) -> the new form."""
    case = kernel.totuple(case)
    tree, rules, opts, perm = case[:4]
    tree3 = case[4] if len(case) > 4 else None
    rules = tuple((r[0], tuple(r[1]), int(r[2]))
                  + ((str(r[3]),) if len(r) > 3 else ()) for r in rules)
    for r in rules:
        if len(r) > 3 and r[3] not in FILTER_FORMS:
            raise HarnessError(f'unknown filter form {r[3]!r}')
    root_how = str(opts[4]) if len(opts) > 4 else 'plain'
    if root_how not in ROOT_HOWS:
        raise HarnessError(f'unknown root spelling {root_how!r}')
    opts = (int(opts[0]), int(opts[1]), str(opts[2]), str(opts[3]), root_how)
    return (tuple(tree), rules, opts, int(perm),
            None if tree3 is None else tuple(tree3))


def _give_filter(exts, form, scratch):
    """The caller's side of ``add_rule(file_exts=...)``: the object handed
    over and what the caller does with it right after add_rule returned
    (None = nothing)."""
    if form == 'list':
        return list(exts), None
    if form == 'tuple':
        return tuple(exts), None
    if form == 'set':
        return set(exts), None
    if form == 'frozenset':
        return frozenset(exts), None
    if form == 'keys':
        return dict.fromkeys(exts).keys(), None
    if form == 'iter':
        return (e for e in exts), None
    if form == 'recycled':
        scratch.clear()
        scratch.extend(exts)
        return scratch, None
    kind, fate = form.split('-')
    obj = list(exts) if kind == 'list' else set(exts)

    def after():
        obj.clear()
        if fate == 'junked':
            (obj.append if kind == 'list' else obj.add)(JUNK_EXT)
    return obj, after


def _held_rules(rules, forms, which):
    """The rules as they would read if the filter of every rule given in the
    form ``which`` were whatever the caller's object yields when it is
    looked at again at population time (a consumed generator: nothing)
    instead of the extensions handed to add_rule.  Only used to tell whether
    a case could show the difference at all (vacuity guard)."""
    last = ()
    for r, f in zip(rules, forms):
        if f == 'recycled':
            last = r[1]
    out = []
    for r, f in zip(rules, forms):
        exts = r[1]
        if f == which:
            if f == 'recycled':
                exts = last
            elif f == 'iter' or f.endswith('-cleared'):
                exts = ()
            elif f.endswith('-junked'):
                exts = (JUNK_EXT,)
        out.append((r[0], exts, r[2]))
    return tuple(out)


def execute(case):
    """Run one case on the real populator.

    Returns (main violation or None, backlinks violation or None, hits,
    number of populate calls checked).
    """
    tree, rules, opts, perm, tree3 = _norm_case(case)
    # the form in which the filter is given is the caller's business: the
    # model and the oracle see the rules without it
    forms = tuple(r[3] if len(r) > 3 else 'list' for r in rules)
    rules = tuple(r[:3] for r in rules)
    nest, trim, nest_how, trim_how, root_how = opts
    root = os.path.join(_workdir(), 'case')
    tree_seq = [tree, tree] + ([tree3] if tree3 is not None else [])
    mod = model(tree, rules, trim)
    mod_seq = [model(t, rules, trim) for t in tree_seq]
    plan, permuted = listing_plan(tree, rules, perm, root)
    hits = {}
    main_v = back_v = None
    calls = 0
    on_disk = tree
    beside = (FIFO_RULE,) if any(r[0] == FIFO_RULE for r in rules) else ()
    _build(root, tree, beside)
    try:
        ctor = dict(nest_on_conflict=bool(nest) if nest_how == 'ctor'
                    else not nest,
                    trim_extensions=bool(trim) if trim_how == 'ctor'
                    else not trim)
        call_kw = {}
        if nest_how == 'call':
            call_kw['nest_on_conflict'] = bool(nest)
        if trim_how == 'call':
            call_kw['trim_extensions'] = bool(trim)
        spelled = root + os.sep if root_how.endswith('slash') else root
        if root_how.startswith('call'):
            ctor_root = _decoy_root()
            call_kw['root'] = spelled
        else:
            ctor_root = spelled
        recorder = Recorder(root)
        populator = desper.DirectoryResourcePopulator(ctor_root, **ctor)
        scratch = []            # the caller's one recycled list
        given = []              # the caller keeps its objects alive
        for ri, (rdir, exts, extra) in enumerate(rules):
            args, kwargs = extras_of(ri, extra)
            obj, after = _give_filter(exts, forms[ri], scratch)
            given.append(obj)
            populator.add_rule(rdir, recorder.factory(ri), *args,
                               file_exts=obj, **kwargs)
            if after is not None:
                after()
        m = desper.ResourceMap()
        backlink_nodes = 0
        for pops in range(1, len(tree_seq) + 1):
            now = tree_seq[pops - 1]
            if now != on_disk:
                # the tree changes on disk between two populations
                _destroy(root, on_disk, beside)
                on_disk = now
                _build(root, now, beside)
                plan, _ = listing_plan(now, rules, 0, root)
            recorder.pop = pops
            raised = None
            scan = OrderedScandir(plan)
            try:
                with scan:
                    populator(m, **call_kw)
            except HarnessError:
                raise
            except Exception as exc:        # noqa: BLE001
                raised = exc
            if scan.error:
                raise HarnessError(scan.error)
            if mod_seq[pops - 1]['rule_dirs'] and not scan.calls \
                    and raised is None:
                # the populator lists directories without going through the
                # os.scandir attribute (e.g. it bound the function at import
                # time): the listing order is then the file system's own.
                # The oracle never depends on the order (where it decides a
                # winner the winner is free), so this is information only.
                hits['listing_order_not_owned'] = 1
            calls += 1
            nodes = _walk(m)
            v, facts = check_population(m, recorder, mod_seq[:pops], rules,
                                        nest, trim, raised,
                                        tree_seq[:pops], nodes)
            for k in facts:
                hits[k] = 1
            b, n, nbad = check_backlinks(nodes, mod_seq[pops - 1])
            backlink_nodes += n
            if b is not None and back_v is None:
                back_v = b
                if pops == 3:
                    back_v.features['after_tree_change'] = True
            if v is not None:
                main_v = v
                break
        new_forms = sorted({f for f in forms if f != 'list'})
        if main_v is not None and new_forms:
            main_v.features['filter_given'] = '+'.join(
                sorted({FILTER_CLASS[f] for f in new_forms}))
            main_v.detail += (' [extension filters given as '
                              + ', '.join(forms) + ']')
        if main_v is None and new_forms and not mod['raises']:
            for form in new_forms:
                if any(f == form and st == 'dir'
                       for f, st in zip(forms, mod['status'])):
                    hits['filter_given_as_' + form] = 1
                if FILTER_CLASS[form] == 'other_container':
                    continue
                # could this case tell an implementation that looks at the
                # caller's object again at population time?
                held = model(tree, _held_rules(rules, forms, form), trim)
                if held['per_rule'] != mod['per_rule']:
                    hits['filter_alias_would_show_' + form] = 1
        if main_v is None:
            fl = mod['flags']
            if mod['rule_dirs'] and not mod['raises']:
                if fl['trimmed']:
                    hits['trimmed_key'] = 1
                if mod['n_filtered']:
                    hits['filtered_out'] = 1
                if fl['dir_ext']:
                    hits['dir_with_extension'] = 1
                if fl['empty_dir']:
                    hits['empty_dir'] = 1
                if fl['outside']:
                    hits['outside_rule_dir_ignored'] = 1
                # (counted for rules without extension filter only: there
                # the entry reaches the file / directory tests)
                if fl['fifo']:
                    hits['fifo_entry_ignored'] = 1
                if fl['link']:
                    hits['dangling_link_ignored'] = 1
                if fl['special_sub']:
                    hits['special_entry_in_subdirectory'] = 1
                if fl['special_with_file']:
                    hits['special_entry_next_to_regular_file'] = 1
                if fl['special_alone']:
                    hits['special_entry_alone_in_directory'] = 1
                if fl['special_filtered']:
                    hits['special_entry_rejected_by_filter'] = 1
                if 'r/d' in mod['rule_dirs']:
                    hits['nested_rule_dir'] = 1
                if permuted:
                    hits['listing_permuted'] = 1
                if root_how.endswith('slash'):
                    hits['root_with_trailing_separator'] = 1
                if root_how.startswith('call'):
                    hits['root_per_call_overrides_ctor'] = 1
            if tree3 is not None and mod_seq[-1]['raises'] \
                    and not mod['raises']:
                hits['rule_dir_became_file'] = 1
            if 'call' in (nest_how, trim_how):
                hits['option_per_call_overrides_ctor'] = 1
            hits['backlink_nodes_seen'] = backlink_nodes
            if back_v is not None:
                hits['backlink_defect_observed'] = 1
    finally:
        os.scandir = _REAL_SCANDIR
        _destroy(root, on_disk, beside)
    return main_v, back_v, hits, calls


def _case_key(case):
    return int.from_bytes(hashlib.blake2b(
        repr(case).encode(), digest_size=8).digest(), 'big')


def run_mirror(case):
    main_v, back_v, hits, calls = execute(case)
    if main_v is not None:
        raise main_v
    hits.pop('backlink_nodes_seen', None)
    return {'calls': calls, 'hits': hits, 'key': _case_key(case)}


def run_backlinks(case):
    main_v, back_v, hits, calls = execute(case)
    if back_v is not None:
        raise back_v
    out = {}
    if hits.get('backlink_nodes_seen'):
        out['backlinks_verified'] = 1
    if main_v is None and hits.get('implicit_submap'):
        out['implicit_submap_backlinked'] = 1
    if main_v is None and hits.get('nested_conflict_layered'):
        out['shadowed_handle_backlinked'] = 1
    return {'calls': calls, 'hits': out, 'key': _case_key(case)}


def run_full(case):
    """Parts without a backlinks twin (roots, retree): the main clauses
    first, then the back-links of the same run."""
    main_v, back_v, hits, calls = execute(case)
    if main_v is not None:
        raise main_v
    if back_v is not None:
        raise back_v
    hits.pop('backlink_nodes_seen', None)
    return {'calls': calls, 'hits': hits, 'key': _case_key(case)}


RUNNERS = {'mirror': run_mirror, 'backlinks': run_backlinks,
           'full': run_full}


# ---------------------------------------------------------------------------
# enumeration
# ---------------------------------------------------------------------------
def parts(tier):
    """part name -> (runner kind, max entries per tree, rule family, how
    the options are given[, extra dimension: 'roots' | 'retree'])."""
    if tier == 'quick':
        return {'mirror': ('mirror', 3, 'core', 'same'),
                'backlinks': ('backlinks', 3, 'core', 'ctor'),
                'roots': ('full', 2, 'core', 'ctor', 'roots'),
                'retree': ('full', 2, 'core', 'ctor', 'retree'),
                'specials': ('full', 3, 'singles', 'ctor', 'specials'),
                'specials-pairs': ('full', 2, 'core-pairs', 'ctor',
                                   'specials'),
                'rule-fifo': ('full', 2, 'fifo', 'ctor', 'sorted'),
                'filter-forms': ('full', 2, 'filter-forms', 'ctor',
                                 'sorted')}
    return {'mirror': ('mirror', 4, 'core', 'all'),
            'mirror-pairs': ('mirror', 3, 'other-pairs', 'all'),
            'backlinks': ('backlinks', 4, 'core', 'ctor'),
            'backlinks-pairs': ('backlinks', 3, 'other-pairs', 'ctor'),
            'roots': ('full', 3, 'core', 'same', 'roots'),
            'retree': ('full', 3, 'core', 'same', 'retree'),
            'specials': ('full', 3, 'core', 'same', 'specials'),
            'rule-fifo': ('full', 3, 'fifo', 'ctor', 'sorted'),
            'filter-forms': ('full', 3, 'filter-forms', 'same', 'sorted'),
            'filter-forms-pairs': ('full', 2, 'filter-pairs', 'ctor',
                                   'sorted')}


def _spec(spec):
    return tuple(spec) + (None,) * (5 - len(spec))


def part_params(spec):
    kind, n, family, how, extra = _spec(spec)
    out = dict(checks=kind, max_entries=n, rule_family=family,
               trees=len(special_trees(n) if extra == 'specials'
                         else trees(n)),
               rule_sets=len(rule_sets(family)),
               options_given=how, option_sets=len(option_sets(how)),
               listing_orders=('sorted only' if kind == 'backlinks' or extra
                               else
                               'all for <= 3 entries, both extremes for 4'
                               + ('; options per call: sorted only'
                                  if how == 'same' else '')),
               populations=3 if extra == 'retree' else 2)
    if extra == 'roots':
        out['root_spellings'] = list(ROOT_HOWS[1:])
    if extra == 'retree':
        ms = [len(morphs(t)) for t in trees(n)]
        out['tree_changes'] = sum(ms)
    if extra == 'specials':
        out['special_entries'] = {FIFO_NAME: 'FIFO (os.mkfifo)',
                                  LINK_NAME: 'dangling symbolic link'}
    if family == 'fifo':
        out['rule_path_' + FIFO_RULE] = 'a FIFO next to r'
    if family.startswith('filter-'):
        used = sorted({r[3] for rs in rule_sets(family) for r in rs})
        out['filter_given_as'] = {f: FILTER_FORMS[f] for f in used}
    return out


def cases_for(spec):
    kind, n, family, how, extra = _spec(spec)
    rsets = rule_sets(family)
    if extra == 'roots':
        osets = option_sets(how, ROOT_HOWS[1:])
        return [(tree, rules, opts, 0, None) for tree in trees(n)
                for rules in rsets for opts in osets]
    if extra == 'retree':
        osets = option_sets(how, ('plain',))
        return [(tree, rules, opts, 0, tree3) for tree in trees(n)
                for tree3 in morphs(tree)
                for rules in rsets for opts in osets]
    if extra in ('specials', 'sorted'):
        # sorted listing, plain root at construction, two populations
        osets = option_sets(how)
        family_trees = special_trees(n) if extra == 'specials' else trees(n)
        return [(tree, rules, opts, 0) for tree in family_trees
                for rules in rsets for opts in osets]
    osets = option_sets(how)
    out = []
    for tree in trees(n):
        for rules in rsets:
            np = 1 if kind == 'backlinks' else perm_count(tree, rules)
            for opts in osets:
                perms = range(np)
                if how == 'same' and opts[2] == 'call':
                    # quick tier: options given per call meet the sorted
                    # listing only (traded for the parts "roots" and
                    # "retree"; thorough has the full product)
                    perms = (0,)
                for perm in perms:
                    out.append((tree, rules, opts, perm))
    return out


def calibrate():
    """The scandir wrapper must really decide the order glob yields."""
    root = os.path.join(_workdir(), 'calib')
    tree = ('a.x', 'b.x', 'd/', 'd/a.x', 'd/c')
    _build(root, tree)
    try:
        seen = set()
        for top in itertools.permutations(('a.x', 'b.x', 'd')):
            for sub in itertools.permutations(('a.x', 'c')):
                plan = {os.path.join(root, 'r'): top,
                        os.path.join(root, 'r', 'd'): sub}
                scan = OrderedScandir(plan)
                with scan:
                    got = [os.path.relpath(p, os.path.join(root, 'r'))
                           for p in glob.iglob(os.path.join(root, 'r', '**'),
                                               recursive=True)]
                want = ['.']
                for name in top:
                    want.append(name)
                    if name == 'd':
                        want += ['d/' + s for s in sub]
                if got != want or scan.calls < 2:
                    raise HarnessError(
                        'os.scandir wrapper does not control the order of '
                        f'glob.iglob: planned {want}, got {got} '
                        f'({scan.calls} scandir calls)')
                seen.add(tuple(got))
        if len(seen) != 12:
            raise HarnessError('listing calibration saw too few orders')
    finally:
        os.scandir = _REAL_SCANDIR
        _destroy(root, tree)
    # the special entries must be what the alphabet says they are, and glob
    # must list them (otherwise the parts "specials*" ask nothing)
    tree = ('a.x', LINK_NAME, FIFO_NAME, 'd/', 'd/' + LINK_NAME,
            'd/' + FIFO_NAME)
    _build(root, tree, (FIFO_RULE,))
    try:
        top = os.path.join(root, 'r')
        with OrderedScandir({}):
            got = sorted(os.path.relpath(p, top) for p in
                         glob.iglob(os.path.join(top, '**'), recursive=True))
        if got != sorted(['.'] + [e.rstrip('/') for e in tree]):
            raise HarnessError(f'glob does not list the special entries: '
                               f'{got}')
        for e in tree[1:3] + tree[4:]:
            path = os.path.join(top, e)
            if (not os.path.lexists(path) or os.path.isfile(path)
                    or os.path.isdir(path)):
                raise HarnessError(f'{e!r} is not a special entry on disk')
            if os.path.exists(path) != (e.rsplit('/', 1)[-1] == FIFO_NAME):
                raise HarnessError(f'{e!r}: only the FIFO may exist for '
                                   f'os.path.exists')
        path = os.path.join(root, FIFO_RULE)
        if (not os.path.exists(path) or os.path.isfile(path)
                or os.path.isdir(path)):
            raise HarnessError('the rule path q is not a FIFO')
    finally:
        os.scandir = _REAL_SCANDIR
        _destroy(root, tree, (FIFO_RULE,))
    # determinism self-check: one rich case, twice, same outcome
    probe = (('a.x', 'a.y', 'd/', 'd/b.x'),
             (('r', (), 0), ('r/d', ('.x',), 1)), (1, 1, 'ctor', 'call'), 3)
    probe3 = (('a.x', 'c', 'd/', 'd/b.x'),
              (('r', (), 0), ('r/d', ('.x',), 1)),
              (1, 0, 'ctor', 'ctor', 'call-slash'), 0,
              ('a.x', 'c/', 'd/', 'c/b.x', 'd/b.x'))
    probe_s = (('a.x', 'd/', FIFO_NAME, 'd/' + LINK_NAME),
               (('r', (), 0), (FIFO_RULE, (), 0)), (1, 1, 'ctor', 'ctor'), 0)
    probe_f = (('a.x', 'a.y', 'd/', 'd/b.x'),
               (('r', ('.x',), 0, 'recycled'), ('r/d', (), 1, 'recycled')),
               (1, 1, 'ctor', 'ctor'), 0)
    probe_g = (('a.x', 'c'), (('r', ('.x', '.y'), 1, 'iter'),),
               (0, 0, 'ctor', 'ctor'), 0)
    for case in (probe, probe3, probe_s, probe_f, probe_g):
        outs = []
        for _ in range(2):
            mv, bv, hits, calls = execute(case)
            outs.append((None if mv is None else mv.signature(),
                         None if bv is None else bv.signature(),
                         sorted(hits.items()), calls))
        if outs[0] != outs[1]:
            raise HarnessError(
                f'case execution is not deterministic: {outs}')


REQUIRED = dict(nested_conflict_layered=1, replace_without_nest=1,
                second_population=1, overlapping_rules=1, trimmed_key=1,
                filtered_out=1, dir_with_extension=1, empty_dir=1,
                rule_missing=1, nested_rule_dir=1, extra_arguments=1,
                listing_permuted=1, outside_rule_dir_ignored=1,
                same_key_winner_free=1, option_per_call_overrides_ctor=1,
                nothing_accepted=1, implicit_submap=1, backlinks_verified=1,
                falsy_handle=1, truthy_handle=1,
                root_with_trailing_separator=1,
                root_per_call_overrides_ctor=1,
                third_population_file_became_directory=1,
                file_became_directory_under_layers=1,
                third_population_directory_became_file=1,
                third_population_same_key=1, key_of_vanished_file=1,
                fifo_entry_ignored=1, dangling_link_ignored=1,
                special_entry_in_subdirectory=1,
                special_entry_next_to_regular_file=1,
                special_entry_alone_in_directory=1,
                special_entry_rejected_by_filter=1,
                **{'filter_given_as_' + f: 1 for f in FILTER_CLASS},
                **{'filter_alias_would_show_' + f: 1
                   for f, c in FILTER_CLASS.items()
                   if c != 'other_container'})
# shortcuts that can only be counted on cases that pass; when the clause
# itself is violated on every such case the violation is the evidence
REQUIRED_UNLESS_VIOLATED = dict(
    rule_path_is_file='not_a_directory_valueerror',
    rule_path_is_fifo='not_a_directory_valueerror',
    rule_dir_became_file='not_a_directory_valueerror',
    implicit_submap_backlinked='backlinks')


def _term(signum, frame):
    """SIGTERM in the parent (``timeout`` signals the whole process group).

    The workers die at once (default action) - possibly while holding a lock
    of the pool's queues, and ``Pool.terminate()`` in the parent then waits
    for that lock for ever (observed: the run hung after ``timeout`` fired
    and its scratch directory stayed).  So the parent does not unwind through
    the pool: it makes sure the workers are gone, removes the scratch
    directory with everything in it and leaves."""
    if _TERMINATING:
        return
    _TERMINATING.append(signum)
    try:
        children = multiprocessing.active_children()
        for proc in children:
            proc.kill()
        for proc in children:
            proc.join(2)
    except Exception:               # noqa: BLE001
        pass
    try:
        from mc import forkmap
        for pid in list(forkmap.LIVE):
            try:
                os.kill(pid, signal.SIGKILL)
            except OSError:
                pass
    except Exception:               # noqa: BLE001
        pass
    _drop_base()
    try:
        sys.stdout.flush()
        sys.stderr.flush()
    except Exception:               # noqa: BLE001
        pass
    os._exit(128 + signum)


_TERMINATING = []


def _default_sigterm_in_child():
    """Forked pool workers must die on SIGTERM at once (``Pool.terminate``
    relies on it: a worker forked while the pool shuts down can sit in a
    lock where a Python-level handler never runs, and the parent would join
    it for ever - observed).  Only the parent turns SIGTERM into cleanup.

    They must also never outlive the parent: the pool keeps forking
    replacements for dead workers, also while the parent is on its way out,
    and such a worker can wait for ever for a queue lock that a killed
    sibling held (observed: orphans left behind).  PR_SET_PDEATHSIG makes
    the kernel kill a worker as soon as the (thread of the) parent that
    forked it is gone, however the parent dies."""
    try:
        if signal.getsignal(signal.SIGTERM) is _term:
            signal.signal(signal.SIGTERM, signal.SIG_DFL)
    except (ValueError, OSError):
        pass
    if _PARENT_PID[0] is not None:
        try:
            import ctypes
            ctypes.CDLL(None, use_errno=True).prctl(1, signal.SIGKILL)
            if os.getppid() != _PARENT_PID[0]:   # died before the call
                os._exit(1)
        except (OSError, AttributeError):
            pass


_PARENT_PID = [None]        # set while a _Scratch is open (run / replay)


os.register_at_fork(after_in_child=_default_sigterm_in_child)


class _Scratch:
    """Creates the private directory and removes it whatever happens
    (SIGTERM from ``timeout`` included: the parent kills its workers,
    removes the base directory - with the workers' directories and every
    FIFO / symbolic link in them - and exits, see ``_term``; workers keep
    the default action)."""

    def __enter__(self):
        self._old = None
        try:
            self._old = signal.signal(signal.SIGTERM, _term)
        except ValueError:          # not in the main thread
            pass
        _make_base()
        _PARENT_PID[0] = os.getpid()
        return self

    def __exit__(self, *exc):
        _PARENT_PID[0] = None
        _drop_base()
        if self._old is not None:
            signal.signal(signal.SIGTERM, self._old)
        return False


def run(tier, rep):
    rep.rule = RULE
    rep.assumptions += ASSUMPTIONS
    with _Scratch():
        calibrate()
        for part, spec in parts(tier).items():
            cases = cases_for(spec)
            kernel.enumerate_cases(RUNNERS[spec[0]], cases, rep, part,
                                   params=part_params(spec), chunk=500)
            del cases
    clauses = {rec['clause'] for rec in rep.violations.values()}
    rep.require_hits(**REQUIRED)
    for name, clause in REQUIRED_UNLESS_VIOLATED.items():
        if clause in clauses:
            rep.extra.setdefault('shortcuts_shown_by_violation', {})[
                name] = clause
        else:
            rep.require_hits(**{name: 1})
    if rep.hits.get('backlink_defect_observed') and 'backlinks' not in clauses:
        raise HarnessError(
            'the mirror part saw broken back-links that the backlinks part '
            '(sorted listing order only) did not report: widen that part')


def replay(rec):
    part = rec['part']
    spec = parts('thorough').get(part) or parts('quick').get(part)
    if spec is None:
        raise SystemExit(f'unknown part {part}')
    with _Scratch():
        calibrate()
        try:
            RUNNERS[spec[0]](_norm_case(rec['case']))
        except Violation as v:
            return v
        return None
