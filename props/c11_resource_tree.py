"""C11 - resource paths, shadowing and back-links stay consistent (E1)."""
import collections
import contextlib
import itertools

from mc import env  # noqa: F401
from mc import kernel
from mc.canon import canon
from mc.report import Violation, HarnessError

import desper

RULE = ('E1 breadth-first search on a real ResourceMap over m[key] = value '
        '(the 14 keys of depth <= 3 over names {a, b}; values: fresh handle, '
        'empty map, pre-populated map, pre-layered map), clear() on the root '
        'or on the map at "a", and adding a handle layer (what the directory '
        'populator does through handles.maps).  Nested-dict model with '
        'layers; in every reached state all 14 keys are looked up through '
        'm[k], chained indexing and get(k)(), get defaults are compared with '
        'KeyError, and the back-links of every reachable map and handle - '
        'implicit intermediates and shadowed layers included - are checked.')

NAMES = ('a', 'b')
KEYS = tuple('/'.join(p) for n in (1, 2, 3)
             for p in itertools.product(NAMES, repeat=n))


class Res:
    def __init__(self, label):
        self.label = label

    def __repr__(self):
        return f'<res {self.label}>'


class H(desper.Handle):
    def __init__(self, label):
        self.label = label

    def __bool__(self):     # a stored handle may be falsy: presence, not truth
        return False

    # handles may define value equality (two handles for one file compare
    # equal): the tree is about objects, equal handles are still two handles
    def __eq__(self, other):
        return isinstance(other, H)

    def __hash__(self):
        return 7

    def load(self):
        return Res(self.label)

    def __repr__(self):
        return f'<H {self.label}>'


class MH:
    def __init__(self, obj):
        self.obj = obj
        self.home = None    # (id(model map), name) of the latest assignment


class MM:
    def __init__(self, obj=None):
        self.obj = obj          # real map, None when created implicitly
        self.maps = {}
        self.layers = [{}]

    def visible(self, name):
        for layer in self.layers:
            if name in layer:
                return layer[name]
        return self.maps.get(name)

    def drop_handle(self, name):
        hit = False
        for layer in self.layers:
            hit = layer.pop(name, None) is not None or hit
        return hit


class Ctx:
    pass


class TreeDriver:
    def __init__(self, name, value_kinds, rich_depth=1, layer_targets=('',),
                 clear_targets=('', 'a'), coarse=True, max_layers=2,
                 key_depth=3, aliases=0, names=NAMES, reassign=False,
                 remap=False):
        self.aliases = aliases
        self.reassign = reassign
        self.remap = remap
        all_keys = tuple('/'.join(p) for n in (1, 2, 3)
                         for p in itertools.product(names, repeat=n))
        self.all_keys = all_keys
        self.keys = tuple(k for k in all_keys if k.count('/') < key_depth)
        self.max_layers = max_layers
        self.name = name
        self.value_kinds = tuple(value_kinds)
        self.rich_depth = rich_depth
        self.layer_targets = tuple(layer_targets)
        self.clear_targets = tuple(clear_targets)
        self.coarse = coarse

    def params(self):
        return dict(keys=self.keys, value_kinds=self.value_kinds,
                    populated_values_up_to_key_depth=self.rich_depth,
                    layer_targets=self.layer_targets,
                    clear_targets=self.clear_targets, coarse_key=self.coarse,
                    max_layers_per_map=self.max_layers,
                    max_aliased_insertions=self.aliases)

    def initial(self):
        ctx = Ctx()
        ctx.hits = collections.Counter()
        used = desper.ResourceMap()
        used['a/b'] = H('probe')
        used.handles.maps.insert(0, {})
        used['c'] = H('probe2')
        fresh = desper.ResourceMap()
        if (fresh.get('a') is not None or fresh.get('c') is not None
                or fresh.maps or len(fresh.handles.maps) != 1
                or fresh.parent is not None or fresh.key is not None):
            raise Violation('fresh_map_is_independent',
                            f'a new ResourceMap shows maps {fresh.maps} '
                            f'handles {fresh.handles}', isolation=True)
        ctx.root = desper.ResourceMap()
        ctx.model = MM(ctx.root)
        ctx.counter = 0
        ctx.detached = []       # (real child, was_visible) of the last clear
        ctx.aliased = 0
        ctx.replaced = None     # (key, model handle) last overwritten
        ctx.reassigned = 0
        ctx.replaced_map = None     # (model map, real map) last overwritten
        ctx.remapped = 0
        return ctx

    # -- values ------------------------------------------------------------
    def rk(self, ctx, key):
        """The key as it is spelled for the real map (model keys use '/')."""
        return key

    def _handle(self, ctx):
        ctx.counter += 1
        h = H(f'h{ctx.counter}')
        return h, MH(h)

    def make(self, ctx, kind):
        if kind == 'handle':
            return self._handle(ctx)
        real = desper.ResourceMap()
        mm = MM(real)
        if kind == 'populated':
            h1, m1 = self._handle(ctx)
            real['a'] = h1
            mm.layers[0]['a'] = m1
            m1.home = (id(mm), 'a')
            sub = desper.ResourceMap()
            ms = MM(sub)
            h2, m2 = self._handle(ctx)
            sub['a'] = h2
            ms.layers[0]['a'] = m2
            m2.home = (id(ms), 'a')
            real['b'] = sub
            mm.maps['b'] = ms
        elif kind == 'layered':
            h1, m1 = self._handle(ctx)
            real['a'] = h1
            real.handles.maps.insert(0, {})
            h2, m2 = self._handle(ctx)
            real['a'] = h2
            mm.layers = [{'a': m2}, {'a': m1}]
            m1.home = (id(mm), 'a')
            m2.home = (id(mm), 'a')
        return real, mm

    # -- alphabet ------------------------------------------------------------
    def ops(self, ctx):
        ops = []
        for k in self.keys:
            depth = k.count('/') + 1
            for kind in self.value_kinds:
                if kind in ('populated', 'layered') and depth > self.rich_depth:
                    continue
                ops.append(('set', k, kind))
        if ctx.aliased < self.aliases:
            short = [k for k in self.keys if k.count('/') < 2]
            for src in short:
                if isinstance(self._lookup(ctx, src), MH):
                    for dst in short:
                        if dst != src and not dst.startswith(src + '/'):
                            ops.append(('alias', src, dst))
        if self.reassign and ctx.replaced is not None and ctx.reassigned < 1:
            ops.append(('reassign',))
        if self.remap and ctx.replaced_map is not None and ctx.remapped < 1:
            ops.extend(('remap', k) for k in self.keys)
        for t in self.clear_targets:
            if t == '' or isinstance(ctx.model.visible(t), MM):
                ops.append(('clear', t))
        for t in self.layer_targets:
            mm = ctx.model if t == '' else ctx.model.visible(t)
            if (isinstance(mm, MM) and mm.layers[0]
                    and len(mm.layers) < self.max_layers):
                ops.append(('layer', t))
        return ops

    def _target(self, ctx, t):
        if t == '':
            return ctx.root, ctx.model
        return ctx.root.get(self.rk(ctx, t)), ctx.model.visible(t)

    def apply(self, ctx, op):
        kind = op[0]
        ctx.detached = []
        if kind in ('set', 'alias', 'reassign', 'remap'):
            if kind == 'remap':
                # a map that was overwritten (it is no longer part of the
                # tree, its own back-links may be stale) is stored again,
                # anywhere: the latest assignment wins, nothing else moves
                _, key = op
                mv, real, _ = ctx.replaced_map
                mv.obj = real
                vkind = 'remap'
                ctx.replaced_map = None
                ctx.remapped += 1
                ctx.hits['overwritten_map_assigned_elsewhere'] += 1
            elif kind == 'reassign':
                # the very object that was overwritten at this key is
                # assigned there again: the latest assignment wins
                key, mv = ctx.replaced
                real, vkind = mv.obj, 'reassign'
                ctx.replaced = None
                ctx.reassigned += 1
                ctx.hits['overwritten_object_assigned_again'] += 1
            elif kind == 'alias':
                # the same handle object is stored at a second place: its
                # back-link follows the latest assignment
                _, src, key = op
                mv = self._lookup(ctx, src)
                real, vkind = mv.obj, 'alias'
                ctx.aliased += 1
                ctx.hits['same_handle_at_two_places'] += 1
            else:
                _, key, vkind = op
                real, mv = self.make(ctx, vkind)
            parts = key.split('/')
            before = self._lookup(ctx, key)
            before_real = (ctx.root.get(self.rk(ctx, key))
                           if isinstance(before, MM) else None)
            try:
                ctx.root[self.rk(ctx, key)] = real
            except Exception as exc:
                raise Violation('setitem_raised', f'm[{key!r}] = {vkind} '
                                f'raised {exc!r}', value=vkind)
            mm = ctx.model
            for name in parts[:-1]:
                nxt = mm.maps.get(name)
                if nxt is None:
                    lower = any(name in layer for layer in mm.layers[1:])
                    if mm.drop_handle(name):
                        ctx.hits['implicit_map_over_handle'] += 1
                        if lower:
                            ctx.hits['implicit_map_over_layered_handle'] += 1
                    nxt = MM(None)
                    mm.maps[name] = nxt
                    ctx.hits['implicit_map'] += 1
                mm = nxt
            last = parts[-1]
            if isinstance(mv, MH):
                if mm.maps.pop(last, None) is not None:
                    ctx.hits['handle_replaces_subtree'] += 1
                if any(last in layer for layer in mm.layers[1:]):
                    ctx.hits['handle_over_lower_layer'] += 1
                old = mm.layers[0].get(last)
                if isinstance(old, MH) and old is not mv and kind == 'set':
                    ctx.replaced = (key, old)
                mm.layers[0][last] = mv
                mv.home = (id(mm), last)
            else:
                lower = any(last in layer for layer in mm.layers[1:])
                if mm.drop_handle(last):
                    ctx.hits['map_replaces_handle'] += 1
                    if lower:
                        ctx.hits['map_over_layered_handle'] += 1
                if last in mm.maps:
                    ctx.hits['map_replaces_subtree'] += 1
                mm.maps[last] = mv
            if (kind == 'set' and isinstance(before, MM) and self.remap
                    and ctx.remapped < 1
                    and before_real is not None and before is not mv):
                ctx.replaced_map = (before, before_real, key)
        elif kind == 'clear':
            real, mm = self._target(ctx, op[1])
            names = set(mm.maps) | {n for la in mm.layers for n in la}
            ctx.detached = []
            for n in sorted(names):
                v = mm.visible(n)
                if isinstance(v, MH):
                    if v.home != (id(mm), n):
                        continue    # stored here earlier, lives elsewhere now
                    v.home = None
                ctx.detached.append((real.get(n), True))
            for depth, layer in enumerate(mm.layers):
                for n, h in layer.items():
                    if h.home == (id(mm), n):
                        h.home = None
                        if depth and mm.visible(n) is not h:
                            # shadowed in a lower layer: a direct child too
                            ctx.detached.append((h.obj, False))
                            ctx.hits['clear_detaches_shadowed_handle'] += 1
            if len(mm.layers) > 1:
                ctx.hits['clear_layered'] += 1
            ctx.hits['clear'] += 1
            try:
                real.clear()
            except Exception as exc:
                raise Violation('clear_raised', f'{exc!r}')
            mm.maps = {}
            mm.layers = [{}]
            ctx.cleared = real
            for child, visible in ctx.detached:
                if child is not None and (child.parent is not None
                                          or child.key is not None):
                    raise Violation(
                        'clear_detaches_children',
                        f'after clear() a former direct child still has '
                        f'parent={child.parent!r} key={child.key!r}',
                        child=type(child).__name__, shadowed=not visible)
            if real.maps or any(len(layer) for layer in real.handles.maps):
                raise Violation(
                    'clear_leaves_nothing_reachable',
                    f'after clear(): maps={dict(real.maps)}, handle layers='
                    f'{[dict(la) for la in real.handles.maps]}',
                    layered=len(real.handles.maps) > 1)
        elif kind == 'layer':
            real, mm = self._target(ctx, op[1])
            real.handles.maps.insert(0, {})
            mm.layers.insert(0, {})
            ctx.hits['add_layer'] += 1
        else:
            raise ValueError(op)

    # -- invariant ---------------------------------------------------------------
    def _lookup(self, ctx, key):
        mm = ctx.model
        parts = key.split('/')
        for name in parts[:-1]:
            mm = mm.maps.get(name)
            if mm is None:
                return None
        return mm.visible(parts[-1])

    def check(self, ctx):
        m = ctx.root
        obs = []
        sent = object()
        for key in self.all_keys:
            want = self._lookup(ctx, key)
            feats = dict(depth=key.count('/') + 1,
                         expected='absent' if want is None else
                         ('handle' if isinstance(want, MH) else 'map'))
            # style 1: composite []
            try:
                d1 = m[self.rk(ctx, key)]
                f1 = None
            except KeyError as exc:
                d1, f1 = sent, exc
            except Exception as exc:
                raise Violation('getitem_raised',
                                f'm[{key!r}] raised {exc!r}', **feats)
            # style 2: chained []
            try:
                d2 = m
                for name in key.split('/'):
                    d2 = d2[name]
            except Exception:
                d2 = sent
            # style 3: get()
            got = m.get(self.rk(ctx, key), sent)
            if got is sent:
                d3 = sent
            elif isinstance(got, desper.Handle):
                d3 = got()
            else:
                d3 = got
            if (got is sent) != (f1 is not None):
                raise Violation('get_default_iff_keyerror',
                                f'key {key!r}: get returned '
                                f'{"the default" if got is sent else got!r} '
                                f'while [] {"raised KeyError" if f1 else "returned " + repr(d1)}',
                                **feats)
            if not (d1 is d2 is d3):
                raise Violation('three_access_styles_agree',
                                f'key {key!r}: m[k] -> {_show(d1, sent)}, '
                                f'chained -> {_show(d2, sent)}, get(k)() -> '
                                f'{_show(d3, sent)}', **feats)
            if want is None:
                if d1 is not sent:
                    raise Violation('latest_assignment_wins',
                                    f'key {key!r} should be absent, found '
                                    f'{d1!r}', **feats)
                obs.append(None)
            elif isinstance(want, MH):
                if got is not want.obj:
                    raise Violation('latest_assignment_wins',
                                    f'key {key!r} should denote handle '
                                    f'{want.obj!r}, get returned '
                                    f'{_show(got, sent)}', **feats)
                if d1 is not want.obj():
                    raise Violation('getitem_returns_loaded_resource',
                                    f'key {key!r}', **feats)
                obs.append('h')
            else:
                if not isinstance(got, desper.ResourceMap) or (
                        want.obj is not None and got is not want.obj):
                    raise Violation('latest_assignment_wins',
                                    f'key {key!r} should denote '
                                    f'{"the assigned" if want.obj else "an implicit"} '
                                    f'map, get returned {_show(got, sent)}',
                                    **feats)
                obs.append('m')
        self._links(ctx.model, m, '', ctx.aliased > 0)
        return tuple(obs)

    def _links(self, mm, real, path, ctx_aliased=False):
        for name, child in mm.maps.items():
            rc = real.get(name)
            where = f'{path}/{name}'.lstrip('/')
            if rc.parent is not real or rc.key != name:
                raise Violation(
                    'backlinks',
                    f'map at {where!r}: parent is '
                    f'{"the containing map" if rc.parent is real else rc.parent!r}'
                    f', key {rc.key!r}', node='map',
                    implicit=child.obj is None, shadowed=False)
            self._links(child, rc, where, ctx_aliased)
        for depth, layer in enumerate(mm.layers):
            for name, h in layer.items():
                shadowed = any(name in up for up in mm.layers[:depth])
                where = f'{path}/{name}'.lstrip('/')
                if not shadowed and real.get(name) is not h.obj:
                    raise Violation('latest_assignment_wins', f'{where}')
                if shadowed:
                    # (looked for in every layer: an implementation may
                    # keep fewer physical layers than were pushed)
                    if not any(layer.get(name) is h.obj
                               for layer in real.handles.maps):
                        raise Violation(
                            'shadowed_handle_stays_beneath',
                            f'handle shadowed at {where!r} is no longer in '
                            f'layer {depth}')
                if h.home != (id(mm), name):
                    continue        # replaced, cleared or re-assigned elsewhere
                if h.obj.parent is not real or h.obj.key != name:
                    raise Violation(
                        'backlinks',
                        f'handle at {where!r} (layer {depth}): parent '
                        f'{h.obj.parent!r}, key {h.obj.key!r}', node='handle',
                        implicit=False, shadowed=shadowed,
                        stored_twice=ctx_aliased)

    # -- canonical key -------------------------------------------------------------
    def key(self, ctx):
        names = {}

        def collect(mm, path):
            for depth, layer in enumerate(mm.layers):
                for name, h in layer.items():
                    names[id(h.obj)] = f'H:{path}/{name}@{depth}'
            for name, child in mm.maps.items():
                collect(child, f'{path}/{name}')
        collect(ctx.model, '')
        if self.remap and ctx.replaced_map is not None:
            collect(ctx.replaced_map[0], '<spare>')

        def namer(o):
            n = names.get(id(o))
            if n is not None:
                return n
            if isinstance(o, (H, Res)):
                return '~' + o.label
            return None
        spare = None
        if self.remap and ctx.replaced_map is not None:
            # the overwritten map that may still be stored again: part of
            # the state (with its own content and stale back-links)
            # (content only; where it was overwritten stands for its stale
            # back-link, which may name a map that is itself gone by now)
            spare = (canon((ctx.replaced_map[1],), namer, coarse=self.coarse,
                           skip_attrs=('parent',)), ctx.replaced_map[2])
        return (canon((ctx.root,), namer, coarse=self.coarse),
                ctx.replaced[0] if (self.reassign and ctx.replaced) else None,
                ctx.reassigned if self.reassign else 0,
                spare, ctx.remapped if self.remap else 0)


DELIMS = ('/', '.', ':')


class DelimDriver(TreeDriver):
    """The documented delimiter (class attribute ResourceMap.split_char,
    "can be changed at any time") is changed between operations: from then
    on the same tree is addressed through keys spelled with the new one,
    and a string holding an old delimiter is a plain name."""

    def initial(self):
        ctx = super().initial()
        ctx.delim = '/'
        return ctx

    def rk(self, ctx, key):
        return key.replace('/', ctx.delim)

    @contextlib.contextmanager
    def _delim(self, ctx):
        if desper.ResourceMap.split_char != '/':
            raise HarnessError('ResourceMap.split_char was left changed')
        desper.ResourceMap.split_char = ctx.delim
        try:
            yield
        finally:
            desper.ResourceMap.split_char = '/'

    def params(self):
        return dict(super().params(), delimiters=DELIMS)

    def ops(self, ctx):
        return super().ops(ctx) + [('delim', c) for c in DELIMS
                                   if c != ctx.delim]

    def apply(self, ctx, op):
        if op[0] == 'delim':
            ctx.delim = op[1]
            ctx.hits['delimiter_changed'] += 1
            return
        with self._delim(ctx):
            super().apply(ctx, op)

    def check(self, ctx):
        sent = object()
        with self._delim(ctx):
            obs = super().check(ctx)
            # spelled with another delimiter the key is one plain name
            # (never assigned): absent, whatever it meant before
            for other in DELIMS:
                if other == ctx.delim:
                    continue
                for key in self.all_keys:
                    if '/' not in key:
                        continue
                    text = key.replace('/', other)
                    got = ctx.root.get(text, sent)
                    try:
                        ctx.root[text]
                        found = True
                    except KeyError:
                        found = False
                    if got is not sent or found:
                        raise Violation(
                            'key_split_on_current_delimiter',
                            f'delimiter {ctx.delim!r}: {text!r} is a plain '
                            f'name that was never assigned, get returned '
                            f'{_show(got, sent)}, [] '
                            f'{"found something" if found else "raised KeyError"}',
                            delimiter=ctx.delim)
        return obs + (ctx.delim,)

    def key(self, ctx):
        return super().key(ctx) + (ctx.delim,)


def _name_of(mm, node):
    for name, child in mm.maps.items():
        if child is node:
            return name
    for layer in mm.layers:
        for name, h in layer.items():
            if h is node:
                return name
    return None


def _show(x, sent):
    return '<fails>' if x is sent else repr(x)


def drivers(tier):
    kinds = ('handle', 'empty', 'populated', 'layered')
    if tier == 'quick':
        return {
            'depth2-fixpoint': (TreeDriver(
                'depth2-fixpoint', kinds, rich_depth=1, layer_targets=('', 'a'),
                key_depth=2, aliases=1),
                dict(max_states=300000, time_budget=200)),
            # an object that was overwritten is assigned again
            'reassign': (TreeDriver(
                'reassign', ('handle', 'empty'), rich_depth=0,
                layer_targets=('',), clear_targets=('',), key_depth=2,
                names=('a',), reassign=True),
                dict(max_states=300000, time_budget=200)),
            # a map that was overwritten is stored again somewhere else
            'remap': (TreeDriver(
                'remap', ('handle', 'empty'), rich_depth=0,
                layer_targets=(), clear_targets=('',), key_depth=2,
                remap=True),
                dict(max_states=300000, time_budget=200)),
            # the delimiter is changed between operations
            'delimiter': (DelimDriver(
                'delimiter', ('handle', 'empty'), rich_depth=0,
                layer_targets=(), clear_targets=('',), key_depth=2),
                dict(max_states=300000, time_budget=200)),
            # empty path components are legal names too ('/x', 'x/', '')
            'empty-names': (TreeDriver(
                'empty-names', ('handle', 'empty'), rich_depth=0,
                layer_targets=(), clear_targets=('',), key_depth=2,
                names=('', 'x')),
                dict(max_states=300000, time_budget=200)),
            'depth3-bounded': (TreeDriver(
                'depth3-bounded', kinds, rich_depth=1, layer_targets=('',)),
                dict(max_depth=3)),
        }
    return {
        'reassign': (TreeDriver(
            'reassign', ('handle', 'empty', 'layered'), rich_depth=1,
            layer_targets=('',), clear_targets=('', 'a'), key_depth=2,
            names=('a', 'b'), reassign=True, max_layers=2),
            dict(max_states=1000000, time_budget=900)),
        'delimiter': (DelimDriver(
            'delimiter', ('handle', 'empty', 'populated'), rich_depth=1,
            layer_targets=('',), clear_targets=('', 'a'), key_depth=2),
            dict(max_states=1500000, time_budget=900)),
        'remap': (TreeDriver(
            'remap', ('handle', 'empty', 'populated'), rich_depth=1,
            layer_targets=('',), clear_targets=('', 'a'), key_depth=2,
            remap=True),
            dict(max_states=1500000, time_budget=900)),
        'empty-names': (TreeDriver(
            'empty-names', ('handle', 'empty', 'layered'), rich_depth=1,
            layer_targets=('',), clear_targets=('',), key_depth=2,
            names=('', 'x')),
            dict(max_states=1000000, time_budget=900)),
        'depth2-fixpoint': (TreeDriver(
            'depth2-fixpoint', kinds, rich_depth=2, layer_targets=('', 'a'),
            key_depth=2, max_layers=3, aliases=1),
            dict(max_states=3000000, time_budget=1500)),
        'depth3-fixpoint': (TreeDriver(
            'depth3-fixpoint', ('handle', 'empty', 'layered'), rich_depth=1,
            layer_targets=('',)),
            dict(max_states=3000000, time_budget=3000)),
        'depth3-full-alphabet': (TreeDriver(
            'depth3-full-alphabet', kinds, rich_depth=2,
            layer_targets=('', 'a')), dict(max_depth=4)),
        'order-preserving-key': (TreeDriver(
            'order-preserving-key', kinds, rich_depth=1,
            layer_targets=('',), coarse=False), dict(max_depth=3)),
    }


def run(tier, rep):
    rep.rule = RULE
    rep.assumptions += [
        'maps are inserted once; one handle may be stored at a second place '
        '(its back-link follows the latest assignment); cycles are outside '
        'the alphabet',
        'part delimiter: ResourceMap.split_char (class attribute) is changed '
        'between operations among "/", "." and ":"; keys are spelled with '
        'the current delimiter, a string holding another one is a plain '
        'name; delimiters on instances / subclasses and names containing '
        'the delimiter are not in the alphabet',
        'parent / key of objects that were replaced (not cleared) are free',
        'chained indexing "fails" with any exception (indexing into a loaded '
        'resource is not a KeyError)',
    ]
    rep.require_hits(implicit_map=1, implicit_map_over_handle=1,
                     handle_replaces_subtree=1, map_replaces_handle=1,
                     map_over_layered_handle=1, clear=1, clear_layered=1,
                     same_handle_at_two_places=1,
                     overwritten_object_assigned_again=1,
                     overwritten_map_assigned_elsewhere=1,
                     delimiter_changed=1,
                     add_layer=1, handle_over_lower_layer=1)
    for name, (driver, kw) in drivers(tier).items():
        kernel.explore(driver, rep, part=name, params=driver.params(), **kw)


def replay(rec):
    for tier in ('thorough', 'quick'):
        ds = drivers(tier)
        if rec['part'] in ds:
            return kernel.replay_case(ds[rec['part']][0], rec['case'])
    raise SystemExit(f'unknown part {rec["part"]}')
