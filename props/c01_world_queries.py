"""C01 - World queries always agree on who owns which component."""
from mc import kernel
from props.worldlib import WorldDriver

SHAPES = ((), ('A',), ('B',), ('A', 'X'), ('B', 'X'), ('A', 'A'))

RULE = ('E1 breadth-first search over World operation histories on the real '
        'World; every transition is executed on the implementation and '
        'compared with a dict-of-dicts table; all query families are '
        'evaluated in every reached state.  A state is distinct by its '
        'canonical key (model + generic object graph of the World); '
        'non-trivial = reached by a transition exercising a named shortcut '
        '(same-type replacement, create on an existing id, removal by '
        'supertype, pending mark outliving its row, id reuse, clear).')


def drivers(tier):
    d = {}
    if tier == 'quick':
        d['coarse-fixpoint'] = (WorldDriver(
            'coarse-fixpoint', own='Q', ids=(1, 2), explicit_ids=(1, 2),
            max_autos=1, shapes=SHAPES),
            dict(max_states=250000, time_budget=240))
        d['fine-depth'] = (WorldDriver(
            'fine-depth', own='Q', ids=(1, 2), explicit_ids=(1, 2),
            max_autos=1, coarse=False), dict(max_depth=3))
        # handler components whose lifecycle callbacks issue every query;
        # order-preserving key: what a callback sees depends on the order in
        # which the components of one entity are walked
        d['queries-from-callbacks'] = (WorldDriver(
            'queries-from-callbacks', own='Q', types=('A', 'H'), ids=(1, 2),
            explicit_ids=(1,), max_autos=1, coarse=False,
            shapes=((), ('A',), ('H',), ('A', 'H'))),
            dict(max_states=250000, time_budget=240))
        # an on_remove callback that deletes the other entity at once and
        # re-creates it under the same identifier
        d['callback-recreates'] = (WorldDriver(
            'callback-recreates', own='Q', types=('A', 'HKR'), ids=(1, 2),
            explicit_ids=(1, 2), max_autos=1,
            shapes=((), ('A',), ('HKR',), ('A', 'HKR'))),
            dict(max_states=250000, time_budget=240))
        # a deferred delete of an id that owns nothing, then clear(): the
        # restarted id generator hands that id out again
        d['stray-mark-clear'] = (WorldDriver(
            'stray-mark-clear', own='Q', types=('A', 'X'), ids=(1, 2),
            explicit_ids=(2,), max_autos=2, bogus_delete=True,
            stray_marks=True, shapes=((), ('A',), ('A', 'X'))),
            dict(max_states=250000, time_budget=240))
    else:
        d['stray-mark-clear'] = (WorldDriver(
            'stray-mark-clear', own='Q', ids=(1, 2), explicit_ids=(2,),
            max_autos=2, bogus_delete=True, stray_marks=True),
            dict(max_states=1000000, time_budget=900))
        d['callback-recreates'] = (WorldDriver(
            'callback-recreates', own='Q', types=('A', 'X', 'HKR'),
            ids=(1, 2), explicit_ids=(1, 2), max_autos=1,
            shapes=((), ('A',), ('HKR',), ('A', 'HKR'), ('X', 'HKR'))),
            dict(max_states=1000000, time_budget=900))
        d['queries-from-callbacks'] = (WorldDriver(
            'queries-from-callbacks', own='Q', types=('A', 'H'),
            ids=(1, 2), explicit_ids=(1, 2), max_autos=1, coarse=False,
            shapes=((), ('A',), ('H',), ('A', 'H'), ('H', 'A'))),
            dict(max_states=1500000, time_budget=900))
        d['coarse-fixpoint'] = (WorldDriver(
            'coarse-fixpoint', own='Q', ids=(1, 2, 3), explicit_ids=(1, 2),
            max_autos=2), {})
        d['fine-depth'] = (WorldDriver(
            'fine-depth', own='Q', ids=(1, 2), explicit_ids=(1, 2),
            max_autos=1, coarse=False), dict(max_depth=5))
        d['string-id'] = (WorldDriver(
            'string-id', own='Q', ids=(1, 's'), explicit_ids=(1, 's'),
            max_autos=1), {})
    return d


def run(tier, rep):
    rep.rule = RULE
    rep.assumptions += [
        'create_entity on an id that already owns components merges the new '
        'components into that entity (same-type ones replaced)',
        'coarse key drops dict insertion order (DESIGN.md 2.5); the fine-key '
        'run keeps it to a stated depth',
        'exceptions out of process() belong to C05: branch pruned and counted',
    ]
    rep.require_hits(replace_same_type=1, remove_by_supertype=1, clear=1,
                     clear_with_stray_mark=1)
    for name, (driver, kw) in drivers(tier).items():
        kernel.explore(driver, rep, part=name, params=driver.params(), **kw)


def replay(rec):
    for tier in ('thorough', 'quick'):
        ds = drivers(tier)
        if rec['part'] in ds:
            return kernel.replay_case(ds[rec['part']][0], rec['case'])
    raise SystemExit(f'unknown part {rec["part"]}')
