"""C14 - SimpleLoop feeds exact time deltas and stops cleanly on Quit (E2)."""
import fractions
import itertools

from mc import env  # noqa: F401
from mc import kernel
from mc.report import Violation, HarnessError

import desper

RULE = ('E2: every frame script with at most F frames in total spread over '
        'at most S start() calls of the same SimpleLoop object; a frame = '
        '(clock increment from {0, 0.5, 1, 3}) x (nothing | one of three '
        'processor positions does: raise Quit, quit_loop(world), quit_loop() '
        'through desper.default_loop, raise SwitchWorld(other handle), raise '
        'RuntimeError); every start ends with a terminating frame.  Scripted '
        'clock handed to the constructor; per-frame ledger of (world, '
        'processor, dt).  Non-trivial = a switch, a restart, a restart after '
        'a propagated exception, a zero increment.')

INCS = (0, 0.5, 1, 3)
CONT = ('nothing', 'switch', 'loop_switch', 'clear_handle', 'switch_self',
        'swap_clock')
TERM = ('quit', 'quit_loop_world', 'quit_loop_default', 'runtime',
        'quit_loop_handler_raises', 'switch_quit_on_entry',
        'switch_boom_on_entry')


class Horizon(BaseException):
    pass


class Boom(RuntimeError):
    pass


class Env:
    pass


class SP(desper.Processor):
    pos = None

    def __init__(self, envx, label):
        self.envx = envx
        self.label = label

    def process(self, dt):
        envx = self.envx
        envx.log.append((envx.frame_no, self.label, self.pos, dt,
                         envx.loop.running))
        _, pos, action = envx.frame
        if pos != self.pos or envx.done:
            return
        envx.done = True
        if action == 'quit':
            raise desper.Quit()
        if action == 'quit_loop_world':
            desper.quit_loop(self.world)
        if action == 'quit_loop_default':
            desper.quit_loop()
        if action == 'switch':
            other = envx.handles['B' if self.label[0] == 'A' else 'A']
            raise desper.SwitchWorld(other)
        if action == 'switch_self':
            # desper.switch towards the handle the loop already runs: the
            # frame is abandoned, the same world goes on - and listens
            desper.switch(envx.loop.current_world_handle,
                          from_world=self.world)
        if action == 'swap_clock':
            # the public time_function attribute is assigned during a run:
            # from the next iteration on the loop reads the new function
            envx.clock_gen += 1
            envx.loop.time_function = envx.make_clock(envx.clock_gen)
        if action == 'clear_handle':
            # the cache of the current handle is dropped while its world
            # keeps running: the loop goes on with that same world
            envx.loop.current_world_handle.clear()
        if action == 'quit_loop_handler_raises':
            # an on_quit listener raises something that is not Quit: like
            # any other exception it reaches the caller
            envx.quit_raises = True
            desper.quit_loop(self.world)
        if action == 'loop_switch':
            # the public Loop.switch called directly: no exception, the
            # frame goes on, the next iteration processes the other world
            other = envx.handles['B' if self.label[0] == 'A' else 'A']
            envx.loop.switch(other)
        if action == 'runtime':
            envx.boom = Boom('frame failure')
            raise envx.boom
        if action in ('switch_quit_on_entry', 'switch_boom_on_entry'):
            # the other world holds an event; its listener quits (or fails)
            # when the loop releases it while entering that world, i.e.
            # while the loop is handling the switch request
            other = envx.handles['B' if self.label[0] == 'A' else 'A']
            target = other()
            target.dispatch_enabled = False
            target.dispatch('enter', action)
            raise desper.SwitchWorld(other)


class SP0(SP):
    pos = 0
    priority = 0


class SP1(SP):
    pos = 1
    priority = 1


class SP2(SP):
    pos = 2
    priority = 2


class FalsyWorld(desper.World):
    """A legal World subclass may be falsy (say, __len__ = its number of
    entities of some kind): presence is tested with `is None`."""

    def __len__(self):
        return 0


@desper.event_handler('on_quit', 'enter')
class QuitListener:
    def __init__(self, envx, label):
        self.envx = envx
        self.label = label

    def enter(self, action):
        self.envx.entered.append((self.envx.frame_no, self.label))
        if action == 'switch_quit_on_entry':
            raise desper.Quit()
        self.envx.boom = Boom('listener of the entered world failed')
        raise self.envx.boom

    def on_quit(self):
        self.envx.quits.append((self.envx.frame_no, self.label))
        if getattr(self.envx, 'quit_raises', False):
            self.envx.quit_raises = False
            self.envx.boom = Boom('on_quit listener failed')
            raise self.envx.boom


class FixedHandle(desper.Handle):
    """Yields the prepared world; a load after clear() builds another world
    (labelled with a star) - the loop must never run that one by itself."""

    def __init__(self, world, rebuild):
        self.world = world
        self.rebuild = rebuild
        self.loads = 0

    def load(self):
        self.loads += 1
        if self.loads == 1:
            return self.world
        return self.rebuild('*' * (self.loads - 1))

    # value equality is legal for handles: all of them are equal here
    def __eq__(self, other):
        return isinstance(other, FixedHandle)

    def __hash__(self):
        return 13


def run_case(case):
    if case and isinstance(case[0], (int, float, str)):
        base, starts = case         # (clock base, starts)
    else:
        base, starts = 10.0, case   # older replay files
    envx = Env()
    envx.log = []
    envx.quits = []
    envx.frame_no = -1
    envx.boom = None
    envx.done = False
    envx.frame = None
    exact = base == 'big'
    envx.now = fractions.Fraction(2 ** 60) if exact else float(base)
    envx.script = []
    worlds = {}
    envx.handles = {}
    keep = []
    def build(label):
        # the worlds of handle B are falsy World subclasses
        w = FalsyWorld() if label[0] == 'B' else desper.World()
        for klass in (SP0, SP1, SP2):
            w.add_processor(klass(envx, label))
        q = QuitListener(envx, label)
        keep.append(q)
        w.create_entity(q)
        return w

    for label in 'AB':
        w = build(label)
        worlds[label] = w
        envx.handles[label] = FixedHandle(
            w, lambda stars, label=label: build(label + stars))

    envx.clock_gen = 0
    envx.stale_clock = None

    def make_clock(gen):
        def clock():
            if gen != envx.clock_gen and envx.stale_clock is None:
                envx.stale_clock = (gen, envx.clock_gen, envx.frame_no + 1)
            if not envx.script:
                raise Horizon()
            envx.frame = envx.script.pop(0)
            envx.frame_no += 1
            envx.done = False
            envx.now += (fractions.Fraction(envx.frame[0]) if exact
                         else envx.frame[0])
            envx.readings.append(envx.now)
            return envx.now
        return clock

    envx.make_clock = make_clock
    loop = desper.SimpleLoop(make_clock(0))
    envx.loop = loop
    old_default = desper.default_loop
    uses_default = any(f[2] == 'quit_loop_default'
                       for frames in starts for f in frames)
    if uses_default:
        desper.default_loop = loop
    else:
        # the loop under test is not the default loop: quit_loop(world)
        # names its world explicitly; the default loop runs a bystander
        # world that must hear nothing
        idle = desper.SimpleLoop(lambda: 0.0)
        idle.switch(FixedHandle(build('Z'), lambda stars: build('Z' + stars)))
        desper.default_loop = idle
    hits = {}
    calls = 0
    try:
        loop.switch(envx.handles['A'])
        current = 'A'
        labels = {'A': 'A', 'B': 'B'}
        cleared = set()
        reloaded = set()
        for si, frames in enumerate(starts):
            envx.script = [tuple(f) for f in frames]
            envx.readings = []
            envx.log = []
            envx.quits = []
            envx.entered = []
            first_frame = envx.frame_no + 1
            feats = dict(start_index=min(si, 1),
                         after_exception=si > 0 and starts[si - 1][-1][2]
                         in ('runtime', 'quit_loop_handler_raises',
                             'switch_boom_on_entry'),
                         after_quit_on_entry=si > 0 and starts[si - 1][-1][2]
                         == 'switch_quit_on_entry')
            if si > 0:
                hits['restart'] = 1
                if feats['after_exception']:
                    hits['restart_after_exception'] = 1
            outcome = None
            try:
                loop.start()
                outcome = 'returned'
            except Horizon:
                raise Violation(
                    'one_clock_reading_per_iteration',
                    f'start #{si} of {case}: the loop asked for more clock '
                    f'readings than it ran frames (readings '
                    f'{envx.readings}, frames run '
                    f'{sorted({r[0] for r in envx.log})})', **feats)
            except Boom as exc:
                outcome = exc
            except Exception as exc:
                raise Violation('unexpected_exception',
                                f'start() raised {exc!r}', **feats)
            calls += 1
            # ---- expected ledger -------------------------------------
            want = []
            want_quits = []
            for fi, (inc, pos, action) in enumerate(frames):
                dt = 0 if fi == 0 else inc
                if (fi + 1 < len(frames) and fi < len(envx.readings)
                        and envx.readings[fi] == 0):
                    hits['reading_exactly_zero'] = 1
                if inc == 0 and fi > 0:
                    hits['zero_increment'] = 1
                last = 2 if action in ('nothing', 'loop_switch',
                                       'clear_handle', 'swap_clock') else pos
                for p in range(last + 1):
                    want.append((first_frame + fi, labels[current], p, dt,
                                 True))
                if action in ('quit_loop_world', 'quit_loop_default',
                              'quit_loop_handler_raises'):
                    want_quits.append((first_frame + fi, labels[current]))
                if action in ('switch', 'loop_switch', 'switch_quit_on_entry',
                              'switch_boom_on_entry'):
                    current = 'B' if current == 'A' else 'A'
                    hits[action] = 1
                    if current in cleared:
                        # entering a handle whose cache was dropped loads
                        # another world
                        cleared.discard(current)
                        labels[current] += '*'
                        reloaded.add(current)
                        hits['entered_handle_reloads_after_clear'] = 1
                if action == 'switch_self':
                    hits[action] = 1
                    if current in cleared:
                        cleared.discard(current)
                        labels[current] += '*'
                        reloaded.add(current)
                if action == 'swap_clock':
                    hits[action] = 1
                if action == 'clear_handle':
                    hits[action] = 1
                    cleared.add(current)
            if envx.stale_clock is not None:
                gen, now_gen, frame = envx.stale_clock
                raise Violation(
                    'reads_its_time_function_every_iteration',
                    f'start #{si} of {case}: in frame {frame} the loop '
                    f'called time function #{gen} although '
                    f'loop.time_function had been assigned #{now_gen}',
                    **feats)
            got = envx.log
            if [r[:3] for r in got] != [r[:3] for r in want]:
                raise Violation(
                    'one_process_per_iteration_rest_of_frame_abandoned',
                    f'start #{si} of {case}: processors run '
                    f'{[r[:3] for r in got]}, expected '
                    f'{[r[:3] for r in want]}', **feats)
            for g, w in zip(got, want):
                if g[3] != w[3]:
                    first = g[0] == first_frame
                    raise Violation(
                        'exact_time_delta',
                        f'start #{si} of {case}: frame {g[0]} (readings '
                        f'{envx.readings}) got dt = {g[3]!r}, expected '
                        f'{w[3]!r}', first_frame_of_start=first, **feats)
                if g[4] is not True:
                    raise Violation('running_while_looping',
                                    f'loop.running = {g[4]!r} inside a frame',
                                    **feats)
            action = frames[-1][2]
            if action in ('switch_quit_on_entry', 'switch_boom_on_entry'):
                want_entered = [(first_frame + len(frames) - 1,
                                 labels[current])]
                if envx.entered != want_entered:
                    raise Violation(
                        'entered_world_releases_its_events',
                        f'start #{si} of {case}: the event held by the '
                        f'world being entered reached {envx.entered}, '
                        f'expected {want_entered}', **feats)
            if action in ('runtime', 'quit_loop_handler_raises',
                          'switch_boom_on_entry'):
                hits[action] = 1
                if outcome is not envx.boom:
                    raise Violation('other_exceptions_propagate_unchanged',
                                    f'start() -> {outcome!r}, expected the '
                                    f'exception raised in the frame', **feats)
            else:
                if outcome != 'returned':
                    raise Violation('quit_returns_normally',
                                    f'{action}: start() -> {outcome!r}',
                                    action=action, **feats)
                if loop.running is not False:
                    raise Violation('running_false_after_quit',
                                    f'{action}: loop.running = '
                                    f'{loop.running!r}', action=action,
                                    **feats)
            if envx.quits != want_quits:
                raise Violation('on_quit_delivered_once',
                                f'{action}: on_quit log {envx.quits}, '
                                f'expected {want_quits}', action=action,
                                **feats)
            for name in reloaded:
                worlds[name] = None      # replaced by a reloaded world
            expected_world = worlds[current]
            if expected_world is None and current not in cleared:
                expected_world = envx.handles[current]()
            if ((expected_world is not None
                 and loop.current_world is not expected_world)
                    or loop.current_world_handle
                    is not envx.handles[current]):
                raise Violation('current_world_and_handle',
                                f'after start #{si}: current world / handle '
                                f'are not those of {current}', **feats)
    finally:
        desper.default_loop = old_default
    return {'calls': calls, 'hits': hits, 'key': repr(case)}


def frame_menu(terminating):
    out = []
    for inc in INCS:
        if terminating:
            for action in TERM:
                # (the entry-time terminations from the middle position)
                for pos in ((1,) if action.endswith('_on_entry')
                            else range(3)):
                    out.append((inc, pos, action))
        else:
            out.append((inc, 0, 'nothing'))
            for pos in range(3):
                out.append((inc, pos, 'switch'))
            out.append((inc, 1, 'loop_switch'))
            out.append((inc, 1, 'clear_handle'))
            if inc == 1:
                out.append((inc, 1, 'switch_self'))
                out.append((inc, 1, 'swap_clock'))
    return out


def starts_with(k):
    cont = frame_menu(False)
    term = frame_menu(True)
    for body in itertools.product(cont, repeat=k - 1):
        for last in term:
            yield body + (last,)


def compositions(total, max_parts):
    """Ordered tuples of positive ints with sum <= total, <= max_parts parts."""
    out = []
    for parts in range(1, max_parts + 1):
        for combo in itertools.product(range(1, total + 1), repeat=parts):
            if sum(combo) <= total:
                out.append(combo)
    return out


# readings that hit or cross zero matter; 'big' = exact Fraction readings
# around 2**60 that binary floats cannot represent
BASES = (10.0, 0.0, -1.0, 'big')


def cases(tier):
    total, max_starts = (3, 2) if tier == 'quick' else (4, 3)
    out = []
    for comp in compositions(total, max_starts):
        if sum(comp) == 4 and len(comp) > 2:
            continue    # 4 frames are spread over at most two starts
        families = [list(starts_with(k)) for k in comp]
        for combo in itertools.product(*families):
            for base in BASES:
                if base != 10.0 and sum(comp) > 3:
                    continue    # zero-crossing clocks: <= 3 frames in total
                out.append((base, tuple(combo)))
    if tier == 'quick':
        # three runs of the same loop object, one terminating frame each
        singles = [(1, 1, action) for action in TERM]
        for combo in itertools.product(singles, repeat=3):
            out.append((10.0, tuple((f,) for f in combo)))
    return out


def run(tier, rep):
    rep.rule = RULE
    rep.assumptions += [
        'clock readings are dyadic rationals (exact floats) starting at 10.0, '
        '0.0 or -1.0, so that a reading can be exactly zero or negative, or '
        'exact Fractions around 2**60 that floats cannot represent',
        'loop.running after a non-Quit exception is not constrained by the '
        'statement and not checked',
        'which listeners of a frame that quit have still run is judged only '
        'through the processor ledger',
        'switch_quit_on_entry / switch_boom_on_entry: the frame raises '
        'SwitchWorld towards a world that holds an event whose listener '
        'raises Quit / another exception when the loop releases it on '
        'entering: start() returns / the exception propagates, the current '
        'world is the one entered, and the next start begins with dt = 0',
        'switch_self: desper.switch towards the handle the loop already '
        'runs (frame abandoned, same world goes on and keeps listening: a '
        'later quit_loop reaches it); swap_clock: loop.time_function is '
        'assigned another function reading the same script - from the next '
        'iteration on the loop must call the new one; quick adds every '
        'triple of single-frame starts (three runs of one loop object)',
        'the worlds of handle B are falsy World subclasses; unless a frame '
        'uses quit_loop() without argument, desper.default_loop is another, '
        'idle loop whose world must never hear on_quit',
    ]
    rep.require_hits(switch_quit_on_entry=1, switch_boom_on_entry=1,
                     switch_self=1, swap_clock=1)
    rep.require_hits(switch=1, loop_switch=1, restart=1, clear_handle=1,
                     quit_loop_handler_raises=1, clear_handle_hit=0,
                     restart_after_exception=1,
                     zero_increment=1, reading_exactly_zero=1)
    total, max_starts = (3, 2) if tier == 'quick' else (4, 3)
    kernel.enumerate_cases(run_case, cases(tier), rep, 'frame-scripts',
                           chunk=2000,
                           params=dict(max_total_frames=total,
                                       max_starts=max_starts, increments=INCS,
                                       clock_bases=BASES,
                                       actions=CONT + TERM, positions=3))


def replay(rec):
    try:
        run_case(kernel.totuple(rec['case']))
    except Violation as v:
        return v
    return None
