"""Shared explicit-state driver for desper.CoroutineProcessor (C08, C09).

The scheduler is the object under test, ``process(dt)`` / ``start`` / ``kill``
the transitions.  Bodies are scripted generators: a script is a tuple of
segments ``(actions, out)``; each resume executes one segment (its in-body
actions, then ``yield out`` or, for ``out == 'RET'``, ``return``).

Reference model: per coroutine an independent clock (no shared timer):
``life`` in idle/active/paused, ``rem`` = time still to wait.  The model is
updated *online* from hooks at segment start / in-body action / segment end,
so that in-body kills and starts are judged in the order they really happen.
"""
import collections
import gc
import types

from mc import env  # noqa: F401
from mc.canon import canon
from mc.report import Violation, HarnessError

import desper
from desper.logic.coroutines import CoroutineState

RET = 'RET'


def script_from_yields(yields, spawn=None):
    """Segments for a body that just yields the given values in turn."""
    segs = []
    for i, y in enumerate(yields):
        acts = (('spawn', spawn),) if (spawn is not None and i == 0) else ()
        segs.append((acts, y))
    last = (('spawn', spawn),) if (spawn is not None and not yields) else ()
    segs.append((last, RET))
    return tuple(segs)


class Co:
    def __init__(self, cid, script):
        self.cid = cid
        self.script = script
        self.seg = 0
        self.life = 'idle'
        self.rem = None
        self.zombie = None       # None | 'frame' | 'frame+1' | float
        self.ran = False
        self.stay = None
        self.gen = None
        self.promise = None
        self.want_value = None
        self.value_due = False
        self.started_ever = False

    def tag(self):
        return repr(self.script[self.seg:])


class Ctx:
    pass


def reachable(root, target):
    seen = set()
    stack = [root]
    while stack:
        o = stack.pop()
        if o is target:
            return True
        if id(o) in seen:
            continue
        seen.add(id(o))
        if isinstance(o, (dict, list, tuple, set, frozenset,
                          collections.deque)):
            stack.extend(gc.get_referents(o))
        elif (type(o).__module__ or '').startswith('desper'):
            stack.extend(r for r in gc.get_referents(o)
                         if not isinstance(r, type))
    return False


class CoroDriver:
    """``slots``: list of scripts available to ``start`` (C08: chosen at start
    time, any number up to max_live ever started; C09: fixed generators)."""

    def __init__(self, name, scripts, dts, max_started, fixed=False,
                 outside_kill=False, bad_args=False, own=('T', 'S')):
        self.name = name
        self.scripts = tuple(scripts)
        self.dts = tuple(dts)
        self.max_started = max_started
        self.fixed = fixed
        self.outside_kill = outside_kill
        self.bad_args = bad_args

    def params(self):
        return dict(scripts=len(self.scripts), dts=self.dts,
                    max_started=self.max_started, fixed_generators=self.fixed,
                    outside_kill=self.outside_kill)

    # -- construction ----------------------------------------------------
    def initial(self):
        ctx = Ctx()
        ctx.driver = self
        ctx.hits = collections.Counter()
        if not getattr(type(self), '_probed', False):
            type(self)._probed = True     # once per process is enough
            self._isolation_probe()
        ctx.proc = desper.CoroutineProcessor()
        ctx.cos = []
        ctx.frame = None
        ctx.frame_no = 0
        ctx.last_ran = []
        ctx.pending_violation = None
        if self.fixed:
            for script in self.scripts:
                self._new(ctx, script)
        return ctx

    @staticmethod
    def _isolation_probe():
        """A fresh processor inherits nothing from another, busy, one."""
        ran = []

        def body(tag, wait):
            ran.append(tag)
            yield wait
            ran.append(tag)

        used = desper.CoroutineProcessor()
        g1, g2 = body('runnable', None), body('sleeper', 5)
        used.start(g1)
        used.start(g2)
        used.process(1)
        used.kill(g1)
        del ran[:]
        fresh = desper.CoroutineProcessor()
        problems = []
        # a coroutine killed in one processor may be handed to another one
        g3 = body('handed-over', None)
        used.start(g3)
        used.kill(g3)
        try:
            fresh.start(g3)
            if fresh.state(g3) != CoroutineState.ACTIVE:
                problems.append('a coroutine handed over is not ACTIVE')
            if used.state(g3) != CoroutineState.TERMINATED:
                problems.append('the kill in the first processor was undone')
            fresh.kill(g3)
            fresh.process(0)
        except Exception as exc:
            problems.append(f'handing over a killed coroutine raised {exc!r}')
        del ran[:]
        for g in (g1, g2):
            if fresh.state(g) != CoroutineState.TERMINATED:
                problems.append(f'state {fresh.state(g)!r} for a coroutine '
                                f'of another processor')
        try:
            fresh.process(10)
        except Exception as exc:
            problems.append(f'process raised {exc!r}')
        if ran:
            problems.append(f'advanced {ran}')
        if problems:
            raise Violation('fresh_processor_is_independent',
                            '; '.join(problems), isolation=True)

    def _new(self, ctx, script):
        co = Co(len(ctx.cos), script)
        co.gen = self._body(ctx, co)
        ctx.cos.append(co)
        return co

    def _body(self, ctx, co):
        for actions, out in co.script:
            self.on_run(ctx, co)
            for act in actions:
                self.inbody(ctx, co, act)
            self.segment_end(ctx, co, out)
            if out == RET:
                return ('ret', co.cid)
            yield out

    # -- alphabet ----------------------------------------------------------
    def ops(self, ctx):
        ops = []
        if self.fixed:
            for co in ctx.cos:
                ops.append(('start', co.cid))
                if self.outside_kill:
                    ops.append(('kill', co.cid))
            if self.bad_args:
                ops.append(('start_bad',))
                ops.append(('kill_bad',))
        else:
            if self._started_total(ctx) < self.max_started:
                for i, script in enumerate(self.scripts):
                    need = 1 + sum(1 for acts, _ in script for a in acts
                                   if a[0] == 'spawn')
                    if self._started_total(ctx) + need <= self.max_started:
                        ops.append(('new', i))
            if self.outside_kill:
                for co in ctx.cos:
                    if co.life != 'idle':
                        ops.append(('kill', co.cid))
                    elif (co.started_ever and not co.value_due
                          and co.seg < len(co.script)):
                        # killed before it finished: may be started again
                        ops.append(('start', co.cid))
        for dt in self.dts:
            ops.append(('process', dt))
        return ops

    @staticmethod
    def _started_total(ctx):
        return len(ctx.cos)

    # -- model steps shared by outside ops and in-body actions --------------
    def _fail(self, ctx, viol):
        if ctx.frame is not None:
            if ctx.pending_violation is None:
                ctx.pending_violation = viol
        else:
            raise viol

    def do_start(self, ctx, co, inbody=False):
        running = co.life != 'idle'
        before = self.key(ctx) if (running and not inbody) else None
        try:
            promise = ctx.proc.start(co.gen)
            err = None
        except ValueError as exc:
            promise, err = None, exc
        except Exception as exc:
            self._fail(ctx, Violation('start_raised', f'start raised {exc!r}'))
            return
        if running:
            ctx.hits['start_running_rejected'] += 1
            if err is None:
                self._fail(ctx, Violation(
                    'start_of_running_raises_valueerror',
                    f'start of coroutine {co.cid} ({co.life}) did not raise',
                    life=co.life))
            elif before is not None and self.key(ctx) != before:
                self._fail(ctx, Violation('rejected_call_changes_nothing',
                                          'start', op='start'))
            return
        if err is not None:
            self._fail(ctx, Violation(
                'start_of_stopped_generator_allowed',
                f'start of coroutine {co.cid} (not running) raised {err!r}',
                killed_before=co.zombie is not None))
            return
        if co.zombie is not None:
            ctx.hits['restart_before_release'] += 1
        if co.started_ever:
            ctx.hits['restart'] += 1
        co.started_ever = True
        co.life = 'active'
        co.zombie = None
        co.stay = None
        co.rem = None
        co.promise = promise
        co.value_due = False
        if ctx.frame is not None:
            ctx.frame['may'].add(co.cid)
        if promise.generator is not co.gen or promise.processor is not ctx.proc:
            self._fail(ctx, Violation('promise_identity', 'promise'))

    def do_kill(self, ctx, co, inbody=False):
        running = co.life != 'idle'
        before = self.key(ctx) if (not running and not inbody) else None
        try:
            ctx.proc.kill(co.gen)
            err = None
        except ValueError as exc:
            err = exc
        except Exception as exc:
            self._fail(ctx, Violation('kill_raised', f'kill raised {exc!r}'))
            return
        if not running:
            ctx.hits['kill_stopped_rejected'] += 1
            if err is None:
                self._fail(ctx, Violation(
                    'kill_of_stopped_raises_valueerror',
                    f'kill of coroutine {co.cid} (not running) did not raise'))
            elif before is not None and self.key(ctx) != before:
                self._fail(ctx, Violation('rejected_call_changes_nothing',
                                          'kill', op='kill'))
            return
        if err is not None:
            self._fail(ctx, Violation('kill_of_running_allowed',
                                      f'kill of running coroutine {co.cid} '
                                      f'({co.life}) raised {err!r}',
                                      life=co.life))
            return
        ctx.hits['kill_' + co.life] += 1
        if co.life == 'paused':
            co.zombie = co.rem
        elif ctx.frame is not None and co.ran:
            co.zombie = 'frame+1'
        else:
            co.zombie = 'frame'
        co.life = 'idle'
        co.rem = None
        co.stay = None
        if ctx.frame is not None:
            ctx.frame['must'].discard(co.cid)
            ctx.frame['may'].discard(co.cid)

    # -- hooks called from the generator bodies -------------------------------
    def on_run(self, ctx, co):
        fr = ctx.frame
        if fr is None:
            raise HarnessError('body advanced outside process()')
        if co.ran:
            self._fail(ctx, Violation(
                'advanced_exactly_once_per_frame',
                f'coroutine {co.cid} advanced twice in one process()',
                times=2))
        elif co.life == 'paused':
            self._fail(ctx, Violation(
                'wakes_exactly_on_time',
                f'coroutine {co.cid} advanced {co.rem} time units before its '
                f'wait elapsed', early=True))
        elif co.life != 'active':
            self._fail(ctx, Violation(
                'killed_coroutine_never_runs',
                f'coroutine {co.cid} advanced although it is not running '
                f'(killed / never started)', zombie=repr(co.zombie)))
        elif co.cid not in fr['must'] and co.cid not in fr['may']:
            self._fail(ctx, Violation('advanced_exactly_once_per_frame',
                                      f'coroutine {co.cid} was not due',
                                      times=1))
        co.ran = True
        fr['ran'].append(co.cid)
        fr['must'].discard(co.cid)

    def inbody(self, ctx, co, act):
        kind = act[0]
        ctx.hits['inbody_' + kind] += 1
        if kind == 'spawn':
            child = self._new(ctx, act[1])
            self.do_start(ctx, child, inbody=True)
            return
        target = co if act[1] == 'self' else ctx.cos[act[1]]
        if target.seg >= len(target.script) and (
                kind == 'start' or target.life == 'active'):
            # a generator that already returned and was started again ends
            # silently at an unobservable point of the frame: in-body calls
            # aimed at it are left out of the alphabet
            ctx.hits['inbody_skipped_exhausted_target'] += 1
            return
        if kind == 'kill':
            self.do_kill(ctx, target, inbody=True)
        elif kind == 'start':
            self.do_start(ctx, target, inbody=True)

    def segment_end(self, ctx, co, out):
        co.seg += 1
        alive = co.life == 'active'
        if out == RET:
            if alive:
                co.life = 'idle'
                co.value_due = True
                co.want_value = ('ret', co.cid)
                co.zombie = 'frame'
            elif co.zombie is not None:
                ctx.hits['killed_itself_then_returned'] += 1
                co.zombie = 'frame'
            co.stay = None
            return
        wait = out if (out is not None and out > 0) else None
        if alive:
            if wait is not None:
                co.life = 'paused'
                co.rem = wait
                co.stay = None
                ctx.hits['pause'] += 1
            else:
                co.stay = ctx.frame_no
        elif co.zombie is not None and wait is not None:
            co.zombie = wait

    # -- transitions ----------------------------------------------------------
    def apply(self, ctx, op):
        kind = op[0]
        if kind == 'new':
            co = self._new(ctx, self.scripts[op[1]])
            self.do_start(ctx, co)
        elif kind == 'start':
            self.do_start(ctx, ctx.cos[op[1]])
        elif kind == 'kill':
            self.do_kill(ctx, ctx.cos[op[1]])
        elif kind in ('start_bad', 'kill_bad'):
            before = self.key(ctx)
            for bad in (None, 3, 'gen', self._body, [1]):
                try:
                    (ctx.proc.start if kind == 'start_bad'
                     else ctx.proc.kill)(bad)
                except TypeError:
                    continue
                except Exception as exc:
                    raise Violation('typeerror_for_non_generators',
                                    f'{kind}({bad!r}) raised {exc!r}')
                raise Violation('typeerror_for_non_generators',
                                f'{kind}({bad!r}) did not raise')
            if self.key(ctx) != before:
                raise Violation('rejected_call_changes_nothing', kind,
                                op=kind)
        elif kind == 'process':
            self._process(ctx, op[1])
        else:
            raise ValueError(op)

    def _process(self, ctx, dt):
        ctx.frame_no += 1
        must = set()
        woken = set()
        for co in ctx.cos:
            co.ran = False
            if co.life == 'active':
                must.add(co.cid)
            elif co.life == 'paused':
                co.rem -= dt
                if co.rem <= 0:
                    co.life = 'active'
                    co.rem = None
                    woken.add(co.cid)
                    must.add(co.cid)
                    ctx.hits['wake_up'] += 1
            if isinstance(co.zombie, (int, float)):
                co.zombie -= dt
                if co.zombie <= 0:
                    co.zombie = 'frame'
        if woken and len(must) > len(woken):
            ctx.hits['wake_up_next_to_runnable'] += 1
        stay_before = {co.cid: co.stay for co in ctx.cos}
        exhausted = {co.cid for co in ctx.cos
                     if co.life == 'active' and co.seg >= len(co.script)}
        fr = ctx.frame = dict(must=set(must), may=set(), ran=[], woken=woken)
        try:
            ctx.proc.process(dt)
        except HarnessError:
            raise
        except Exception as exc:
            ctx.frame = None
            raise Violation('process_never_fails',
                            f'process({dt}) raised {exc!r}',
                            exception=type(exc).__name__)
        finally:
            ctx.frame = None
        if ctx.pending_violation is not None:
            viol, ctx.pending_violation = ctx.pending_violation, None
            raise viol
        for cid in sorted(exhausted):
            co = ctx.cos[cid]
            if co.life == 'active':
                # a generator that had already returned: executes nothing,
                # terminates with value None
                ctx.hits['restart_of_finished'] += 1
                co.life = 'idle'
                co.zombie = 'frame'
                co.value_due = True
                co.want_value = None
                fr['must'].discard(cid)
        if fr['must']:
            cid = min(fr['must'])
            if cid in woken:
                raise Violation('wakes_exactly_on_time',
                                f'coroutine {cid}: its wait elapsed in this '
                                f'process({dt}) but it was not advanced',
                                early=False)
            raise Violation('advanced_exactly_once_per_frame',
                            f'runnable coroutine {cid} was not advanced in '
                            f'process({dt}); ran {fr["ran"]}', times=0)
        # relative order of coroutines that stayed runnable
        prev = [c for c in ctx.last_ran
                if stay_before.get(c) == ctx.frame_no - 1 and c in fr['ran']]
        cur = [c for c in fr['ran'] if c in prev]
        if prev != cur:
            raise Violation('runnable_order_kept',
                            f'coroutines {prev} stayed runnable but ran in '
                            f'order {cur}')
        if len(prev) > 1:
            ctx.hits['order_checked'] += 1
        ctx.last_ran = list(fr['ran'])
        # release
        for co in ctx.cos:
            if co.zombie == 'frame':
                co.zombie = None
                if co.life == 'idle' and reachable(ctx.proc, co.gen):
                    raise Violation(
                        'released_by_the_frame_it_would_have_run',
                        f'coroutine {co.cid} (finished or killed) is still '
                        f'referenced by the processor after the frame in '
                        f'which it would next have run',
                        finished=co.value_due,
                        exhausted=co.seg >= len(co.script))
            elif co.zombie == 'frame+1':
                co.zombie = 'frame'

    # -- state invariant --------------------------------------------------------
    def check(self, ctx):
        obs = []
        want_state = {'idle': CoroutineState.TERMINATED,
                      'active': CoroutineState.ACTIVE,
                      'paused': CoroutineState.PAUSED}
        for co in ctx.cos:
            try:
                got = ctx.proc.state(co.gen)
            except Exception as exc:
                raise Violation('state_raised', f'{exc!r}')
            if got != want_state[co.life]:
                raise Violation('state_matches_lifecycle',
                                f'state(coroutine {co.cid}) = {got!r}, '
                                f'lifecycle says {co.life}',
                                model=co.life, got=int(got),
                                pending_release=co.zombie is not None)
            if co.promise is not None:
                if co.promise.state != got:
                    raise Violation('promise_state', f'{co.promise.state}')
                if co.value_due and co.promise.value != co.want_value:
                    raise Violation('promise_holds_return_value',
                                    f'coroutine {co.cid}: promise.value = '
                                    f'{co.promise.value!r}, expected '
                                    f'{co.want_value!r}')
            obs.append((co.life, co.seg))
        return tuple(obs)

    # -- canonical key ------------------------------------------------------------
    def key(self, ctx):
        if self.fixed:
            names = {id(co.gen): f'g{co.cid}@{co.seg}' for co in ctx.cos}
        else:
            names = {id(co.gen): co.tag() for co in ctx.cos}
        proms = {id(co.promise): ('promise', names[id(co.gen)])
                 for co in ctx.cos if co.promise is not None}

        def namer(o):
            if isinstance(o, types.GeneratorType):
                return names.get(id(o), '?gen')
            return proms.get(id(o))
        impl = canon((ctx.proc,), namer)
        model = tuple(sorted(
            (names[id(co.gen)], co.life, co.rem, repr(co.zombie),
             co.stay == ctx.frame_no, co.value_due,
             ctx.last_ran.index(co.cid) if co.cid in ctx.last_ran
             and co.stay == ctx.frame_no else -1,
             co.started_ever) for co in ctx.cos))
        return (impl, model, len(ctx.cos) if not self.fixed else 0)


# ---------------------------------------------------------------------------
# E3 family "wait-orders": many sleepers, every order of deadlines
# ---------------------------------------------------------------------------
def wait_order_cases(menu, max_n, perm_n=(), modes=('together', 'staggered')):
    """Every tuple of first waits of length <= max_n over ``menu`` (second
    wait fixed by position parity), every permutation of ``menu`` prefixes
    for the lengths in ``perm_n``; coroutines started together before the
    first frame, or one per frame."""
    import itertools
    out = []
    for mode in modes:
        for n in range(1, max_n + 1):
            for waits in itertools.product(menu, repeat=n):
                out.append((mode, waits))
        for n in perm_n:
            for waits in itertools.permutations(range(1, n + 1)):
                out.append((mode, waits))
    seen = set()
    uniq = []
    for c in out:
        if c not in seen:
            seen.add(c)
            uniq.append(c)
    return uniq


def run_wait_order_case(case):
    """Coroutine i: ``yield w_i`` (w <= 0: a plain step), then ``yield 1`` if
    i is odd, then return i.  process(1) until everything ended.  Judged per
    frame on an independent clock per coroutine: state(), the frame of
    every resume, the promise value, release."""
    mode, waits = case
    n = len(waits)
    proc = desper.CoroutineProcessor()
    log = {i: [] for i in range(n)}          # frames in which i executed
    frame = [0]

    def body(i, w):
        log[i].append(frame[0])
        yield w
        log[i].append(frame[0])
        if i % 2:
            yield 1
            log[i].append(frame[0])
        return i

    gens = [body(i, w) for i, w in enumerate(waits)]
    promises = [None] * n
    start_frame = {}
    # model: frames at which coroutine i must execute
    want = {}
    for i, w in enumerate(waits):
        s = 1 if mode == 'together' else i + 1      # first executing frame
        start_frame[i] = s
        second = s + (w if w > 0 else 1)
        frames = [s, second]
        if i % 2:
            frames.append(second + 1)
        want[i] = frames
    last = max(f[-1] for f in want.values())
    hits = collections.Counter()
    calls = 0
    if mode == 'together':
        for i, g in enumerate(gens):
            promises[i] = proc.start(g)
    for f in range(1, last + 2):
        if mode == 'staggered' and f - 1 < n:
            promises[f - 1] = proc.start(gens[f - 1])
        frame[0] = f
        proc.process(1)
        calls += 1
        sleeping = 0
        for i, g in enumerate(gens):
            if promises[i] is None:
                continue
            done = [x for x in want[i] if x <= f]
            if log[i] != done:
                raise Violation(
                    'woken_on_time',
                    f'{case}: after frame {f} coroutine {i} (first wait '
                    f'{waits[i]}) executed in frames {log[i]}, expected '
                    f'{done}', early=len(log[i]) > len(done),
                    sleepers=min(n, 6))
            st = proc.state(g)
            if f >= want[i][-1]:
                exp = CoroutineState.TERMINATED
            else:
                nxt = min(x for x in want[i] if x > f)
                exp = (CoroutineState.ACTIVE if nxt == f + 1 and
                       _plain(i, waits, want, f) else CoroutineState.PAUSED)
                sleeping += exp == CoroutineState.PAUSED
            if st != exp:
                raise Violation(
                    'state_matches_model',
                    f'{case}: after frame {f} state of coroutine {i} is '
                    f'{st}, expected {exp}', sleepers=min(n, 6))
            calls += 1
            if f >= want[i][-1]:
                if promises[i].value != i:
                    raise Violation(
                        'promise_value',
                        f'{case}: coroutine {i} ended in frame {f}, promise '
                        f'value {promises[i].value!r}')
                if reachable(proc, g):
                    raise Violation(
                        'released',
                        f'{case}: coroutine {i} ended in frame {f} and is '
                        f'still reachable from the processor')
        if sleeping >= 3:
            hits['three_or_more_sleepers'] += 1
        if sleeping >= 5:
            hits['five_or_more_sleepers'] += 1
    if any(w <= 0 for w in waits):
        hits['non_positive_wait'] += 1
    if list(waits) != sorted(waits):
        hits['deadlines_requested_out_of_order'] += 1
    return {'calls': calls, 'hits': dict(hits), 'key': repr(case)}


def _plain(i, waits, want, f):
    """True when coroutine i's pending yield (the one it sits on after frame
    f) was a plain step, not a positive wait."""
    k = len([x for x in want[i] if x <= f])     # yields taken so far
    if k == 1:
        return not waits[i] > 0
    return False        # the second yield, if any, is ``yield 1``
