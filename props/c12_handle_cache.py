"""C12 - a Handle loads its resource at most once between clears.

E1 exploration (DESIGN.md 3, C12) on the real ``Handle`` / ``ResourceMap`` /
``StaticResourceMap``: one counting handle stored at ``r/k``, the map's
static snapshot taken up front, operations = six access paths + ``clear()``,
one exploration per loaded value.  The oracle never applies ``==`` or
``bool()`` to a loaded value (identity only): some of the values have a
hostile ``__eq__`` / ``__bool__`` on purpose.
"""
import collections

from mc import env  # noqa: F401  (binds desper to the tree under test)
from mc import kernel
from mc.canon import canon
from mc.report import Violation

import desper

RULE = ('Operations: h(), m["r/k"], m["r"]["k"], s.r.k, s["r"]["k"], '
        's.get("r").get("k")() and h.clear() on one real counting Handle '
        'stored at r/k of a real ResourceMap whose static snapshot s is '
        'taken up front; everything is repeated per loaded value in {None, '
        '0, "", [], object(), __eq__ -> False, __eq__ raises, __bool__ '
        'raises}.  Parts "fixpoint/<value>" (E1): breadth-first search, '
        'states merged on the canonical key (model (accessed since clear, '
        'loads in this epoch, an earlier epoch had an access) + generic '
        'object graph of map, handle and snapshot), explored until no new '
        'state appears.  Part "histories" (no merging): every one of the '
        '7^D operation sequences of length D (all shorter histories are '
        'their prefixes), the step oracle and the state oracle evaluated '
        'after every operation.  Every operation is executed on the '
        'implementation; non-trivial = the transition / history exercised '
        'a named shortcut (cache hit on a falsy value, reload after clear, '
        'static attribute access, clear of an uncached handle, two clears '
        'in a row ...).')

VALUES = ('none', 'zero', 'empty_str', 'empty_list', 'object', 'eq_false',
          'eq_raises', 'bool_raises')
BAND = {'none': 'falsy', 'zero': 'falsy', 'empty_str': 'falsy',
        'empty_list': 'falsy', 'object': 'plain', 'eq_false': 'unusual',
        'eq_raises': 'unusual', 'bool_raises': 'unusual'}

ACCESS = ('call', 'map_composite', 'map_chained', 'static_attr',
          'static_item', 'static_get')
FAMILY = {'call': 'handle', 'map_composite': 'map', 'map_chained': 'map',
          'static_attr': 'static', 'static_item': 'static',
          'static_get': 'static'}
DEPTH = {'quick': 4, 'thorough': 6}
LETTER = dict(zip('cMmaigx', ACCESS + ('clear',)))


class EqFalse:
    def __eq__(self, other):
        return False

    __hash__ = object.__hash__


class EqRaises:
    def __eq__(self, other):
        raise RuntimeError('C12 harness: __eq__ must not be used')

    def __ne__(self, other):
        raise RuntimeError('C12 harness: __ne__ must not be used')

    __hash__ = object.__hash__


class BoolRaises:
    def __bool__(self):
        raise RuntimeError('C12 harness: __bool__ must not be used')

    def __len__(self):
        raise RuntimeError('C12 harness: __len__ must not be used')


MAKERS = {
    'none': lambda: None,
    'zero': lambda: 0,
    'empty_str': lambda: '',
    'empty_list': lambda: [],              # a fresh list per load
    'object': object,                      # a fresh object per load
    'eq_false': EqFalse,
    'eq_raises': EqRaises,
    'bool_raises': BoolRaises,
}


class CountingHandle(desper.Handle):
    """Real Handle; only ``load`` is supplied (and counts)."""

    def __init__(self, spec):
        self.hx_spec = spec
        self.hx_loads = 0           # load() calls in the current epoch
        self.hx_objs = []           # what they returned, this epoch
        self.hx_all = []            # everything ever returned (kept alive)

    def load(self):
        value = MAKERS[self.hx_spec]()
        self.hx_loads += 1
        self.hx_objs.append(value)
        self.hx_all.append(value)
        return value


class Ctx:
    pass


def _is_in(obj, seq):
    for i, x in enumerate(seq):
        if x is obj:
            return i
    return None


class HandleDriver:
    def __init__(self, spec):
        self.spec = spec
        self.name = 'fixpoint/' + spec

    def params(self):
        return dict(value=self.spec,
                    ops=list(ACCESS) + ['clear'])

    # -- construction ---------------------------------------------------
    def initial(self):
        ctx = Ctx()
        ctx.hits = collections.Counter()
        ctx.m = desper.ResourceMap()
        ctx.h = CountingHandle(self.spec)
        ctx.m['r/k'] = ctx.h
        ctx.s = ctx.m.get_static_map()
        ctx.accessed = False        # model: an access happened since clear
        ctx.epoch_obj = None        # what this epoch's accesses returned
        ctx.had_epoch = False       # some earlier epoch had an access
        ctx.last_op = None
        ctx.hist = ()
        return ctx

    def ops(self, ctx):
        return [(a,) for a in ACCESS] + [('clear',)]

    # -- the real calls -------------------------------------------------
    @staticmethod
    def _access(ctx, path):
        m, h, s = ctx.m, ctx.h, ctx.s
        if path == 'call':
            return h()
        if path == 'map_composite':
            return m['r/k']
        if path == 'map_chained':
            return m['r']['k']
        if path == 'static_attr':
            return s.r.k
        if path == 'static_item':
            return s['r']['k']
        if path == 'static_get':
            return s.get('r').get('k')()
        raise ValueError(path)

    def _features(self, path=None):
        f = dict(value=BAND[self.spec])
        if path is not None:
            f['path'] = FAMILY[path]
        return f

    def apply(self, ctx, op):
        op = tuple(op)
        kind = op[0]
        h = ctx.h
        ctx.hist = ctx.hist + (kind,)
        if kind == 'clear':
            try:
                h.clear()
            except Exception as exc:
                raise Violation('clear_raises', f'h.clear() raised {exc!r}',
                                **self._features())
            if not ctx.accessed:
                ctx.hits['clear_uncached'] += 1
            if ctx.last_op == 'clear':
                ctx.hits['clear_twice'] += 1
            if ctx.accessed:
                ctx.had_epoch = True
                ctx.hits['clear_cached'] += 1
            ctx.accessed = False
            ctx.epoch_obj = None
            h.hx_loads = 0          # harness counter: new epoch
            h.hx_objs = []
            ctx.last_op = kind
            return

        flag = self._cached(ctx, op)
        before = h.hx_loads
        try:
            got = self._access(ctx, kind)
        except Exception as exc:
            raise Violation('access_raises',
                            f'{kind} raised {type(exc).__name__}: {exc}',
                            **self._features(kind))
        loaded = h.hx_loads - before
        first = not ctx.accessed

        # cached tells whether the next access will load
        if (loaded >= 1) != (not flag):
            raise Violation(
                'cached_predicts_load',
                f'cached was {flag} before {kind} but load() ran {loaded} '
                f'time(s)', **self._features(kind))
        # loads == 1 per epoch with >= 1 access
        if h.hx_loads != 1:
            what = ('first access of the epoch' if first
                    else 'later access of the epoch')
            clause = ('reload_after_clear' if first and ctx.had_epoch
                      and h.hx_loads == 0 else 'load_once_per_epoch')
            raise Violation(
                clause, f'{kind} ({what}): load() ran {h.hx_loads} time(s) '
                f'since the last clear, expected exactly 1',
                **self._features(kind))
        # identity
        if first:
            if got is not h.hx_objs[0]:
                raise Violation(
                    'identical_object',
                    f'{kind} returned {type(got).__name__}, not the object '
                    f'load() produced', **self._features(kind))
            ctx.epoch_obj = got
        elif got is not ctx.epoch_obj:
            raise Violation(
                'identical_object',
                f'{kind} returned a different object than the earlier '
                f'accesses of this epoch', **self._features(kind))

        # named shortcuts
        if first and ctx.had_epoch:
            ctx.hits['reload_after_clear'] += 1
        elif first:
            ctx.hits['first_load'] += 1
        if not first:
            ctx.hits['cache_hit'] += 1
            if BAND[self.spec] == 'falsy':
                ctx.hits['falsy_value'] += 1
            if self.spec in ('eq_false', 'eq_raises'):
                ctx.hits['unusual_eq'] += 1
            if self.spec == 'bool_raises':
                ctx.hits['bool_raises'] += 1
        if kind == 'static_attr':
            ctx.hits['static_attr_access'] += 1
        elif FAMILY[kind] == 'static':
            ctx.hits['static_other_access'] += 1
        elif FAMILY[kind] == 'map':
            ctx.hits['map_access'] += 1
        ctx.accessed = True
        ctx.last_op = kind

    def _cached(self, ctx, op=None):
        try:
            flag = ctx.h.cached
        except Exception as exc:
            raise Violation('cached_raises', f'h.cached raised {exc!r}',
                            **self._features())
        if flag is not True and flag is not False:
            raise Violation('cached_flag', f'h.cached is {flag!r}, not a bool',
                            **self._features())
        return flag

    # -- state oracle ---------------------------------------------------
    def check(self, ctx):
        flag = self._cached(ctx)
        if flag != ctx.accessed:
            raise Violation(
                'cached_flag',
                f'h.cached is {flag} but '
                + ('an access happened since the last clear' if ctx.accessed
                   else 'no access happened since the last clear'),
                after=('clear' if ctx.last_op == 'clear' else
                       'start' if ctx.last_op is None else 'access'),
                **self._features())
        return (flag, ctx.h.hx_loads)

    # -- canonical key --------------------------------------------------
    def key(self, ctx):
        h = ctx.h

        def namer(o):
            i = _is_in(o, h.hx_objs)
            if i is not None:
                return f'value{i}'
            if _is_in(o, h.hx_all) is not None:
                return 'stale-value'
            return None

        graph = canon([ctx.m, ctx.h, ctx.s], namer=namer,
                      skip_attrs=('hx_all', 'hx_spec'))
        return ((ctx.accessed, h.hx_loads, ctx.had_epoch), graph)


def drivers(tier):
    d = {}
    for spec in VALUES:
        drv = HandleDriver(spec)
        d[drv.name] = (drv, dict(max_depth=12))
    return d


# -- every history of length D, no state merging -------------------------
def history_cases(depth):
    import itertools
    words = [''.join(w) for w in itertools.product(LETTER, repeat=depth)]
    return [(spec, w) for spec in VALUES for w in words]


def run_history(case):
    spec, word = case
    driver = HandleDriver(spec)
    ctx = driver.initial()
    driver.check(ctx)
    for letter in word:
        driver.apply(ctx, (LETTER[letter],))
        driver.check(ctx)
    return {'calls': len(word), 'hits': dict(ctx.hits), 'key': case}


def run(tier, rep):
    rep.rule = RULE
    rep.assumptions += [
        'fresh mutable / object values are created anew by every load(), so '
        'a second load in an epoch is visible both in the counter and in the '
        'identity of the returned object; None, 0 and "" are singletons and '
        'are decided by the counter alone',
        'the oracle compares loaded values by identity only (never == or '
        'truth value)',
        'the "histories" part is bounded by its length D (quick 4, '
        'thorough 6); the fixpoint parts carry the unbounded claim '
        '(conditional on the key argument of DESIGN.md 2.5)',
        'Loop.switch(clear_*) (desper/loop.py, second anchor) reaches '
        'Handle.clear() and is exercised by C13, not here',
    ]
    rep.require_hits(falsy_value=1, reload_after_clear=1,
                     static_attr_access=1, cache_hit=1, unusual_eq=1,
                     bool_raises=1, clear_uncached=1)
    closed = {}
    for name, (driver, kw) in drivers(tier).items():
        stats = kernel.explore(driver, rep, part=name,
                               params=driver.params(), **kw)
        closed[driver.spec] = dict(states=stats['states'],
                                   depth=stats['depth'])
    rep.extra['fixpoint_closed'] = closed
    depth = DEPTH[tier]
    cases = history_cases(depth)
    kernel.enumerate_cases(run_history, cases, rep, 'histories',
                           params=dict(length=depth, ops=''.join(LETTER),
                                       letters=LETTER, values=list(VALUES)),
                           chunk=max(200, len(cases) // 400))


def replay(rec):
    if rec['part'] == 'histories':
        try:
            run_history(tuple(rec['case']))
        except Violation as v:
            return v
        return None
    ds = drivers('thorough')
    if rec['part'] in ds:
        return kernel.replay_case(ds[rec['part']][0], rec['case'])
    raise SystemExit(f'unknown part {rec["part"]}')
