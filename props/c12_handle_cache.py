"""C12 - a Handle loads its resource at most once between clears.

E1 exploration (DESIGN.md 3, C12) on the real ``Handle`` / ``ResourceMap`` /
``StaticResourceMap`` / ``WorldFromFileHandle``: one counting handle stored
at ``r/k``, the map's static snapshot taken up front, operations = eight
access paths + ``clear()``, one exploration per (loaded value, loader).  The
oracle never applies ``==`` or ``bool()`` to a loaded value (identity only):
some of the values have a hostile ``__eq__`` / ``__bool__`` on purpose.

Access paths 7 and 8 reach the resource from a world description file: two
``WorldFromFileHandle`` stored in the same map (``w/one``: one component
taking ``$res{r.k}``; ``w/two``: two components, one taking it as positional
and one as keyword argument).  The access drops the world the world handle
holds, loads the world through the map and returns what the component(s)
received.

Loader ``raise_first``: the first ``load()`` call after every ``clear()``
(and the very first one) raises, the next one succeeds (a file that is not
there yet).  The failed access must hand an exception to its caller and must
leave the handle uncached.

A history case is ``(value, word)`` (loader ``ok``, the form of older replay
records), ``(value, loader, word)`` or ``(value, loader, word, shape)``.

Map shape ``layered`` (parts ``fixpoint-layered/...``, ``histories-layered``):
the map is filled by a real ``DirectoryResourcePopulator`` (nesting of
conflicting handles on) applied twice to a directory holding the one file
``r/k``, so that two counting handles live under the one name: the newer one
is the resource ``r/k`` (every access path by name must reach it and it
alone), the older one is shadowed and is driven by two more operations
(``shadow_call``, ``shadow_clear``, called on the object the populator rule
handed out).  Each of the two handles has its own epochs; an operation that
addresses one of them never loads the other one nor delivers an object the
other one loaded.

Loaded value ``finaliser``: a resource whose ``__del__`` looks at its own
handle (``if handle.cached: handle()``).  The harness keeps weak references
only, the handle's cache is the one strong reference, so CPython runs the
finaliser *inside* ``Handle.clear()``; what it saw is judged after the
operation (it must not see cached == True together with an access that
returns something no load() produced).

Parts ``loop-fixpoint/<loop>/<n>`` and ``loop-histories/<n>``: a real
``SimpleLoop`` (dummy time function, never started) / a bare ``Loop``
subclass over n counting handles whose ``load()`` returns a fresh real
``World``; operations ``loop.switch(h_i, clear_current, clear_next)`` for all
four flag combinations, ``h_i()``, ``h_i.clear()`` and, on the SimpleLoop
(the loop that catches ``SwitchWorld``), the switch *request*
``desper.switch(h_i, clear_current, clear_next, from_world=
loop.current_world)`` whose ``SwitchWorld`` the harness hands to
``loop.switch`` exactly like the ``except`` clause of ``SimpleLoop.loop``.  A
request may clear and load its target more than once (``desper.switch`` and
``Loop.switch`` share the work), so the handles note their ``load()`` /
``clear()`` calls in order and the request is judged on that order.  A loop
history case is ``(loop, n, word)`` over the letters of
``loop_letters(n, loop)``.

Names (parts ``fixpoint-names/<names>/...``, ``histories-names``): the
resource is stored as ``R/K`` for the (R, K) of ``NAMES`` - handle names that
are no identifiers (``k.png``, ``1up``, ``level-1``), start with ``__``
(``__k__``, ``__k``), are a keyword (``class``), with or without a bystander
handle of the other kind in the same sub-map, and a sub-map name that is no
identifier (``r.d``).  A static map keeps such names in its ``__dict__``
instead of a slot.  Operations: the seven without the world files (attribute
access is spelled ``getattr(getattr(s, R), K)``).  A history case of these
parts is ``(value, loader, word, 'plain', names)``.

Parts ``loop-fixpoint/<loop>/<n>/equal`` and ``loop-histories-equal/<n>``:
the loop parts again with handles that compare equal by value (all handles of
the part are ``==`` one another and hash alike, as two ``@dataclass`` handles
for one file do); every handle still owns its cache.  Case ``(loop, n, word,
'equal')``.

The driver reads handles through ``cached``, ``__call__``, ``clear()``,
``load()`` and the map / static-map / world-file / loop access paths only;
the private representation of ``Handle`` enters the state key through the
generic object-graph walk alone, and a representation the walk cannot
describe degrades the key (hit ``key_without_object_graph``), never the run.
"""
import atexit
import collections
import json
import os
import shutil
import sys
import tempfile
import types
import weakref

from mc import env  # noqa: F401  (binds desper to the tree under test)
from mc import kernel
from mc.canon import canon, CanonError
from mc.report import Violation, HarnessError, Lookalike

import desper
from desper.model.world import object_from_string

RULE = ('Operations: h(), m["r/k"], m["r"]["k"], s.r.k, s["r"]["k"], '
        's.get("r").get("k")(), world-file w/one, world-file w/two and '
        'h.clear() on one real counting Handle stored at r/k of a real '
        'ResourceMap whose static snapshot s is taken up front.  The two '
        'world-file accesses: a real WorldFromFileHandle stored in the same '
        'map at w/one (JSON file with one component taking "$res{r.k}") / '
        'w/two (two components in one file, one taking "$res{r.k}" as '
        'positional, one as keyword argument); the access clears the world '
        'handle, loads the world with m["w/one"] and returns the object(s) '
        'the component(s) received (then clears the world handle again).  '
        'Everything is repeated per loaded value in {None, 0, "", [], '
        'object(), __eq__ -> False, __eq__ raises, __bool__ raises, '
        '__eq__ -> True for anything (and __ne__ -> False), __eq__ / __ne__ '
        '-> an object whose __bool__ raises (unhashable, array-like), '
        '"finaliser" = an object whose __del__ reads cached of the handle '
        'it came from and, if True, calls the handle; the handle holds the '
        'only strong reference, so the finaliser runs inside clear()} x '
        'loader in {ok, raise_first}; raise_first = the first load() call of every '
        'clear-delimited epoch raises, the next one succeeds.  Parts '
        '"fixpoint/<value>[/raise_first]" (E1): breadth-first search, states '
        'merged on the canonical key (model (successful access since clear, '
        'failed access since clear, loads in this epoch, an earlier epoch '
        'had an access) + generic object graph of map, handle, world handles '
        'and snapshot), explored until no new state appears.  Part '
        '"histories" (no merging): every one of the 9^D operation sequences '
        'of length D (all shorter histories are their prefixes) per value '
        'and loader, the step oracle and the state oracle evaluated after '
        'every operation; thorough adds part "histories-basic": every one of '
        'the 7^6 sequences over the operations without the world-file '
        'accesses, per value and loader.  Every operation is executed on the '
        'implementation; non-trivial = the transition / history exercised a '
        'named shortcut (cache hit on a falsy value, reload after clear, '
        'static attribute access, clear of an uncached handle, two clears in '
        'a row, load that raises, access after a failed load, reference '
        'from a world file, finaliser running inside clear() ...).  '
        'Map shape "layered" (parts "fixpoint-layered/<value>[/raise_first]" '
        '(E1, to fixpoint) and "histories-layered": every one of the 11^D '
        'sequences, D = 3 quick / 4 thorough, per value and loader): the '
        'map is filled by a real DirectoryResourcePopulator('
        'nest_on_conflict=True) with the rule r -> counting handle, applied '
        'twice to a directory holding the single file r/k: two counting '
        'handles under the one name r/k, the second one is the resource '
        'r/k, the first one is shadowed; world handles and the static '
        'snapshot as before; two more operations shadow() and '
        'shadow.clear() on the shadowed handle.  Both handles carry their '
        'own model (states merged on both models + object graph); after '
        'every operation additionally: load() of the handle that was not '
        'addressed did not run and no delivered object is one it loaded, '
        'cached of both handles == accessed since its own last clear.  '
        'Names (map shape plain): parts "fixpoint-names/<names>/<value>'
        '[/raise_first]" (E1 to fixpoint; quick: value object, '
        'thorough: every value) and "histories-names" (every one of the '
        '7^D sequences over the operations without the world-file '
        'accesses, D = 3 quick / 4 thorough, per value, loader and names): '
        'the handle is stored as R/K with (R, K[, bystander]) in dotted '
        '(r, k.png), digit (r, 1up), dash (r, level-1), dunder (r, __k__), '
        'private (r, __k), keyword (r, class), mixed (r, k.png, bystander '
        'k), mixed_slot (r, k, bystander k.png), map_dotted (r.d, k); the '
        'access paths are m["R/K"], m[R][K], getattr(getattr(s, R), K), '
        's[R][K], s.get(R).get(K)(); same oracle, plus: load() of the '
        'bystander handle never runs.  '
        'Loop parts: a real SimpleLoop built with a dummy time function '
        '(never started) and a bare Loop subclass (only loop() supplied), n '
        'counting handles whose load() returns a fresh World(); operations '
        'h_i(), h_i.clear() and loop.switch(h_i, clear_current, clear_next) '
        'for the four flag combinations (4n + 2n letters); on the '
        'SimpleLoop 4n more letters: the switch request desper.switch(h_i, '
        'clear_current, clear_next, from_world=loop.current_world) whose '
        'SwitchWorld is handed to loop.switch(ex.world_handle, '
        'ex.clear_current, ex.clear_next) as SimpleLoop.loop does.  Parts '
        '"loop-fixpoint/<loop>/<n>" (E1, n = 1, 2; thorough also 3): '
        'breadth-first search to fixpoint, states merged on (handle last '
        'switched to, was it cleared since, per handle: accessed since its '
        'last clear / had an earlier epoch) + generic object graph of loop, '
        'handles and worlds.  Parts "loop-histories/<n>" (no merging): every '
        'sequence of length D over the alphabet of each loop (quick n=2 '
        'D=4: 20^4 + 12^4; thorough n=2 D=5: 20^5 + 12^5 and n=3 D=4: 30^4 '
        '+ 18^4).  '
        'After every operation: load() calls of every handle during the '
        'operation == what the documented order (clear the handle being '
        'left, clear the target, then access the target) asks for, i.e. '
        'exactly one load since the last clear (by clear(), clear_current or '
        'clear_next) for a handle accessed since, none otherwise; cached of '
        'every handle == accessed since its last clear; h_i() returns the '
        'object of its epoch; loop.current_world_handle is the handle last '
        'switched to, evaluating it while cached does not load and returns '
        'the object of its epoch, which is loop.current_world unless the '
        'handle was cleared from outside since the switch.  A switch '
        'request is judged on the order of the load() / clear() calls of '
        'every handle during the operation: never two load() of a handle '
        'without a clear() of it in between (counting the load of its '
        'running epoch), no load() of a handle that is not the target, a '
        'target that held a world and was to be cleared (clear_next, or '
        'clear_current when it is the handle being left) is cleared and '
        'loaded again, a target that was not to be cleared is loaded once '
        'if it was not cached and not touched otherwise; the state oracle '
        'then asks cached == False of a left handle that was to be '
        'cleared.  Parts "loop-fixpoint/<loop>/<n>/equal" (n = 2; thorough '
        'also 3) and "loop-histories-equal/<n>" (quick n=2 D=3: 20^3 + '
        '12^3; thorough n=2 D=4 and n=3 D=3): the same operations and '
        'oracle over handles of a subclass with value equality (all '
        'handles of the part are == one another, equal hashes, distinct '
        'objects with their own cache).')

VALUES = ('none', 'zero', 'empty_str', 'empty_list', 'object', 'eq_false',
          'eq_raises', 'bool_raises', 'eq_true', 'eq_nonbool', 'finaliser')
BAND = {'none': 'falsy', 'zero': 'falsy', 'empty_str': 'falsy',
        'empty_list': 'falsy', 'object': 'plain', 'eq_false': 'unusual',
        'eq_raises': 'unusual', 'bool_raises': 'unusual',
        'eq_true': 'unusual', 'eq_nonbool': 'unusual',
        'finaliser': 'finaliser'}
LOADERS = ('ok', 'raise_first')

ACCESS = ('call', 'map_composite', 'map_chained', 'static_attr',
          'static_item', 'static_get', 'world_one', 'world_two')
# map shape 'layered' only: the handle shadowed under the same name
SHADOW_OPS = ('shadow_call', 'shadow_clear')
FAMILY = {'call': 'handle', 'map_composite': 'map', 'map_chained': 'map',
          'static_attr': 'static', 'static_item': 'static',
          'static_get': 'static', 'world_one': 'world', 'world_two': 'world',
          'shadow_call': 'shadow'}
# shape of the map the handle is stored in: 'plain' = m['r/k'] = h;
# 'layered' = a real DirectoryResourcePopulator (nest_on_conflict) run twice
# over a directory holding the file r/k: two handles under the one name,
# the newer one is the resource r/k, the older one is shadowed
SHAPES = ('plain', 'layered')
# length of the histories over the full (9 letter) alphabet / over the
# alphabet without the world-file accesses (7 letters, thorough only) /
# over the 11 letters of the layered shape
DEPTH = {'quick': 4, 'thorough': 5}
BASIC_DEPTH = 6
LAYERED_DEPTH = {'quick': 3, 'thorough': 4}
# names of the sub-map and of the handle in it (map shape 'plain'): (map
# name R, handle name K, name of a bystander handle in the same sub-map or
# None).  StaticResourceMap stores identifier names in __slots__ and every
# other name (not an identifier, or starting with '__') in the instance
# __dict__: the access paths are R/K, [R][K], getattr(getattr(s, R), K),
# s[R][K], s.get(R).get(K)().  'plain' is what every other part uses.
NAMES = {
    'plain': ('r', 'k', None),
    'dotted': ('r', 'k.png', None),         # a file name with its extension
    'digit': ('r', '1up', None),
    'dash': ('r', 'level-1', None),
    'dunder': ('r', '__k__', None),
    'private': ('r', '__k', None),          # would be mangled as a slot
    'keyword': ('r', 'class', None),        # identifier, not writable as s.r.x
    'mixed': ('r', 'k.png', 'k'),           # slots and __dict__ in one map
    'mixed_slot': ('r', 'k', 'k.png'),      # ... the resource in the slot
    'map_dotted': ('r.d', 'k', None),       # the sub-map is the odd name
}
NAME_CLASS = {'dotted': 'key_nonslot', 'digit': 'key_nonslot',
              'dash': 'key_nonslot', 'dunder': 'key_nonslot',
              'private': 'key_nonslot', 'mixed': 'key_nonslot',
              'keyword': 'key_slot', 'mixed_slot': 'key_slot',
              'map_dotted': 'map_nonslot'}
ODD_NAMES = tuple(n for n in NAMES if n != 'plain')
# values of the fixpoint parts of the odd names (the histories-names part
# takes every value)
NAMES_FIXPOINT_VALUES = {'quick': ('object',), 'thorough': None}
NAMES_DEPTH = {'quick': 3, 'thorough': 4}
FULL_LETTERS = 'cMmaigwWx'
BASIC_LETTERS = 'cMmaigx'
LAYERED_LETTERS = FULL_LETTERS + 'sX'
LETTER = dict(zip(LAYERED_LETTERS, ACCESS + ('clear',) + SHADOW_OPS))

# -- the world-file access paths -------------------------------------------
MOD = 'c12h_mod'             # in-memory module: nothing real has this name
WORLD_KEYS = {'world_one': 'w/one', 'world_two': 'w/two'}
WORLD_TAGS = {'world_one': ['a'], 'world_two': ['a', 'b']}
WORLD_FILES = {
    'world_one': {'entities': [
        {'components': [{'type': MOD + '.Comp',
                         'args': ['a', '$res{r.k}']}]}]},
    'world_two': {'entities': [
        {'components': [{'type': MOD + '.Comp',
                         'args': ['a', '$res{r.k}']}]},
        {'components': [{'type': MOD + '.Comp', 'args': ['b'],
                         'kwargs': {'res': '$res{r.k}'}}]}]},
}


class Comp:
    """Component of the world files: records what it was built with."""

    def __init__(self, tag, *args, **kwargs):
        self.tag = tag
        self.args = args
        self.kwargs = kwargs


_ENV = None                  # what _ensure_env() created
_ATEXIT = []


def _ensure_env():
    """The process-wide things the world-file accesses and the layered map
    shape need: the two JSON files and the directory tree ``pop/r/k`` in a
    private directory, the module ``c12h_mod`` in sys.modules.
    Created once (before the kernel forks its workers, which inherit it),
    removed by ``_teardown_env()`` in the process that created it."""
    global _ENV
    if _ENV is not None:
        return _ENV
    if MOD in sys.modules:
        raise HarnessError(f'{MOD} is already in sys.modules')
    base = '/dev/shm' if os.path.isdir('/dev/shm') and os.access(
        '/dev/shm', os.W_OK) else None
    directory = tempfile.mkdtemp(prefix='c12_worlds_', dir=base)
    files = {}
    for path, description in WORLD_FILES.items():
        files[path] = os.path.join(directory, path + '.json')
        with open(files[path], 'w') as fout:
            json.dump(description, fout)
    # map shape 'layered': the directory tree the populator walks (one
    # file, so that no directory listing order is involved)
    pop = os.path.join(directory, 'pop')
    os.makedirs(os.path.join(pop, 'r'))
    with open(os.path.join(pop, 'r', 'k'), 'w') as fout:
        fout.write('C12 harness: the file behind the resource r/k\n')
    module = types.ModuleType(MOD)
    module.Comp = Comp
    sys.modules[MOD] = module
    object_from_string.cache_clear()
    _ENV = dict(pid=os.getpid(), dir=directory, files=files, pop=pop)
    if not _ATEXIT:
        _ATEXIT.append(True)
        atexit.register(_teardown_env)
    return _ENV


def _teardown_env():
    global _ENV
    made, _ENV = _ENV, None
    if made is None or made['pid'] != os.getpid():
        return                # nothing made / a forked worker: not the owner
    sys.modules.pop(MOD, None)
    object_from_string.cache_clear()
    shutil.rmtree(made['dir'], ignore_errors=True)


class EqFalse:
    def __eq__(self, other):
        return False

    __hash__ = object.__hash__


class EqRaises:
    def __eq__(self, other):
        raise RuntimeError('C12 harness: __eq__ must not be used')

    def __ne__(self, other):
        raise RuntimeError('C12 harness: __ne__ must not be used')

    __hash__ = object.__hash__


class BoolRaises:
    def __bool__(self):
        raise RuntimeError('C12 harness: __bool__ must not be used')

    def __len__(self):
        raise RuntimeError('C12 harness: __len__ must not be used')


class EqTrue:
    """Wildcard: equal to anything (like unittest.mock.ANY)."""

    def __eq__(self, other):
        return True

    def __ne__(self, other):
        return False

    __hash__ = object.__hash__


class NoTruth:
    """What ``EqNonBool() == x`` gives: an object without a truth value
    (the mask of an element-wise comparison)."""

    def __bool__(self):
        raise ValueError('C12 harness: the truth value of an element-wise '
                         'comparison is ambiguous')


class EqNonBool:
    """Array-like: == / != are element-wise, unhashable."""

    def __eq__(self, other):
        return NoTruth()

    def __ne__(self, other):
        return NoTruth()

    __hash__ = None


class FinaliserValue:
    """Resource whose finaliser looks at the handle it came from, the way
    an asset tracker / leak reporter does: ``if handle.cached: handle()``
    (never forces a load).  The handle is known through a weak reference and
    the harness keeps weak references only, so the handle's cache is the one
    strong reference and CPython runs ``__del__`` inside ``Handle.clear()``.
    What the finaliser saw is appended to ``handle.hx_fin`` (it cannot
    raise) and judged by ``HandleDriver._finaliser_records``."""

    def __init__(self, handle, token):
        self.token = token
        self.href = weakref.ref(handle)

    def __del__(self):
        h = self.href()
        if h is None:
            return            # the whole harness context is garbage
        rec = dict(token=self.token, inside=h.hx_in_clear)
        try:
            calls0 = h.hx_calls
            flag = h.cached
            rec['cached'] = flag if type(flag) is bool else repr(flag)
            if flag is True:
                got = h()
                rec['loads'] = h.hx_calls - calls0
                if isinstance(got, FinaliserValue) and got.href() is h:
                    rec['got'] = ['loaded', got.token]
                else:
                    rec['got'] = ['never_loaded', type(got).__name__]
                del got
        except Exception as exc:
            rec['raised'] = f'{type(exc).__name__}: {exc}'
        h.hx_fin.append(rec)


MAKERS = {
    'none': lambda: None,
    'zero': lambda: 0,
    'empty_str': lambda: '',
    'empty_list': lambda: [],              # a fresh list per load
    'object': object,                      # a fresh object per load
    'eq_false': EqFalse,
    'eq_raises': EqRaises,
    'bool_raises': BoolRaises,
    'eq_true': EqTrue,
    'eq_nonbool': EqNonBool,
    # 'finaliser': FinaliserValue(handle, token), see CountingHandle.load
}


class LoadFailed(Lookalike):
    """What the raise_first loader raises (takes one message, like the
    OSError / ValueError of a real file loader)."""


class CountingHandle(desper.Handle):
    """Real Handle; only ``load`` is supplied (and counts)."""

    def __init__(self, spec, loader='ok'):
        self.hx_spec = spec
        self.hx_loader = loader
        self.hx_attempts = 0        # load() calls in the current epoch ...
        self.hx_failed = 0          # ... that raised
        self.hx_loads = 0           # ... that returned
        # what they returned, this epoch (value 'finaliser': weak
        # references, the handle must hold the only strong one)
        self.hx_objs = []
        self.hx_all = []            # everything ever returned (kept alive;
        #                             'finaliser': nothing)
        self.hx_calls = 0           # load() calls ever (never reset)
        self.hx_in_clear = False    # the harness is inside h.clear()
        self.hx_fin = []            # what the finalisers observed

    def load(self):
        self.hx_attempts += 1
        self.hx_calls += 1
        if self.hx_loader == 'raise_first' and self.hx_attempts == 1:
            self.hx_failed += 1
            raise LoadFailed('C12 harness: the resource is not there yet')
        self.hx_loads += 1
        if self.hx_spec == 'finaliser':
            value = FinaliserValue(self, self.hx_calls)
            self.hx_objs.append(weakref.ref(value))
            return value
        value = MAKERS[self.hx_spec]()
        self.hx_objs.append(value)
        self.hx_all.append(value)
        return value

    def hx_index(self, obj):
        """Position of obj among this epoch's loaded objects (identity)."""
        for i, entry in enumerate(self.hx_objs):
            if _same(entry, obj):
                return i
        return None


class Ctx:
    pass


class Track:
    """Reference model of one handle: what the driver knows about its
    current clear-delimited epoch."""

    def __init__(self, handle, role):
        self.h = handle
        self.role = role            # 'named' (the resource r/k) / 'shadow'
        self.accessed = False       # an access returned since clear
        self.failed = False         # an access failed since clear
        self.epoch_obj = None       # what this epoch's accesses returned
        #                             (an entry of h.hx_objs, see _same)
        self.fin_seen = 0           # finaliser records already judged
        self.had_epoch = False      # some earlier epoch had an access

    def model(self):
        return (self.accessed, self.failed, self.h.hx_loads, self.had_epoch)


def _same(entry, obj):
    """Is obj the loaded object remembered as entry (the object itself, or
    a weak reference to it for the value kind 'finaliser')?"""
    if isinstance(entry, weakref.ref):
        return entry() is obj
    return entry is obj


def _is_in(obj, seq):
    for i, x in enumerate(seq):
        if x is obj:
            return i
    return None


def part_name(spec, loader, shape='plain', names='plain'):
    if names != 'plain':
        return f'fixpoint-names/{names}/' + spec \
            + ('' if loader == 'ok' else '/' + loader)
    return ('fixpoint/' if shape == 'plain' else f'fixpoint-{shape}/') \
        + spec + ('' if loader == 'ok' else '/' + loader)


class HandleDriver:
    def __init__(self, spec, loader='ok', shape='plain', names='plain'):
        if spec not in VALUES or loader not in LOADERS \
                or shape not in SHAPES or names not in NAMES \
                or (names != 'plain' and shape != 'plain'):
            raise HarnessError(f'unknown value / loader / shape / names '
                               f'{spec!r} {loader!r} {shape!r} {names!r}')
        self.spec = spec
        self.loader = loader
        self.shape = shape
        self.names = names
        self.name = part_name(spec, loader, shape, names)
        if names != 'plain':
            # the world files spell the reference "$res{r.k}" (and a '.' in
            # a name cannot be written there): no world-file accesses
            self.alphabet = tuple(LETTER[x] for x in BASIC_LETTERS)
        else:
            self.alphabet = ACCESS + ('clear',) + (
                SHADOW_OPS if shape == 'layered' else ())

    def params(self):
        d = dict(value=self.spec, loader=self.loader, ops=list(self.alphabet))
        if self.shape != 'plain':
            d['shape'] = self.shape
        if self.names != 'plain':
            R, K, sib = NAMES[self.names]
            d['names'] = dict(config=self.names, map=R, handle=K,
                              bystander=sib)
        return d

    # -- construction ---------------------------------------------------
    def initial(self):
        made = _ensure_env()
        ctx = Ctx()
        ctx.hits = collections.Counter()
        ctx.m = desper.ResourceMap()
        ctx.R, ctx.K, sibling = NAMES[self.names]
        ctx.sibling = None
        if self.shape == 'plain':
            ctx.h = CountingHandle(self.spec, self.loader)
            ctx.m[f'{ctx.R}/{ctx.K}'] = ctx.h
            ctx.tracks = [Track(ctx.h, 'named')]
            if sibling is not None:
                # a bystander in the same sub-map: never addressed, so its
                # load() never runs (state oracle)
                ctx.sibling = CountingHandle(self.spec, 'ok')
                ctx.m[f'{ctx.R}/{sibling}'] = ctx.sibling
        else:
            # two handles under the one name r/k, the way desper documents
            # it: a populator that nests conflicting handles, applied twice.
            # "The new one will become the default value, but it will always
            # be possible to retrieve the shadowed one."
            created = []

            def factory(filename):
                created.append(CountingHandle(self.spec, self.loader))
                return created[-1]

            populator = desper.DirectoryResourcePopulator(
                made['pop'], nest_on_conflict=True)
            populator.add_rule('r', factory)
            populator(ctx.m)
            populator(ctx.m)
            if len(created) != 2:
                raise HarnessError(
                    f'the populator instantiated {len(created)} handles for '
                    'the one file r/k in two runs, the layered shape needs 2')
            ctx.h = created[1]
            ctx.tracks = [Track(created[1], 'named'),
                          Track(created[0], 'shadow')]
        ctx.t = ctx.tracks[0]
        ctx.ts = ctx.tracks[1] if len(ctx.tracks) > 1 else None
        ctx.worlds = {}
        for path, key in (WORLD_KEYS.items() if self.names == 'plain'
                          else ()):
            wh = desper.WorldFromFileHandle(made['files'][path])
            ctx.m[key] = wh
            # harness: the world handle never keeps a world between two
            # operations, and looks the same before and after its first use
            wh.clear()
            ctx.worlds[path] = wh
        ctx.s = ctx.m.get_static_map()
        ctx.last_op = None
        ctx.last_base = None
        ctx.last_track = ctx.t
        ctx.last_failed = False
        ctx.hist = ()
        return ctx

    def ops(self, ctx):
        return [(a,) for a in self.alphabet]

    # -- the real calls -------------------------------------------------
    def _access(self, ctx, path):
        """-> list of the objects the access delivered (one, or one per
        reference of the world file)."""
        m, h, s = ctx.m, ctx.h, ctx.s
        R, K = ctx.R, ctx.K
        if path == 'call':
            return [h()]
        if path == 'shadow_call':
            return [ctx.ts.h()]
        if path == 'map_composite':
            return [m[f'{R}/{K}']]
        if path == 'map_chained':
            return [m[R][K]]
        if path == 'static_attr':
            if self.names == 'plain':
                return [s.r.k]
            return [getattr(getattr(s, R), K)]
        if path == 'static_item':
            return [s[R][K]]
        if path == 'static_get':
            return [s.get(R).get(K)()]
        if path in WORLD_KEYS:
            wh = ctx.worlds[path]
            wh.clear()
            try:
                world = m[WORLD_KEYS[path]]
                comps = sorted((c for _, c in world.get(Comp)),
                               key=lambda c: c.tag)
            finally:
                wh.clear()
            tags = [c.tag for c in comps]
            if tags != WORLD_TAGS[path]:
                raise Violation(
                    'world_reference_delivered',
                    f'{path}: the loaded world holds the components {tags}, '
                    f'the file lists {WORLD_TAGS[path]}',
                    **self._features(path))
            out = []
            for c in comps:
                received = list(c.args) + [c.kwargs[k]
                                           for k in sorted(c.kwargs)]
                # harness: the discarded world is cyclic garbage; it must
                # not keep the resource alive until the collector runs
                c.args, c.kwargs = (), {}
                if len(received) != 1:
                    raise Violation(
                        'world_reference_delivered',
                        f'{path}: component {c.tag} received '
                        f'{len(c.args)} positional and {sorted(c.kwargs)} '
                        'keyword arguments besides its tag, the file gives '
                        'it one "$res{r.k}"', **self._features(path))
                out.append(received[0])
            return out
        raise ValueError(path)

    def _features(self, path=None):
        f = dict(value=BAND[self.spec])
        if path is not None:
            f['path'] = FAMILY[path]
        if self.names != 'plain':
            f['names'] = NAME_CLASS[self.names]
        return f

    def _hit(self, ctx, t, name):
        """Named shortcuts of the shadowed handle are counted apart."""
        ctx.hits[name if t.role == 'named' else 'shadow_' + name] += 1

    def _others_untouched(self, ctx, t, kind, calls0, objs):
        """Two handles under one name (shape 'layered'): an operation that
        addresses one of them never runs load() of the other one and never
        delivers an object the other one loaded."""
        what = ('the resource r/k' if t.role == 'named'
                else 'the shadowed handle')
        for other, before in calls0:
            whom = ('the handle shadowed under the same name'
                    if other.role == 'shadow' else
                    'the handle that is the resource r/k')
            if other.h.hx_calls != before:
                raise Violation(
                    'same_handle_every_path',
                    f'{kind} addresses {what} and load() of {whom} ran '
                    f'{other.h.hx_calls - before} time(s)',
                    **self._features(kind if kind in FAMILY else None))
            if self.spec in ('none', 'zero', 'empty_str'):
                continue        # singletons: every handle loads the same one
            for got in objs or ():
                if other.h.hx_index(got) is not None \
                        or _is_in(got, other.h.hx_all) is not None:
                    raise Violation(
                        'same_handle_every_path',
                        f'{kind} addresses {what} and returned an object '
                        f'loaded by {whom}', **self._features(kind))

    def apply(self, ctx, op):
        op = tuple(op)
        kind = op[0]
        if kind not in self.alphabet:
            raise HarnessError(f'unknown operation {op!r}')
        t = ctx.ts if kind in SHADOW_OPS else ctx.t
        base = 'clear' if kind in ('clear', 'shadow_clear') else kind
        h = t.h
        ctx.hist = ctx.hist + (kind,)
        calls0 = [(o, o.h.hx_calls) for o in ctx.tracks if o is not t]
        if base == 'clear':
            h.hx_in_clear = True
            try:
                h.clear()
            except Exception as exc:
                raise Violation('clear_raises', f'h.clear() raised {exc!r}',
                                **self._features())
            finally:
                h.hx_in_clear = False
            self._finaliser_records(ctx)
            self._others_untouched(ctx, t, kind, calls0, None)
            if not t.accessed:
                self._hit(ctx, t, 'clear_uncached')
            if ctx.last_op == kind:
                self._hit(ctx, t, 'clear_twice')
            if t.failed and not t.accessed:
                self._hit(ctx, t, 'clear_after_failed_load')
            if t.accessed:
                t.had_epoch = True
                self._hit(ctx, t, 'clear_cached')
                if any(o.accessed for o, _ in calls0):
                    ctx.hits['layered_clear_one_of_two_cached'] += 1
            t.accessed = False
            t.failed = False
            t.epoch_obj = None
            h.hx_attempts = 0       # harness counters: new epoch
            h.hx_failed = 0
            h.hx_loads = 0
            h.hx_objs = []
            ctx.last_op = kind
            ctx.last_base = base
            ctx.last_track = t
            ctx.last_failed = False
            return

        flag = self._cached(ctx, t)
        loads0, attempts0, failed0 = h.hx_loads, h.hx_attempts, h.hx_failed
        raised = None
        objs = None
        try:
            objs = self._access(ctx, kind)
        except Violation:
            raise
        except Exception as exc:
            raised = exc
        loaded = h.hx_loads - loads0
        attempts = h.hx_attempts - attempts0
        failed = h.hx_failed - failed0
        first = not t.accessed
        self._finaliser_records(ctx)
        self._others_untouched(ctx, t, kind, calls0, objs)

        # cached tells whether the next access will load
        if (attempts >= 1) != (not flag):
            raise Violation(
                'cached_predicts_load',
                f'cached was {flag} before {kind} but load() ran {attempts} '
                f'time(s)', **self._features(kind))

        if failed:
            # the loader raised: its exception belongs to the caller, and
            # nothing was loaded, so nothing is cached (state oracle)
            if raised is None:
                raise Violation(
                    'load_exception_reaches_caller',
                    f'load() raised during {kind} but the access returned '
                    'normally', **self._features(kind))
            if attempts != 1 or loaded:
                raise Violation(
                    'load_once_per_epoch',
                    f'{kind}: load() raised and the same access called it '
                    f'{attempts} time(s) in all', **self._features(kind))
            self._hit(ctx, t, 'load_raises_once')
            if t.had_epoch:
                self._hit(ctx, t, 'failed_load_after_clear')
            if kind == 'static_attr':
                ctx.hits['failed_load_static_attr'] += 1
            if FAMILY[kind] == 'world':
                ctx.hits['failed_load_world_file'] += 1
            t.failed = True
            ctx.last_op = kind
            ctx.last_base = base
            ctx.last_track = t
            ctx.last_failed = True
            return
        if raised is not None:
            raise Violation('access_raises',
                            f'{kind} raised {type(raised).__name__}: '
                            f'{raised}', **self._features(kind))

        # loads == 1 per epoch with >= 1 access
        if h.hx_loads != 1:
            what = ('first access of the epoch' if first
                    else 'later access of the epoch')
            clause = ('reload_after_clear' if first and t.had_epoch
                      and h.hx_loads == 0 else 'load_once_per_epoch')
            raise Violation(
                clause, f'{kind} ({what}): load() ran {h.hx_loads} time(s) '
                f'since the last clear, expected exactly 1',
                **self._features(kind))
        # identity
        for got in objs:
            if first:
                if not _same(h.hx_objs[0], got):
                    raise Violation(
                        'identical_object',
                        f'{kind} returned {type(got).__name__}, not the '
                        f'object load() produced', **self._features(kind))
            elif not _same(t.epoch_obj, got):
                raise Violation(
                    'identical_object',
                    f'{kind} returned a different object than the earlier '
                    f'accesses of this epoch', **self._features(kind))
        if first:
            t.epoch_obj = h.hx_objs[0]
        del objs, got

        # named shortcuts
        if first and t.failed:
            self._hit(ctx, t, 'access_after_failed_load')
        if first and t.had_epoch:
            self._hit(ctx, t, 'reload_after_clear')
        elif first:
            self._hit(ctx, t, 'first_load')
        if not first:
            self._hit(ctx, t, 'cache_hit')
        if not first and t.role == 'named':
            if BAND[self.spec] == 'falsy':
                ctx.hits['falsy_value'] += 1
            if self.spec in ('eq_false', 'eq_raises', 'eq_true',
                             'eq_nonbool'):
                ctx.hits['unusual_eq'] += 1
            if self.spec == 'eq_true':
                ctx.hits['eq_always_true_value'] += 1
            if self.spec == 'eq_nonbool':
                ctx.hits['eq_nonbool_value'] += 1
            if self.spec == 'bool_raises':
                ctx.hits['bool_raises'] += 1
        if self.names != 'plain' and FAMILY[kind] in ('static', 'map'):
            fam = FAMILY[kind]
            ctx.hits[f'names_{self.names}_{fam}_access'] += 1
            if not first:
                ctx.hits[f'names_{fam}_cache_hit'] += 1
            elif t.had_epoch:
                ctx.hits[f'names_{fam}_reload_after_clear'] += 1
            if kind == 'static_attr':
                ctx.hits['names_static_getattr_access'] += 1
        if kind == 'static_attr':
            ctx.hits['static_attr_access'] += 1
        elif FAMILY[kind] == 'static':
            ctx.hits['static_other_access'] += 1
        elif FAMILY[kind] == 'map':
            ctx.hits['map_access'] += 1
        elif FAMILY[kind] == 'world':
            ctx.hits['world_file_reference'] += 1
            if kind == 'world_two':
                ctx.hits['world_file_two_references'] += 1
            if first:
                ctx.hits['world_file_reference_loads'] += 1
            else:
                ctx.hits['world_file_reference_cached'] += 1
        if ctx.ts is not None and t.role == 'named' \
                and FAMILY[kind] != 'handle':
            # the name r/k resolved through a container that holds two
            # handles under it
            fam = FAMILY[kind]
            ctx.hits[f'layered_{fam}_access'] += 1
            if first and ctx.ts.accessed:
                # ... while only the shadowed handle holds a value
                ctx.hits[f'layered_{fam}_loads_beside_cached_shadow'] += 1
            if not first and not ctx.ts.accessed:
                ctx.hits[f'layered_{fam}_cached_beside_uncached_shadow'] += 1
        t.accessed = True
        ctx.last_op = kind
        ctx.last_base = base
        ctx.last_track = t
        ctx.last_failed = False

    def _finaliser_records(self, ctx):
        """Judge what the finalisers of released 'finaliser' values saw
        (normally: one record per clear() of a cached handle, written while
        clear() was running).  cached == False: the finaliser did nothing.
        cached == True: its h() must have returned an object load()
        produced, without loading."""
        for t in ctx.tracks:
            self._finaliser_records_of(ctx, t)

    def _finaliser_records_of(self, ctx, t):
        h = t.h
        records, t.fin_seen = h.hx_fin[t.fin_seen:], len(h.hx_fin)
        for rec in records:
            when = 'inside_clear' if rec['inside'] else 'outside_clear'
            f = dict(self._features(), when=when)
            what = (f'the finaliser of the released resource ran '
                    f'{"inside" if rec["inside"] else "outside"} h.clear()')
            if 'raised' in rec:
                raise Violation(
                    'access_raises', f'{what}: reading h.cached'
                    + (' (True) and calling h()' if rec.get('cached') is True
                       else '') + f' raised {rec["raised"]}', **f)
            if rec['cached'] is True:
                if rec['loads']:
                    raise Violation(
                        'cached_predicts_load', f'{what}: cached was True '
                        f'but h() called load() {rec["loads"]} time(s)', **f)
                if rec['got'][0] != 'loaded':
                    raise Violation(
                        'identical_object', f'{what}: h.cached was True and '
                        f'h() returned {rec["got"][1]}, which no load() of '
                        'this handle produced', **f)
                self._hit(ctx, t, 'finaliser_sees_cached')
            elif rec['cached'] is not False:
                raise Violation('cached_flag', f'{what}: h.cached is '
                                f'{rec["cached"]}, not a bool', **f)
            if rec['inside']:
                self._hit(ctx, t, 'finaliser_runs_inside_clear')
                if rec['cached'] is False:
                    self._hit(ctx, t, 'finaliser_sees_uncached_inside_clear')

    def _cached(self, ctx, t=None):
        t = t or ctx.t
        try:
            flag = t.h.cached
        except Exception as exc:
            raise Violation('cached_raises', f'h.cached raised {exc!r}',
                            **self._features())
        if flag is not True and flag is not False:
            raise Violation('cached_flag', f'h.cached is {flag!r}, not a bool',
                            **self._features())
        return flag

    # -- state oracle ---------------------------------------------------
    def check(self, ctx):
        obs = []
        for t in ctx.tracks:
            flag = self._cached(ctx, t)
            if flag != t.accessed:
                mine = ctx.last_track is t
                after = ('start' if ctx.last_op is None else
                         'operation_on_other_handle' if not mine else
                         'clear' if ctx.last_base == 'clear' else
                         'failed_access' if ctx.last_failed else 'access')
                who = 'h' if t.role == 'named' else 'the shadowed handle'
                raise Violation(
                    'cached_flag',
                    f'{who}.cached is {flag} but '
                    + ('an access returned since the last clear'
                       if t.accessed else
                       'the only access(es) since the last clear failed in '
                       'load(): the next access will load' if t.failed
                       else 'no access happened since the last clear'),
                    after=after,
                    # the path matters when an access that returned left
                    # the handle uncached (a path around the cache), not
                    # when the flag survives a failed load (Handle itself)
                    **self._features(ctx.last_op if after == 'access'
                                     else None))
            obs += [flag, t.h.hx_loads, t.h.hx_failed]
        if ctx.sibling is not None:
            b = ctx.sibling
            try:
                flag = b.cached
            except Exception as exc:
                raise Violation('cached_raises', 'cached of the bystander '
                                f'handle raised {exc!r}', **self._features())
            if b.hx_calls or flag is not False:
                raise Violation(
                    'same_handle_every_path',
                    f'after {ctx.last_op or "construction"} (addresses '
                    f'{ctx.R}/{ctx.K}) the handle stored next to it as '
                    f'{NAMES[self.names][2]!r}, which nothing addressed, '
                    f'ran load() {b.hx_calls} time(s) and has cached == '
                    f'{flag!r}', **self._features(
                        ctx.last_op if ctx.last_op in FAMILY else None))
            obs += [flag]
        return tuple(obs)

    # -- canonical key --------------------------------------------------
    def key(self, ctx):
        opaque = []

        def namer(o):
            for t in ctx.tracks:
                h = t.h
                tag = '' if t.role == 'named' else 'shadow-'
                i = h.hx_index(o)
                if i is not None:
                    return f'{tag}value{i}'
                if _is_in(o, h.hx_all) is not None:
                    return f'{tag}stale-value'
            if isinstance(o, FinaliserValue):
                return 'stale-value'
            if type(o) is object:
                # a bare object() that is not a loaded value: a private
                # marker of the implementation ("nothing cached").  Named
                # by the order in which the walk meets it.
                i = _is_in(o, opaque)
                if i is None:
                    i = len(opaque)
                    opaque.append(o)
                return f'opaque{i}'
            return None

        model = tuple(t.model() for t in ctx.tracks)
        if len(model) == 1:
            model = model[0]
        # filename: the private scratch directory differs from run to run
        try:
            graph = canon([ctx.m, ctx.s] + [t.h for t in ctx.tracks],
                          namer=namer,
                          skip_attrs=('hx_all', 'hx_spec', 'hx_loader',
                                      'hx_calls', 'hx_fin', 'filename'))
        except CanonError as exc:
            # a private representation the generic walk cannot describe is
            # no reason to stop: states are merged on the model alone (the
            # unmerged "histories" parts do not depend on the key)
            ctx.hits['key_without_object_graph'] += 1
            graph = ('no-graph', str(exc))
        return (model, graph)


# -- Loop.switch reaching Handle.clear() ---------------------------------
LOOP_KINDS = ('simple', 'bare')
LOOP_FLAGS = {(False, False): 'none', (True, False): 'clear_current',
              (False, True): 'clear_next', (True, True): 'clear_both'}


def _no_clock():
    raise HarnessError('C12 never starts the loop: the time function must '
                       'not be called')


class BareLoop(desper.Loop):
    """The abstract Loop with nothing added: Loop.switch as it is (the
    SimpleLoop override accesses the target handle once more)."""

    def loop(self):
        raise HarnessError('C12 never starts the loop')


class WorldCountingHandle(desper.Handle):
    """Real Handle; load() returns a fresh real World and counts.  clear()
    is the real one, noted in the trace first: an operation that spans
    several clears and loads (a switch request) is judged on their order."""

    def __init__(self, index):
        self.hx_index = index
        self.hx_calls = 0           # load() calls ever
        self.hx_all = []            # every world ever loaded (kept alive)
        self.hx_trace = []          # 'L' / 'C': load() and clear() calls

    def load(self):
        self.hx_calls += 1
        self.hx_trace.append('L')
        world = desper.World()
        self.hx_all.append(world)
        return world

    def clear(self):
        self.hx_trace.append('C')
        return super().clear()


class EqualWorldCountingHandle(WorldCountingHandle):
    """Handle with value equality, the way a ``@dataclass`` handle that
    holds a file name compares: every handle of the part describes the same
    level file, so any two of them are == (and hash alike) without being
    the same object.  Each one still owns its cache: clear(), cached and the
    loaded world are per object."""

    hx_description = 'levels/level1.json'

    def __eq__(self, other):
        if type(other) is not type(self):
            return NotImplemented
        return self.hx_description == other.hx_description

    def __ne__(self, other):
        if type(other) is not type(self):
            return NotImplemented
        return self.hx_description != other.hx_description

    def __hash__(self):
        return hash(self.hx_description)


# how the handles of a loop part compare: 'identity' (object.__eq__) or
# 'equal' (all handles of the part are == one another)
HANDLE_EQ = {'identity': WorldCountingHandle,
             'equal': EqualWorldCountingHandle}


# loops that catch SwitchWorld themselves ("supported by SimpleLoop and
# similar implementations"): only they get the switch requests
REQUEST_LOOPS = ('simple',)
_LOOP_LETTERS = ('abcdefghijklmnopqrstuvwxyz'
                 'ABCDEFGHIJKLMNOPQRSTUVWXYZ')


def loop_ops(n, kind='bare'):
    """The alphabet over n handles, simplest first."""
    ops = [('call', i) for i in range(n)]
    ops += [('clear', i) for i in range(n)]
    ops += [('switch', i, cc, cn) for cc, cn in LOOP_FLAGS for i in range(n)]
    if kind in REQUEST_LOOPS:
        ops += [('request', i, cc, cn) for cc, cn in LOOP_FLAGS
                for i in range(n)]
    return ops


def loop_letters(n, kind='bare'):
    """Letter -> operation; the letters of the bare loop mean the same
    operation on every loop (older replay records)."""
    return dict(zip(_LOOP_LETTERS, loop_ops(n, kind)))


def loop_part_name(kind, n, heq='identity'):
    return f'loop-fixpoint/{kind}/{n}' + ('' if heq == 'identity'
                                          else '/' + heq)


class LoopDriver:
    """A real loop (never started) over n counting world handles.

    Model, per handle: cached (an access happened since the last clear, by
    whoever), epoch_obj (what that access returned), had_epoch.  Loop: cur
    (index of the handle last switched to), fresh (cur was not cleared
    since that switch).  switch(h, clear_current, clear_next), as documented:
    clear the handle being left if asked, clear h if asked, then access h.
    A request (desper.switch + the loop's handling of SwitchWorld, SimpleLoop
    only) has the same model; see ``_judge_request`` for what is demanded
    of its load() / clear() calls.
    """

    def __init__(self, kind, n, heq='identity'):
        if kind not in LOOP_KINDS or n not in (1, 2, 3) \
                or heq not in HANDLE_EQ:
            raise HarnessError(f'unknown loop part {kind!r} {n!r} {heq!r}')
        self.kind = kind
        self.n = n
        self.heq = heq
        self.name = loop_part_name(kind, n, heq)
        self.alphabet = frozenset(loop_ops(n, kind))

    def params(self):
        d = dict(loop=self.kind, handles=self.n,
                 ops=[list(op) for op in loop_ops(self.n, self.kind)])
        if self.heq != 'identity':
            d['handle_eq'] = self.heq
        return d

    def initial(self):
        if desper.default_loop.current_world is not None:
            # desper.switch(from_world=None) falls back on it
            raise HarnessError('desper.default_loop runs a world: the '
                               'process-wide loop is not in its initial '
                               'state')
        ctx = Ctx()
        ctx.hits = collections.Counter()
        ctx.loop = (desper.SimpleLoop(_no_clock) if self.kind == 'simple'
                    else BareLoop())
        ctx.hs = [HANDLE_EQ[self.heq](i) for i in range(self.n)]
        if self.heq == 'equal' and self.n > 1 and not (
                ctx.hs[0] == ctx.hs[1] and ctx.hs[0] is not ctx.hs[1]
                and hash(ctx.hs[0]) == hash(ctx.hs[1])):
            raise HarnessError('the handles of an "equal" part do not '
                               'compare equal')
        ctx.cached = [False] * self.n
        ctx.epoch_obj = [None] * self.n
        ctx.had_epoch = [False] * self.n
        ctx.cur = None
        ctx.fresh = False
        ctx.last = None
        ctx.last_features = dict(path='loop', loop=self.kind, op='start')
        return ctx

    def ops(self, ctx):
        return loop_ops(self.n, self.kind)

    def _features(self, op, ctx=None, prev=None):
        f = dict(path='loop', loop=self.kind, op=op[0])
        if self.heq != 'identity':
            f['handle_eq'] = self.heq
        if op[0] in ('switch', 'request'):
            f['flags'] = LOOP_FLAGS[(op[2], op[3])]
            f['target'] = ('first' if prev is None else
                           'current' if prev == op[1] else 'other')
        return f

    def _flag(self, ctx, i, f):
        try:
            flag = ctx.hs[i].cached
        except Exception as exc:
            raise Violation('cached_raises', f'h{i}.cached raised {exc!r}',
                            **f)
        if flag is not True and flag is not False:
            raise Violation('cached_flag', f'h{i}.cached is {flag!r}, not a '
                            'bool', **f)
        return flag

    def apply(self, ctx, op):
        op = tuple(op)
        kind, i = op[0], op[1]
        if op not in self.alphabet:
            raise HarnessError(f'unknown operation {op!r}')
        hs, loop = ctx.hs, ctx.loop
        h = hs[i]
        prev = ctx.cur
        f = ctx.last_features = self._features(op, ctx, prev)
        calls0 = [x.hx_calls for x in hs]
        trace0 = [len(x.hx_trace) for x in hs]
        flags0 = [self._flag(ctx, j, f) for j in range(self.n)]
        # -- model: who is cleared, who is accessed
        cleared = [False] * self.n
        accessed = None
        optional_clear = False
        if kind == 'clear':
            cleared[i] = True
        elif kind == 'call':
            accessed = i
        else:
            if op[2] and prev is not None:
                if prev == i and not ctx.fresh and ctx.cached[i] and not op[3]:
                    # the handle that is left and entered at once already
                    # holds another world than the one being left (cleared
                    # and accessed again from outside): it yields a fresh
                    # world with or without one more clear - decided by
                    # observation (Loop.switch: "can be cleared")
                    optional_clear = True
                    ctx.hits['loop_self_switch_handle_already_reloaded'] += 1
                else:
                    cleared[prev] = True
            if op[3]:
                cleared[i] = True
            accessed = i
        expect = [0] * self.n
        if accessed is not None and (cleared[i] or not ctx.cached[i]):
            expect[i] = 1
        # -- the real call
        got = None
        try:
            if kind == 'clear':
                h.clear()
            elif kind == 'call':
                got = h()
            elif kind == 'switch':
                loop.switch(h, clear_current=op[2], clear_next=op[3])
            else:
                # what running code does (desper.switch) and what the
                # loop does with it (the except clause of SimpleLoop.loop)
                try:
                    desper.switch(h, clear_current=op[2], clear_next=op[3],
                                  from_world=loop.current_world)
                except desper.SwitchWorld as ex:
                    loop.switch(ex.world_handle, ex.clear_current,
                                ex.clear_next)
        except Exception as exc:
            raise Violation(
                'clear_raises' if kind == 'clear' else 'access_raises',
                f'{self._show(op)} raised {type(exc).__name__}: {exc}', **f)
        loads = [x.hx_calls - c for x, c in zip(hs, calls0)]
        traces = [''.join(x.hx_trace[k:]) for x, k in zip(hs, trace0)]
        if optional_clear and 'C' in traces[i]:
            cleared[i] = True
            expect[i] = 1
        # -- named shortcuts (decided on the model, before it is updated)
        if kind == 'call':
            ctx.hits['loop_handle_call_cached' if ctx.cached[i]
                     else 'loop_handle_call_loads'] += 1
        elif kind == 'clear':
            ctx.hits['loop_handle_clear_cached' if ctx.cached[i]
                     else 'loop_handle_clear_uncached'] += 1
        elif kind == 'switch':
            ctx.hits['loop_switch'] += 1
        else:
            ctx.hits['loop_request'] += 1
            if prev is None:
                ctx.hits['loop_request_first'] += 1
                if op[3] and ctx.cached[i]:
                    ctx.hits['loop_request_clear_next_cached'] += 1
            elif prev == i and ctx.fresh:
                if (op[2] or op[3]) and ctx.cached[i]:
                    ctx.hits['loop_request_self_clear'] += 1
                elif not op[2] and not op[3]:
                    ctx.hits['loop_request_self_plain'] += 1
            elif prev == i:
                # the handle the loop runs was cleared from outside: the
                # world being left is not the one the handle gives now
                ctx.hits['loop_request_self_after_outside_clear'] += 1
            else:
                if op[3] and ctx.cached[i]:
                    ctx.hits['loop_request_clear_next_cached'] += 1
                if not op[3] and ctx.cached[i]:
                    ctx.hits['loop_request_to_cached'] += 1
                if op[2] and ctx.cached[prev]:
                    ctx.hits['loop_request_other_clear_current'] += 1
                if not op[2] and ctx.cached[prev]:
                    ctx.hits['loop_request_leaves_cached'] += 1
            if traces[i].count('L') > 1:
                ctx.hits['loop_request_two_epochs_in_one_operation'] += 1
        if self.heq == 'equal' and kind in ('switch', 'request') \
                and prev is not None and prev != i:
            # leaving a handle for another one that is == to it
            w = 'switch' if kind == 'switch' else 'request'
            if op[2] and ctx.cached[prev]:
                ctx.hits[f'loop_equal_{w}_clear_current'] += 1
                if ctx.cached[i] and not op[3]:
                    # ... which already holds its own world (preloaded)
                    ctx.hits[f'loop_equal_{w}_clear_current_to_cached'] += 1
            if op[3] and ctx.cached[i] and ctx.cached[prev] and not op[2]:
                ctx.hits[f'loop_equal_{w}_clear_next_keeps_left'] += 1
        if kind == 'switch':
            if prev is None:
                ctx.hits['loop_switch_first'] += 1
            elif prev == i:
                if op[2] and ctx.cached[i]:
                    ctx.hits['loop_switch_self_clear_current'] += 1
                elif op[3] and ctx.cached[i]:
                    ctx.hits['loop_switch_self_clear_next'] += 1
                elif not op[2] and not op[3]:
                    ctx.hits['loop_switch_self_plain'] += 1
            else:
                if op[2] and ctx.cached[prev]:
                    ctx.hits['loop_switch_other_clear_current'] += 1
                if op[2] and not ctx.cached[prev]:
                    ctx.hits['loop_switch_clear_current_uncached'] += 1
                if op[3] and ctx.cached[i]:
                    ctx.hits['loop_switch_clear_next_cached'] += 1
                if not op[3] and ctx.cached[i]:
                    ctx.hits['loop_switch_to_cached'] += 1
                if not op[2] and ctx.cached[prev]:
                    ctx.hits['loop_switch_leaves_cached'] += 1
        elif kind == 'clear' and prev == i and ctx.cached[i]:
            ctx.hits['loop_current_handle_cleared_outside'] += 1
        elif kind == 'call' and prev == i and not ctx.fresh \
                and not ctx.cached[i]:
            ctx.hits['loop_current_handle_reloaded_outside'] += 1
        # -- cached tells whether the next access will load (handles that
        #    the operation clears first will load whatever cached said)
        if accessed is not None and not cleared[i] \
                and (loads[i] >= 1) != (not flags0[i]):
            raise Violation(
                'cached_predicts_load',
                f'h{i}.cached was {flags0[i]} before {self._show(op)} but '
                f'load() ran {loads[i]} time(s)', **f)
        # -- a switch request: several clears and loads of the target may
        #    happen in the one operation (desper.switch and Loop.switch
        #    share the work), so the order of its load() and clear() calls
        #    is judged: never two load() without a clear() between them,
        #    a load after the last clear that was asked for
        if kind == 'request':
            self._judge_request(ctx, op, f, cleared, traces)
            expect = loads = [int('L' in tr) for tr in traces]
        # -- loads: at most one per clear-delimited epoch, exactly one if
        #    the epoch has an access
        for j in range(self.n):
            if loads[j] == expect[j]:
                continue
            since = expect[j] + (0 if cleared[j] or not ctx.cached[j] else 1)
            clause = ('reload_after_clear'
                      if expect[j] == 1 and loads[j] == 0
                      and (cleared[j] or ctx.had_epoch[j])
                      else 'load_once_per_epoch')
            raise Violation(
                clause,
                f'{self._show(op)}: load() of h{j} ran {loads[j]} time(s), '
                f'expected {expect[j]} ('
                + ('the operation clears it first, ' if cleared[j] else '')
                + (f'it is accessed, ' if accessed == j else
                   'it is not accessed, ')
                + f'{since} load(s) since its last clear expected '
                f'afterwards)', **f)
        # -- model step
        for j in range(self.n):
            if cleared[j]:
                if ctx.cached[j]:
                    ctx.had_epoch[j] = True
                ctx.cached[j] = False
                ctx.epoch_obj[j] = None
                if j == ctx.cur:
                    ctx.fresh = False
        if accessed is not None:
            if expect[i]:
                ctx.epoch_obj[i] = h.hx_all[-1]
            ctx.cached[i] = True
        if kind in ('switch', 'request'):
            ctx.cur = i
            ctx.fresh = True
        ctx.last = op
        # -- identity
        if kind == 'call' and got is not ctx.epoch_obj[i]:
            raise Violation(
                'identical_object',
                f'{self._show(op)} returned '
                + self._which(ctx, got) + ', not '
                + ('the object load() just produced' if expect[i] else
                   'what the earlier accesses of this epoch returned'), **f)

    def _judge_request(self, ctx, op, f, cleared, traces):
        i = op[1]
        for j, tr in enumerate(traces):
            cached = ctx.cached[j]
            for ev in tr:
                if ev == 'C':
                    cached = False
                elif cached:
                    raise Violation(
                        'load_once_per_epoch',
                        f'{self._show(op)}: load() of h{j} ran again '
                        f'without a clear() since its previous load (its '
                        f'load / clear calls during the operation: {tr!r})',
                        **f)
                else:
                    cached = True
            if j != i and 'L' in tr:
                raise Violation(
                    'load_once_per_epoch',
                    f'{self._show(op)}: load() of h{j} ran, which is not '
                    'the target', **f)
            if j != i:
                continue        # (its clear: state oracle, cached flag)
            if cleared[i] and ctx.cached[i] and 'C' not in tr:
                raise Violation(
                    'reload_after_clear',
                    f'{self._show(op)}: h{i} held a world and was to be '
                    'cleared, neither clear() nor load() of it ran: the '
                    'world loaded before is entered again', **f)
            if not cleared[i] and tr != ('' if ctx.cached[i] else 'L'):
                raise Violation(
                    'load_once_per_epoch',
                    f'{self._show(op)}: no clear of h{i} was asked for, '
                    f'its load / clear calls during the operation are '
                    f'{tr!r}, expected '
                    + ('none' if ctx.cached[i] else 'one load'), **f)

    def _show(self, op):
        if op[0] in ('switch', 'request'):
            args = [f'h{op[1]}']
            if op[2]:
                args.append('clear_current=True')
            if op[3]:
                args.append('clear_next=True')
            if op[0] == 'request':
                return (f'desper.switch({", ".join(args)}, from_world='
                        'loop.current_world) + the loop\'s handling of '
                        'SwitchWorld')
            return f'loop.switch({", ".join(args)})'
        return f'h{op[1]}()' if op[0] == 'call' else f'h{op[1]}.clear()'

    def _which(self, ctx, obj):
        for j, h in enumerate(ctx.hs):
            k = _is_in(obj, h.hx_all)
            if k is not None:
                return (f'the world of load #{k + 1} of h{j}'
                        + (' (scrapped by a clear since)'
                           if obj is not ctx.epoch_obj[j] else ''))
        return f'a {type(obj).__name__} no load() produced'

    # -- state oracle ---------------------------------------------------
    def check(self, ctx):
        op = ctx.last
        f = ctx.last_features
        flags = []
        for j in range(self.n):
            flag = self._flag(ctx, j, f)
            flags.append(flag)
            if flag != ctx.cached[j]:
                raise Violation(
                    'cached_flag',
                    f'h{j}.cached is {flag} after '
                    f'{self._show(op) if ctx.last else "construction"} but '
                    + ('it was accessed since its last clear'
                       if ctx.cached[j] else
                       'it was not accessed since its last clear: the next '
                       'access will load'), **f)
        if ctx.cur is None:
            return (tuple(flags), None)
        loop, h = ctx.loop, ctx.hs[ctx.cur]
        if loop.current_world_handle is not h:
            raise Violation(
                'loop_current_handle',
                f'loop.current_world_handle is not h{ctx.cur}, the handle '
                'last switched to', **f)
        same = None
        if ctx.cached[ctx.cur]:
            # evaluating loop.current_world_handle() must not load, and
            # gives what every other access of this epoch gave
            calls0 = h.hx_calls
            try:
                world = loop.current_world_handle()
            except Exception as exc:
                raise Violation(
                    'access_raises', 'loop.current_world_handle() raised '
                    f'{type(exc).__name__}: {exc}', **f)
            if h.hx_calls != calls0:
                raise Violation(
                    'load_once_per_epoch',
                    f'loop.current_world_handle() (h{ctx.cur}, cached) '
                    f'called load() {h.hx_calls - calls0} more time(s)',
                    **f)
            if world is not ctx.epoch_obj[ctx.cur]:
                raise Violation(
                    'identical_object',
                    f'loop.current_world_handle() returned '
                    + self._which(ctx, world) + ', not the object of this '
                    'epoch', **f)
            same = loop.current_world is world
            if ctx.fresh:
                # nobody cleared the handle since the loop switched to it
                if not same:
                    raise Violation(
                        'identical_object',
                        f'after {self._show(op)} loop.current_world is '
                        + self._which(ctx, loop.current_world)
                        + f', loop.current_world_handle() is '
                        + self._which(ctx, world), **f)
                ctx.hits['loop_world_is_handle_world'] += 1
        return (tuple(flags), ctx.cur, same)

    # -- canonical key --------------------------------------------------
    def key(self, ctx):
        opaque = []

        def namer(o):
            if type(o) is object:
                i = _is_in(o, opaque)
                if i is None:
                    i = len(opaque)
                    opaque.append(o)
                return f'opaque{i}'
            return None

        model = (ctx.cur, ctx.fresh, tuple(ctx.cached), tuple(ctx.had_epoch))
        try:
            # worlds are walked like anything else (which handle / loop
            # attribute shares which world shows in the walk's back
            # references)
            graph = canon([ctx.loop] + ctx.hs, namer=namer,
                          skip_attrs=('hx_all', 'hx_calls', 'hx_trace'))
        except CanonError as exc:
            ctx.hits['key_without_object_graph'] += 1
            graph = ('no-graph', str(exc))
        return (model, graph)


# (handles, length) of the exhaustive loop histories
LOOP_DEPTH = {'quick': ((2, 4),), 'thorough': ((2, 5), (3, 4))}
# ... with handles that compare equal (parts "loop-histories-equal/<n>")
LOOP_EQUAL_DEPTH = {'quick': ((2, 3),), 'thorough': ((2, 4), (3, 3))}
LOOP_EQUAL_N = {'quick': (2,), 'thorough': (2, 3)}


def loop_history_cases(n, depth, heq='identity'):
    import itertools
    tail = () if heq == 'identity' else (heq,)
    return [(kind, n, ''.join(w)) + tail for kind in LOOP_KINDS
            for w in itertools.product(list(loop_letters(n, kind)),
                                       repeat=depth)]


def run_loop_history(case):
    case = tuple(case)
    if len(case) == 3:
        case = case + ('identity',)
    if len(case) != 4:
        raise HarnessError(f'malformed case {case!r}')
    kind, n, word, heq = case
    driver = LoopDriver(kind, n, heq)
    letters = loop_letters(n, kind)
    ctx = driver.initial()
    driver.check(ctx)
    for letter in word:
        if letter not in letters:
            raise HarnessError(f'malformed case {case!r}')
        driver.apply(ctx, letters[letter])
        driver.check(ctx)
    return {'calls': len(word), 'hits': dict(ctx.hits),
            'key': (kind, n, word) + (() if heq == 'identity' else (heq,))}


def loop_drivers(tier):
    d = {}
    for kind in LOOP_KINDS:
        for n in (1, 2) if tier == 'quick' else (1, 2, 3):
            drv = LoopDriver(kind, n)
            d[drv.name] = (drv, dict(max_depth=12))
    for kind in LOOP_KINDS:
        for n in LOOP_EQUAL_N[tier]:
            drv = LoopDriver(kind, n, 'equal')
            d[drv.name] = (drv, dict(max_depth=12))
    return d


def drivers(tier):
    d = {}
    for shape in SHAPES:
        for spec in VALUES:
            for loader in LOADERS:
                drv = HandleDriver(spec, loader, shape)
                d[drv.name] = (drv, dict(max_depth=12))
    for names in ODD_NAMES:
        for spec in NAMES_FIXPOINT_VALUES[tier] or VALUES:
            for loader in LOADERS:
                drv = HandleDriver(spec, loader, 'plain', names)
                d[drv.name] = (drv, dict(max_depth=12))
    return d


# -- every history of length D, no state merging -------------------------
def history_cases(depth, letters=FULL_LETTERS, shape='plain',
                  names='plain'):
    import itertools
    words = [''.join(w) for w in itertools.product(letters, repeat=depth)]
    tail = () if shape == 'plain' else (shape,)
    if names != 'plain':
        tail = (shape, names)
    return [(spec, loader, w) + tail for spec in VALUES for loader in LOADERS
            for w in words]


def split_history_case(case):
    """-> (value, loader, word, shape, names)"""
    case = tuple(case)
    if len(case) == 2:              # older records: loader 'ok'
        return case[0], 'ok', case[1], 'plain', 'plain'
    if len(case) == 3:
        return case + ('plain', 'plain')
    if len(case) == 4:
        return case + ('plain',)
    if len(case) != 5:
        raise HarnessError(f'malformed case {case!r}')
    return case


def run_history(case):
    spec, loader, word, shape, names = split_history_case(case)
    driver = HandleDriver(spec, loader, shape, names)
    ctx = driver.initial()
    driver.check(ctx)
    for letter in word:
        if letter not in LETTER:
            raise HarnessError(f'malformed case {case!r}')
        driver.apply(ctx, (LETTER[letter],))
        driver.check(ctx)
    return {'calls': len(word), 'hits': dict(ctx.hits),
            'key': (spec, loader, word, shape)
            + (() if names == 'plain' else (names,))}


def run(tier, rep):
    rep.rule = RULE
    rep.assumptions += [
        'fresh mutable / object values are created anew by every load(), so '
        'a second load in an epoch is visible both in the counter and in the '
        'identity of the returned object; None, 0 and "" are singletons and '
        'are decided by the counter alone',
        'the oracle compares loaded values by identity only (never == or '
        'truth value)',
        'the "histories" part is bounded by its length D (quick 4, '
        'thorough 5 over all 9 operations; thorough also 6 over the 7 '
        'operations without the world-file accesses, part '
        '"histories-basic"; layered shape: 3 / 4 over its 11 operations, '
        'part "histories-layered"); the fixpoint parts carry the unbounded '
        'claim '
        '(conditional on the key argument of DESIGN.md 2.5)',
        'Loop.switch(clear_*) (desper/loop.py, second anchor): driven on '
        'loops that are never started; handles load plain World() objects. '
        'SwitchWorld raised by a processor of a running loop and the '
        'events / dispatch flags of desper.switch() belong to C13 (the '
        'clears and loads of a desper.switch() request: see "switch '
        'requests").  After an '
        'explicit clear() of the handle the loop is running, '
        'loop.current_world keeps the scrapped world until the next switch: '
        'the statement is silent, accepted, nothing is demanded of '
        'loop.current_world in that state.  The order "clears first, then '
        'one access" of Loop.switch is taken from its docstring',
        'value "finaliser": relies on CPython reference counting (the '
        'finaliser runs synchronously when Handle.clear() drops the last '
        'reference); the harness holds weak references to these values and '
        'empties the argument lists of the components of discarded world-'
        'file worlds (cyclic garbage) so that the handle is the only owner. '
        'Demanded: the finaliser never reads cached == True and then gets, '
        'from h(), an object no load() of the handle produced, nor a load, '
        'nor an exception.  cached == True with h() returning the object '
        'being released is accepted (does not happen on this tree).  Only '
        'h() is used inside the finaliser, not the map paths',
        'the state key never names private attributes of Handle; a bare '
        'object() met by the generic walk (e.g. a "nothing cached" marker) '
        'is named by its position in the walk; if the walk fails the key '
        'falls back to the model (hit key_without_object_graph, 0 on this '
        'tree)',
        'a load() that raises: only the pattern "the first call of an epoch '
        'raises, every later one returns" (loader raise_first), exception '
        'class = a plain Exception subclass taking one message.  Demanded: '
        'an exception (any type - WorldFromFileTransformer re-creates it '
        'with a longer message) reaches the caller of that access, load() '
        'was called once by it, the handle is not cached afterwards, the '
        'next access through any path calls load() again, and from its '
        'return on the usual clauses hold (exactly one load() that returned '
        'per epoch, identical object).  Loaders that fail repeatedly, raise '
        'BaseException subclasses or re-enter their own handle are not in '
        'the alphabet',
        'map shape "layered": two handles under the one name are made the '
        'documented way (DirectoryResourcePopulator, nest_on_conflict, '
        'applied twice; one file, so no listing order is involved; the '
        'populator itself is the subject of C16 - a populator that does '
        'not instantiate exactly two handles here is a harness error).  '
        'Which of the two is the resource r/k is taken from the populator '
        'docstring ("the new one will become the default value, but it '
        'will always be possible to retrieve the shadowed one"): the '
        'handle instantiated second.  The shadowed handle is driven '
        'through the reference the rule handed out (no documented lookup '
        'by name exists for it).  Demanded: every access by name (map, '
        'static snapshot, world file) loads / returns the object of the '
        'newer handle only, the two handles keep separate epochs.  The '
        'snapshot is taken after both populator runs; one directory, one '
        'file, two layers; deeper nesting and snapshots older than the '
        'second run (C17) are not explored',
        'switch requests: desper.switch() is called with from_world='
        'loop.current_world (before the first switch that is None and '
        'desper.switch falls back on desper.default_loop.current_world, '
        'checked to be None), on a SimpleLoop that is never started; the '
        'harness plays the except clause of SimpleLoop.loop.  That '
        'clear_next clears the entered handle and clear_current the handle '
        'being left (which, on a self switch, is the entered one) is taken '
        'from the docstrings of switch() / Loop.switch ("If specified, the '
        'handle being left and/or the handle being entered can be '
        'cleared"); which of desper.switch / Loop.switch issues the clear, '
        'and how often, is left open: accepted is any order of load() / '
        'clear() calls in which no handle loads twice without a clear in '
        'between and the target ends with a world loaded after the last '
        'requested clear (on this tree a request that leaves a handle '
        'cleared from outside clears and loads its target twice: hit '
        'loop_request_two_epochs_in_one_operation).  Events, dispatch '
        'flags and which instance receives on_switch_in belong to C13 '
        '(overlap: C13 also asks for the fresh instance).  WorldCounting'
        'Handle overrides clear() only to note the call before running '
        'the real Handle.clear()',
        'names: what may be a resource name is not restricted by '
        'ResourceMap (DirectoryResourcePopulator stores file names with '
        'their extension by default); explored are the name classes of '
        'NAMES for the handle (not an identifier: dot, leading digit, '
        'dash; leading double underscore with and without trailing one; a '
        'Python keyword), a bystander of the other class in the same '
        'sub-map, and one non-identifier sub-map name.  Attribute access '
        'on the static map is spelled getattr() for them.  Names that '
        'collide with attributes of StaticResourceMap itself (get, '
        '_handle_names, __class__ ...), empty names and names holding the '
        'split character are not explored; no world-file access (the '
        'reference syntax "$res{a.b}" cannot spell a dot).  Oracle as for '
        'r/k (load once per epoch, identical object on every path, cached '
        'predicts the load), plus: the bystander never loads and stays '
        'uncached',
        'handles with value equality (loop parts ".../equal"): Handle does '
        'not define __eq__, a subclass may (a dataclass handle); the '
        'harness class is == to every other instance of its class and '
        'hashes by the shared description (a dataclass with eq=True would '
        'be unhashable: not explored).  Demanded is what is demanded of '
        'identity-compared handles: clear_current clears the handle object '
        'being left, clear_next the one entered, nothing else is cleared '
        'or loaded.  Handles that are equal only to some of the others, '
        'or whose __eq__ raises / returns non-bool, are not explored; the '
        'map parts (one or two counting handles) use identity-compared '
        'handles only',
        'world-file accesses: the harness clears the *world* handle before '
        'and after each of them (a world handle that kept its world would '
        'not resolve the reference again); what clear() does to a world is '
        'not asked here.  World files are the two fixed descriptions named '
        'in the rule; $handle{} markers, processors and the rest of the '
        'description grammar belong to C15',
    ]
    rep.require_hits(falsy_value=1, reload_after_clear=1,
                     static_attr_access=1, cache_hit=1, unusual_eq=1,
                     bool_raises=1, clear_uncached=1,
                     load_raises_once=1, access_after_failed_load=1,
                     failed_load_after_clear=1, failed_load_static_attr=1,
                     failed_load_world_file=1, clear_after_failed_load=1,
                     world_file_reference=1, world_file_two_references=1,
                     world_file_reference_loads=1,
                     world_file_reference_cached=1,
                     eq_always_true_value=1, eq_nonbool_value=1,
                     finaliser_runs_inside_clear=1,
                     finaliser_sees_uncached_inside_clear=1,
                     loop_switch_first=1,
                     loop_switch_self_clear_current=1,
                     loop_switch_self_clear_next=1,
                     loop_switch_self_plain=1,
                     loop_switch_other_clear_current=1,
                     loop_switch_clear_next_cached=1,
                     loop_switch_to_cached=1,
                     loop_current_handle_cleared_outside=1,
                     loop_world_is_handle_world=1,
                     # map shape 'layered'
                     layered_map_access=1, layered_static_access=1,
                     layered_world_access=1,
                     layered_static_loads_beside_cached_shadow=1,
                     layered_map_loads_beside_cached_shadow=1,
                     layered_world_loads_beside_cached_shadow=1,
                     layered_static_cached_beside_uncached_shadow=1,
                     layered_clear_one_of_two_cached=1,
                     shadow_first_load=1, shadow_cache_hit=1,
                     shadow_reload_after_clear=1, shadow_clear_cached=1,
                     shadow_load_raises_once=1,
                     # switch requests
                     loop_request_first=1,
                     loop_request_clear_next_cached=1,
                     loop_request_self_clear=1,
                     loop_request_self_plain=1,
                     loop_request_to_cached=1,
                     loop_request_other_clear_current=1,
                     loop_request_leaves_cached=1,
                     loop_request_self_after_outside_clear=1,
                     # handles that compare equal
                     loop_equal_switch_clear_current=1,
                     loop_equal_switch_clear_current_to_cached=1,
                     loop_equal_switch_clear_next_keeps_left=1,
                     loop_equal_request_clear_current=1,
                     loop_equal_request_clear_current_to_cached=1,
                     # odd names
                     names_static_getattr_access=1,
                     names_static_cache_hit=1,
                     names_static_reload_after_clear=1,
                     names_map_cache_hit=1,
                     **{f'names_{n}_{fam}_access': 1 for n in ODD_NAMES
                        for fam in ('static', 'map')})
    saved = sys.modules.get(MOD)
    _ensure_env()
    try:
        closed = {}
        for name, (driver, kw) in drivers(tier).items():
            stats = kernel.explore(driver, rep, part=name,
                                   params=driver.params(), **kw)
            if name.startswith('fixpoint/'):
                name = name[len('fixpoint/'):]
            closed[name] = dict(states=stats['states'], depth=stats['depth'])
        for name, (driver, kw) in loop_drivers(tier).items():
            stats = kernel.explore(driver, rep, part=name,
                                   params=driver.params(), **kw)
            closed[name] = dict(states=stats['states'], depth=stats['depth'])
        rep.extra['fixpoint_closed'] = closed
        for n, depth in LOOP_DEPTH[tier]:
            cases = loop_history_cases(n, depth)
            kernel.enumerate_cases(
                run_loop_history, cases, rep, f'loop-histories/{n}',
                params=dict(length=depth, handles=n, loops=list(LOOP_KINDS),
                            letters={k: list(v) for k, v
                                     in loop_letters(n, 'simple').items()},
                            letters_per_loop={
                                kind: ''.join(loop_letters(n, kind))
                                for kind in LOOP_KINDS}),
                chunk=max(200, len(cases) // 400))
        for n, depth in LOOP_EQUAL_DEPTH[tier]:
            cases = loop_history_cases(n, depth, 'equal')
            kernel.enumerate_cases(
                run_loop_history, cases, rep, f'loop-histories-equal/{n}',
                params=dict(length=depth, handles=n, loops=list(LOOP_KINDS),
                            handle_eq='equal',
                            letters={k: list(v) for k, v
                                     in loop_letters(n, 'simple').items()},
                            letters_per_loop={
                                kind: ''.join(loop_letters(n, kind))
                                for kind in LOOP_KINDS}),
                chunk=max(200, len(cases) // 400))
        depth = DEPTH[tier]
        cases = history_cases(depth)
        kernel.enumerate_cases(run_history, cases, rep, 'histories',
                               params=dict(length=depth, ops=FULL_LETTERS,
                                           letters=LETTER,
                                           values=list(VALUES),
                                           loaders=list(LOADERS)),
                               chunk=max(200, len(cases) // 400))
        depth = LAYERED_DEPTH[tier]
        cases = history_cases(depth, LAYERED_LETTERS, 'layered')
        kernel.enumerate_cases(run_history, cases, rep, 'histories-layered',
                               params=dict(length=depth, ops=LAYERED_LETTERS,
                                           letters=LETTER, shape='layered',
                                           values=list(VALUES),
                                           loaders=list(LOADERS)),
                               chunk=max(200, len(cases) // 400))
        depth = NAMES_DEPTH[tier]
        cases = [c for names in ODD_NAMES
                 for c in history_cases(depth, BASIC_LETTERS, 'plain', names)]
        kernel.enumerate_cases(
            run_history, cases, rep, 'histories-names',
            params=dict(length=depth, ops=BASIC_LETTERS, letters=LETTER,
                        values=list(VALUES), loaders=list(LOADERS),
                        names={n: dict(map=NAMES[n][0], handle=NAMES[n][1],
                                       bystander=NAMES[n][2])
                               for n in ODD_NAMES}),
            chunk=max(200, len(cases) // 400))
        if tier == 'thorough':
            cases = history_cases(BASIC_DEPTH, BASIC_LETTERS)
            kernel.enumerate_cases(
                run_history, cases, rep, 'histories-basic',
                params=dict(length=BASIC_DEPTH, ops=BASIC_LETTERS,
                            letters=LETTER, values=list(VALUES),
                            loaders=list(LOADERS)),
                chunk=max(200, len(cases) // 400))
        rep.extra['c12_world_files'] = WORLD_FILES
    finally:
        _teardown_env()
        if saved is not None:
            sys.modules[MOD] = saved


def replay(rec):
    try:
        if rec['part'] in ('histories', 'histories-basic',
                           'histories-layered', 'histories-names'):
            try:
                run_history(tuple(rec['case']))
            except Violation as v:
                return v
            return None
        if rec['part'].startswith('loop-histories'):
            try:
                run_loop_history(tuple(rec['case']))
            except Violation as v:
                return v
            return None
        ds = loop_drivers('thorough')
        if rec['part'] in ds:
            return kernel.replay_case(ds[rec['part']][0], rec['case'])
        ds = drivers('thorough')
        if rec['part'] in ds:
            _ensure_env()
            return kernel.replay_case(ds[rec['part']][0], rec['case'])
        raise SystemExit(f'unknown part {rec["part"]}')
    finally:
        _teardown_env()
