"""C12 - a Handle loads its resource at most once between clears.

E1 exploration (DESIGN.md 3, C12) on the real ``Handle`` / ``ResourceMap`` /
``StaticResourceMap`` / ``WorldFromFileHandle``: one counting handle stored
at ``r/k``, the map's static snapshot taken up front, operations = eight
access paths + ``clear()``, one exploration per (loaded value, loader).  The
oracle never applies ``==`` or ``bool()`` to a loaded value (identity only):
some of the values have a hostile ``__eq__`` / ``__bool__`` on purpose.

Access paths 7 and 8 reach the resource from a world description file: two
``WorldFromFileHandle`` stored in the same map (``w/one``: one component
taking ``$res{r.k}``; ``w/two``: two components, one taking it as positional
and one as keyword argument).  The access drops the world the world handle
holds, loads the world through the map and returns what the component(s)
received.

Loader ``raise_first``: the first ``load()`` call after every ``clear()``
(and the very first one) raises, the next one succeeds (a file that is not
there yet).  The failed access must hand an exception to its caller and must
leave the handle uncached.

A history case is ``(value, word)`` (loader ``ok``, the form of older replay
records) or ``(value, loader, word)``.
"""
import atexit
import collections
import json
import os
import shutil
import sys
import tempfile
import types

from mc import env  # noqa: F401  (binds desper to the tree under test)
from mc import kernel
from mc.canon import canon
from mc.report import Violation, HarnessError

import desper
from desper.model.world import object_from_string

RULE = ('Operations: h(), m["r/k"], m["r"]["k"], s.r.k, s["r"]["k"], '
        's.get("r").get("k")(), world-file w/one, world-file w/two and '
        'h.clear() on one real counting Handle stored at r/k of a real '
        'ResourceMap whose static snapshot s is taken up front.  The two '
        'world-file accesses: a real WorldFromFileHandle stored in the same '
        'map at w/one (JSON file with one component taking "$res{r.k}") / '
        'w/two (two components in one file, one taking "$res{r.k}" as '
        'positional, one as keyword argument); the access clears the world '
        'handle, loads the world with m["w/one"] and returns the object(s) '
        'the component(s) received (then clears the world handle again).  '
        'Everything is repeated per loaded value in {None, 0, "", [], '
        'object(), __eq__ -> False, __eq__ raises, __bool__ raises} x loader '
        'in {ok, raise_first}; raise_first = the first load() call of every '
        'clear-delimited epoch raises, the next one succeeds.  Parts '
        '"fixpoint/<value>[/raise_first]" (E1): breadth-first search, states '
        'merged on the canonical key (model (successful access since clear, '
        'failed access since clear, loads in this epoch, an earlier epoch '
        'had an access) + generic object graph of map, handle, world handles '
        'and snapshot), explored until no new state appears.  Part '
        '"histories" (no merging): every one of the 9^D operation sequences '
        'of length D (all shorter histories are their prefixes) per value '
        'and loader, the step oracle and the state oracle evaluated after '
        'every operation; thorough adds part "histories-basic": every one of '
        'the 7^6 sequences over the operations without the world-file '
        'accesses, per value and loader.  Every operation is executed on the '
        'implementation; non-trivial = the transition / history exercised a '
        'named shortcut (cache hit on a falsy value, reload after clear, '
        'static attribute access, clear of an uncached handle, two clears in '
        'a row, load that raises, access after a failed load, reference '
        'from a world file ...).')

VALUES = ('none', 'zero', 'empty_str', 'empty_list', 'object', 'eq_false',
          'eq_raises', 'bool_raises')
BAND = {'none': 'falsy', 'zero': 'falsy', 'empty_str': 'falsy',
        'empty_list': 'falsy', 'object': 'plain', 'eq_false': 'unusual',
        'eq_raises': 'unusual', 'bool_raises': 'unusual'}
LOADERS = ('ok', 'raise_first')

ACCESS = ('call', 'map_composite', 'map_chained', 'static_attr',
          'static_item', 'static_get', 'world_one', 'world_two')
FAMILY = {'call': 'handle', 'map_composite': 'map', 'map_chained': 'map',
          'static_attr': 'static', 'static_item': 'static',
          'static_get': 'static', 'world_one': 'world', 'world_two': 'world'}
# length of the histories over the full (9 letter) alphabet / over the
# alphabet without the world-file accesses (7 letters, thorough only)
DEPTH = {'quick': 4, 'thorough': 5}
BASIC_DEPTH = 6
LETTER = dict(zip('cMmaigwWx', ACCESS + ('clear',)))
BASIC_LETTERS = 'cMmaigx'

# -- the world-file access paths -------------------------------------------
MOD = 'c12h_mod'             # in-memory module: nothing real has this name
WORLD_KEYS = {'world_one': 'w/one', 'world_two': 'w/two'}
WORLD_TAGS = {'world_one': ['a'], 'world_two': ['a', 'b']}
WORLD_FILES = {
    'world_one': {'entities': [
        {'components': [{'type': MOD + '.Comp',
                         'args': ['a', '$res{r.k}']}]}]},
    'world_two': {'entities': [
        {'components': [{'type': MOD + '.Comp',
                         'args': ['a', '$res{r.k}']}]},
        {'components': [{'type': MOD + '.Comp', 'args': ['b'],
                         'kwargs': {'res': '$res{r.k}'}}]}]},
}


class Comp:
    """Component of the world files: records what it was built with."""

    def __init__(self, tag, *args, **kwargs):
        self.tag = tag
        self.args = args
        self.kwargs = kwargs


_ENV = None                  # what _ensure_env() created
_ATEXIT = []


def _ensure_env():
    """The process-wide things the world-file accesses need: the two JSON
    files in a private directory, the module ``c12h_mod`` in sys.modules.
    Created once (before the kernel forks its workers, which inherit it),
    removed by ``_teardown_env()`` in the process that created it."""
    global _ENV
    if _ENV is not None:
        return _ENV
    if MOD in sys.modules:
        raise HarnessError(f'{MOD} is already in sys.modules')
    base = '/dev/shm' if os.path.isdir('/dev/shm') and os.access(
        '/dev/shm', os.W_OK) else None
    directory = tempfile.mkdtemp(prefix='c12_worlds_', dir=base)
    files = {}
    for path, description in WORLD_FILES.items():
        files[path] = os.path.join(directory, path + '.json')
        with open(files[path], 'w') as fout:
            json.dump(description, fout)
    module = types.ModuleType(MOD)
    module.Comp = Comp
    sys.modules[MOD] = module
    object_from_string.cache_clear()
    _ENV = dict(pid=os.getpid(), dir=directory, files=files)
    if not _ATEXIT:
        _ATEXIT.append(True)
        atexit.register(_teardown_env)
    return _ENV


def _teardown_env():
    global _ENV
    made, _ENV = _ENV, None
    if made is None or made['pid'] != os.getpid():
        return                # nothing made / a forked worker: not the owner
    sys.modules.pop(MOD, None)
    object_from_string.cache_clear()
    shutil.rmtree(made['dir'], ignore_errors=True)


class EqFalse:
    def __eq__(self, other):
        return False

    __hash__ = object.__hash__


class EqRaises:
    def __eq__(self, other):
        raise RuntimeError('C12 harness: __eq__ must not be used')

    def __ne__(self, other):
        raise RuntimeError('C12 harness: __ne__ must not be used')

    __hash__ = object.__hash__


class BoolRaises:
    def __bool__(self):
        raise RuntimeError('C12 harness: __bool__ must not be used')

    def __len__(self):
        raise RuntimeError('C12 harness: __len__ must not be used')


MAKERS = {
    'none': lambda: None,
    'zero': lambda: 0,
    'empty_str': lambda: '',
    'empty_list': lambda: [],              # a fresh list per load
    'object': object,                      # a fresh object per load
    'eq_false': EqFalse,
    'eq_raises': EqRaises,
    'bool_raises': BoolRaises,
}


class LoadFailed(Exception):
    """What the raise_first loader raises (takes one message, like the
    OSError / ValueError of a real file loader)."""


class CountingHandle(desper.Handle):
    """Real Handle; only ``load`` is supplied (and counts)."""

    def __init__(self, spec, loader='ok'):
        self.hx_spec = spec
        self.hx_loader = loader
        self.hx_attempts = 0        # load() calls in the current epoch ...
        self.hx_failed = 0          # ... that raised
        self.hx_loads = 0           # ... that returned
        self.hx_objs = []           # what they returned, this epoch
        self.hx_all = []            # everything ever returned (kept alive)

    def load(self):
        self.hx_attempts += 1
        if self.hx_loader == 'raise_first' and self.hx_attempts == 1:
            self.hx_failed += 1
            raise LoadFailed('C12 harness: the resource is not there yet')
        value = MAKERS[self.hx_spec]()
        self.hx_loads += 1
        self.hx_objs.append(value)
        self.hx_all.append(value)
        return value


class Ctx:
    pass


def _is_in(obj, seq):
    for i, x in enumerate(seq):
        if x is obj:
            return i
    return None


def part_name(spec, loader):
    return 'fixpoint/' + spec + ('' if loader == 'ok' else '/' + loader)


class HandleDriver:
    def __init__(self, spec, loader='ok'):
        if spec not in MAKERS or loader not in LOADERS:
            raise HarnessError(f'unknown value / loader {spec!r} {loader!r}')
        self.spec = spec
        self.loader = loader
        self.name = part_name(spec, loader)

    def params(self):
        return dict(value=self.spec, loader=self.loader,
                    ops=list(ACCESS) + ['clear'])

    # -- construction ---------------------------------------------------
    def initial(self):
        made = _ensure_env()
        ctx = Ctx()
        ctx.hits = collections.Counter()
        ctx.m = desper.ResourceMap()
        ctx.h = CountingHandle(self.spec, self.loader)
        ctx.m['r/k'] = ctx.h
        ctx.worlds = {}
        for path, key in WORLD_KEYS.items():
            wh = desper.WorldFromFileHandle(made['files'][path])
            ctx.m[key] = wh
            # harness: the world handle never keeps a world between two
            # operations, and looks the same before and after its first use
            wh.clear()
            ctx.worlds[path] = wh
        ctx.s = ctx.m.get_static_map()
        ctx.accessed = False        # model: an access returned since clear
        ctx.failed = False          # model: an access failed since clear
        ctx.epoch_obj = None        # what this epoch's accesses returned
        ctx.had_epoch = False       # some earlier epoch had an access
        ctx.last_op = None
        ctx.last_failed = False
        ctx.hist = ()
        return ctx

    def ops(self, ctx):
        return [(a,) for a in ACCESS] + [('clear',)]

    # -- the real calls -------------------------------------------------
    def _access(self, ctx, path):
        """-> list of the objects the access delivered (one, or one per
        reference of the world file)."""
        m, h, s = ctx.m, ctx.h, ctx.s
        if path == 'call':
            return [h()]
        if path == 'map_composite':
            return [m['r/k']]
        if path == 'map_chained':
            return [m['r']['k']]
        if path == 'static_attr':
            return [s.r.k]
        if path == 'static_item':
            return [s['r']['k']]
        if path == 'static_get':
            return [s.get('r').get('k')()]
        if path in WORLD_KEYS:
            wh = ctx.worlds[path]
            wh.clear()
            try:
                world = m[WORLD_KEYS[path]]
                comps = sorted((c for _, c in world.get(Comp)),
                               key=lambda c: c.tag)
            finally:
                wh.clear()
            tags = [c.tag for c in comps]
            if tags != WORLD_TAGS[path]:
                raise Violation(
                    'world_reference_delivered',
                    f'{path}: the loaded world holds the components {tags}, '
                    f'the file lists {WORLD_TAGS[path]}',
                    **self._features(path))
            out = []
            for c in comps:
                received = list(c.args) + [c.kwargs[k]
                                           for k in sorted(c.kwargs)]
                if len(received) != 1:
                    raise Violation(
                        'world_reference_delivered',
                        f'{path}: component {c.tag} received '
                        f'{len(c.args)} positional and {sorted(c.kwargs)} '
                        'keyword arguments besides its tag, the file gives '
                        'it one "$res{r.k}"', **self._features(path))
                out.append(received[0])
            return out
        raise ValueError(path)

    def _features(self, path=None):
        f = dict(value=BAND[self.spec])
        if path is not None:
            f['path'] = FAMILY[path]
        return f

    def apply(self, ctx, op):
        op = tuple(op)
        kind = op[0]
        h = ctx.h
        ctx.hist = ctx.hist + (kind,)
        if kind == 'clear':
            try:
                h.clear()
            except Exception as exc:
                raise Violation('clear_raises', f'h.clear() raised {exc!r}',
                                **self._features())
            if not ctx.accessed:
                ctx.hits['clear_uncached'] += 1
            if ctx.last_op == 'clear':
                ctx.hits['clear_twice'] += 1
            if ctx.failed and not ctx.accessed:
                ctx.hits['clear_after_failed_load'] += 1
            if ctx.accessed:
                ctx.had_epoch = True
                ctx.hits['clear_cached'] += 1
            ctx.accessed = False
            ctx.failed = False
            ctx.epoch_obj = None
            h.hx_attempts = 0       # harness counters: new epoch
            h.hx_failed = 0
            h.hx_loads = 0
            h.hx_objs = []
            ctx.last_op = kind
            ctx.last_failed = False
            return
        if kind not in FAMILY:
            raise HarnessError(f'unknown operation {op!r}')

        flag = self._cached(ctx, op)
        loads0, attempts0, failed0 = h.hx_loads, h.hx_attempts, h.hx_failed
        raised = None
        objs = None
        try:
            objs = self._access(ctx, kind)
        except Violation:
            raise
        except Exception as exc:
            raised = exc
        loaded = h.hx_loads - loads0
        attempts = h.hx_attempts - attempts0
        failed = h.hx_failed - failed0
        first = not ctx.accessed

        # cached tells whether the next access will load
        if (attempts >= 1) != (not flag):
            raise Violation(
                'cached_predicts_load',
                f'cached was {flag} before {kind} but load() ran {attempts} '
                f'time(s)', **self._features(kind))

        if failed:
            # the loader raised: its exception belongs to the caller, and
            # nothing was loaded, so nothing is cached (state oracle)
            if raised is None:
                raise Violation(
                    'load_exception_reaches_caller',
                    f'load() raised during {kind} but the access returned '
                    'normally', **self._features(kind))
            if attempts != 1 or loaded:
                raise Violation(
                    'load_once_per_epoch',
                    f'{kind}: load() raised and the same access called it '
                    f'{attempts} time(s) in all', **self._features(kind))
            ctx.hits['load_raises_once'] += 1
            if ctx.had_epoch:
                ctx.hits['failed_load_after_clear'] += 1
            if kind == 'static_attr':
                ctx.hits['failed_load_static_attr'] += 1
            if FAMILY[kind] == 'world':
                ctx.hits['failed_load_world_file'] += 1
            ctx.failed = True
            ctx.last_op = kind
            ctx.last_failed = True
            return
        if raised is not None:
            raise Violation('access_raises',
                            f'{kind} raised {type(raised).__name__}: '
                            f'{raised}', **self._features(kind))

        # loads == 1 per epoch with >= 1 access
        if h.hx_loads != 1:
            what = ('first access of the epoch' if first
                    else 'later access of the epoch')
            clause = ('reload_after_clear' if first and ctx.had_epoch
                      and h.hx_loads == 0 else 'load_once_per_epoch')
            raise Violation(
                clause, f'{kind} ({what}): load() ran {h.hx_loads} time(s) '
                f'since the last clear, expected exactly 1',
                **self._features(kind))
        # identity
        for got in objs:
            if first:
                if got is not h.hx_objs[0]:
                    raise Violation(
                        'identical_object',
                        f'{kind} returned {type(got).__name__}, not the '
                        f'object load() produced', **self._features(kind))
            elif got is not ctx.epoch_obj:
                raise Violation(
                    'identical_object',
                    f'{kind} returned a different object than the earlier '
                    f'accesses of this epoch', **self._features(kind))
        if first:
            ctx.epoch_obj = objs[0]

        # named shortcuts
        if first and ctx.failed:
            ctx.hits['access_after_failed_load'] += 1
        if first and ctx.had_epoch:
            ctx.hits['reload_after_clear'] += 1
        elif first:
            ctx.hits['first_load'] += 1
        if not first:
            ctx.hits['cache_hit'] += 1
            if BAND[self.spec] == 'falsy':
                ctx.hits['falsy_value'] += 1
            if self.spec in ('eq_false', 'eq_raises'):
                ctx.hits['unusual_eq'] += 1
            if self.spec == 'bool_raises':
                ctx.hits['bool_raises'] += 1
        if kind == 'static_attr':
            ctx.hits['static_attr_access'] += 1
        elif FAMILY[kind] == 'static':
            ctx.hits['static_other_access'] += 1
        elif FAMILY[kind] == 'map':
            ctx.hits['map_access'] += 1
        elif FAMILY[kind] == 'world':
            ctx.hits['world_file_reference'] += 1
            if kind == 'world_two':
                ctx.hits['world_file_two_references'] += 1
            if first:
                ctx.hits['world_file_reference_loads'] += 1
            else:
                ctx.hits['world_file_reference_cached'] += 1
        ctx.accessed = True
        ctx.last_op = kind
        ctx.last_failed = False

    def _cached(self, ctx, op=None):
        try:
            flag = ctx.h.cached
        except Exception as exc:
            raise Violation('cached_raises', f'h.cached raised {exc!r}',
                            **self._features())
        if flag is not True and flag is not False:
            raise Violation('cached_flag', f'h.cached is {flag!r}, not a bool',
                            **self._features())
        return flag

    # -- state oracle ---------------------------------------------------
    def check(self, ctx):
        flag = self._cached(ctx)
        if flag != ctx.accessed:
            after = ('clear' if ctx.last_op == 'clear' else
                     'start' if ctx.last_op is None else
                     'failed_access' if ctx.last_failed else 'access')
            raise Violation(
                'cached_flag',
                f'h.cached is {flag} but '
                + ('an access returned since the last clear' if ctx.accessed
                   else 'the only access(es) since the last clear failed in '
                   'load(): the next access will load' if ctx.failed
                   else 'no access happened since the last clear'),
                after=after,
                # the path matters when an access that returned left the
                # handle uncached (a path around the cache), not when the
                # flag survives a failed load (Handle itself)
                **self._features(ctx.last_op if after == 'access' else None))
        return (flag, ctx.h.hx_loads, ctx.h.hx_failed)

    # -- canonical key --------------------------------------------------
    def key(self, ctx):
        h = ctx.h

        def namer(o):
            i = _is_in(o, h.hx_objs)
            if i is not None:
                return f'value{i}'
            if _is_in(o, h.hx_all) is not None:
                return 'stale-value'
            return None

        # filename: the private scratch directory differs from run to run
        graph = canon([ctx.m, ctx.h, ctx.s], namer=namer,
                      skip_attrs=('hx_all', 'hx_spec', 'hx_loader',
                                  'filename'))
        return ((ctx.accessed, ctx.failed, h.hx_loads, ctx.had_epoch), graph)


def drivers(tier):
    d = {}
    for spec in VALUES:
        for loader in LOADERS:
            drv = HandleDriver(spec, loader)
            d[drv.name] = (drv, dict(max_depth=12))
    return d


# -- every history of length D, no state merging -------------------------
def history_cases(depth, letters=None):
    import itertools
    words = [''.join(w) for w in itertools.product(letters or LETTER,
                                                   repeat=depth)]
    return [(spec, loader, w) for spec in VALUES for loader in LOADERS
            for w in words]


def split_history_case(case):
    case = tuple(case)
    if len(case) == 2:              # older records: loader 'ok'
        return case[0], 'ok', case[1]
    if len(case) != 3:
        raise HarnessError(f'malformed case {case!r}')
    return case


def run_history(case):
    spec, loader, word = split_history_case(case)
    driver = HandleDriver(spec, loader)
    ctx = driver.initial()
    driver.check(ctx)
    for letter in word:
        driver.apply(ctx, (LETTER[letter],))
        driver.check(ctx)
    return {'calls': len(word), 'hits': dict(ctx.hits),
            'key': (spec, loader, word)}


def run(tier, rep):
    rep.rule = RULE
    rep.assumptions += [
        'fresh mutable / object values are created anew by every load(), so '
        'a second load in an epoch is visible both in the counter and in the '
        'identity of the returned object; None, 0 and "" are singletons and '
        'are decided by the counter alone',
        'the oracle compares loaded values by identity only (never == or '
        'truth value)',
        'the "histories" part is bounded by its length D (quick 4, '
        'thorough 5 over all 9 operations; thorough also 6 over the 7 '
        'operations without the world-file accesses, part '
        '"histories-basic"); the fixpoint parts carry the unbounded claim '
        '(conditional on the key argument of DESIGN.md 2.5)',
        'Loop.switch(clear_*) (desper/loop.py, second anchor) reaches '
        'Handle.clear() and is exercised by C13, not here',
        'a load() that raises: only the pattern "the first call of an epoch '
        'raises, every later one returns" (loader raise_first), exception '
        'class = a plain Exception subclass taking one message.  Demanded: '
        'an exception (any type - WorldFromFileTransformer re-creates it '
        'with a longer message) reaches the caller of that access, load() '
        'was called once by it, the handle is not cached afterwards, the '
        'next access through any path calls load() again, and from its '
        'return on the usual clauses hold (exactly one load() that returned '
        'per epoch, identical object).  Loaders that fail repeatedly, raise '
        'BaseException subclasses or re-enter their own handle are not in '
        'the alphabet',
        'world-file accesses: the harness clears the *world* handle before '
        'and after each of them (a world handle that kept its world would '
        'not resolve the reference again); what clear() does to a world is '
        'not asked here.  World files are the two fixed descriptions named '
        'in the rule; $handle{} markers, processors and the rest of the '
        'description grammar belong to C15',
    ]
    rep.require_hits(falsy_value=1, reload_after_clear=1,
                     static_attr_access=1, cache_hit=1, unusual_eq=1,
                     bool_raises=1, clear_uncached=1,
                     load_raises_once=1, access_after_failed_load=1,
                     failed_load_after_clear=1, failed_load_static_attr=1,
                     failed_load_world_file=1, clear_after_failed_load=1,
                     world_file_reference=1, world_file_two_references=1,
                     world_file_reference_loads=1,
                     world_file_reference_cached=1)
    saved = sys.modules.get(MOD)
    _ensure_env()
    try:
        closed = {}
        for name, (driver, kw) in drivers(tier).items():
            stats = kernel.explore(driver, rep, part=name,
                                   params=driver.params(), **kw)
            closed[name[len('fixpoint/'):]] = dict(states=stats['states'],
                                                   depth=stats['depth'])
        rep.extra['fixpoint_closed'] = closed
        depth = DEPTH[tier]
        cases = history_cases(depth)
        kernel.enumerate_cases(run_history, cases, rep, 'histories',
                               params=dict(length=depth, ops=''.join(LETTER),
                                           letters=LETTER,
                                           values=list(VALUES),
                                           loaders=list(LOADERS)),
                               chunk=max(200, len(cases) // 400))
        if tier == 'thorough':
            cases = history_cases(BASIC_DEPTH, BASIC_LETTERS)
            kernel.enumerate_cases(
                run_history, cases, rep, 'histories-basic',
                params=dict(length=BASIC_DEPTH, ops=BASIC_LETTERS,
                            letters=LETTER, values=list(VALUES),
                            loaders=list(LOADERS)),
                chunk=max(200, len(cases) // 400))
        rep.extra['c12_world_files'] = WORLD_FILES
    finally:
        _teardown_env()
        if saved is not None:
            sys.modules[MOD] = saved


def replay(rec):
    try:
        if rec['part'] in ('histories', 'histories-basic'):
            try:
                run_history(tuple(rec['case']))
            except Violation as v:
                return v
            return None
        ds = drivers('thorough')
        if rec['part'] in ds:
            _ensure_env()
            return kernel.replay_case(ds[rec['part']][0], rec['case'])
        raise SystemExit(f'unknown part {rec["part"]}')
    finally:
        _teardown_env()
