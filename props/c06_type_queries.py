"""C06 - type queries match exactly the subclasses, once each (E3)."""
import abc
import gc
import itertools

from mc import env  # noqa: F401
from mc import kernel
from mc.report import Violation

import desper

RULE = ('E3: every class DAG on n classes (class i takes any non-empty subset '
        'of the earlier classes as bases, most derived first, or is a fresh '
        'root - every ordering of the bases up to 5 classes, most-derived-first '
        'order only for 6; hierarchies rejected by Python\'s MRO are skipped and counted) '
        'x every assignment of component types to entity 1 (all subsets; '
        'entity 2 holds the first and the last class) x every query type of '
        'the DAG x get / get_component / has_component / remove_component; '
        'the same DAG under desper.Processor for get_processor / '
        'remove_processor.  Oracle: issubclass.  A case is one DAG; it is '
        'non-trivial when it has multiple inheritance.')


def dags(n, perms=True):
    """All base assignments: tuple of tuples of earlier indices.

    With ``perms`` every ordering of each base subset is generated (Python
    rejects some: counted as mro_rejected); otherwise most derived first.
    """
    choices = []
    for i in range(1, n):
        opts = [()]     # fresh root
        for r in range(1, i + 1):
            for sub in itertools.combinations(range(i - 1, -1, -1), r):
                if perms:
                    opts.extend(itertools.permutations(sub))
                else:
                    opts.append(sub)
        choices.append(opts)
    for combo in itertools.product(*choices):
        yield ((),) + combo


def build(bases_spec, root, warm=None):
    """Create the classes one at a time; ``warm(classes)`` runs after every
    new class, so that every query has been asked *before* later subclasses
    exist (a memoised subclass walk would go stale)."""
    classes = []
    for i, bases in enumerate(bases_spec):
        try:
            ns = {'idx': i}
            if i % 2:
                # legal components / processors may be falsy
                ns['__bool__'] = lambda self: False
            cls = type(f'K{i}', tuple(classes[b] for b in bases) or (root,),
                       ns)
        except TypeError:
            return None
        classes.append(cls)
        if warm is not None:
            warm(classes)
    return classes


def warm_components(classes):
    w = desper.World()
    w.create_entity(*[c() for c in classes], entity_id=1)
    for q in classes:
        w.get(q)
        w.has_component(1, q)
        w.get_component(1, q)
    for q in classes:
        w.remove_component(1, q)


def warm_processors(classes):
    w = desper.World()
    for c in classes:
        w.add_processor(c())
    for q in classes:
        w.get_processor(q)
    for q in classes:
        w.remove_processor(q)


def _exact_or_match(got, objs, klass, default=None):
    """objs: list of attached objects.  True when ``got`` is admissible."""
    exact = [o for o in objs if type(o) is klass]
    matches = [o for o in objs if isinstance(o, klass)]
    if exact:
        return got is exact[0]
    if matches:
        return any(got is m for m in matches)
    return got is default


def run_dag(case):
    n, spec = case
    spec = tuple(tuple(b) for b in spec)
    hits = {}
    calls = 0

    probe = {'classes': (), 'other': (), 'sink': []}

    @desper.event_handler('on_remove')
    class Root:
        """Every component is a handler whose on_remove asks the world by
        every type of the hierarchy: the answer about the *other* entity
        is determined even while this one is being taken apart."""

        def __repr__(self):
            return f'<{type(self).__name__}>'

        def on_remove(self, entity, world):
            for q in probe['classes']:
                try:
                    got = world.get(q)
                except Exception as exc:
                    probe['sink'].append(
                        f'get(K{q.idx}) from {self!r}.on_remove({entity}) '
                        f'raised {exc!r}')
                    continue
                seen = sorted(id(o) for e, o in got if e != entity)
                want = sorted(id(o) for o in probe['other']
                              if isinstance(o, q))
                if seen != want and entity != 2:
                    probe['sink'].append(
                        f'get(K{q.idx}) from {self!r}.on_remove({entity}) '
                        f'lists {[(e, o) for e, o in got if e != entity]} '
                        f'for the other entity, which owns '
                        f'{list(probe["other"])}')

    classes = build(spec, Root, warm_components)
    if classes is None:
        return {'calls': 0, 'hits': {'mro_rejected': 1}, 'key': repr(spec)}
    multi = any(len(b) > 1 for b in spec)
    if multi:
        hits['multiple_inheritance'] = 1
        # diamond: some class reachable from another through two paths
        for c in classes:
            for b1, b2 in itertools.combinations(c.__bases__, 2):
                if set(b1.__mro__) & set(b2.__mro__) - {Root, object}:
                    hits['diamond'] = 1
    feats = dict(multiple_inheritance=multi, diamond='diamond' in hits)
    sent = object()

    class Virtual(abc.ABC):
        """K0 (and so each of its subclasses) is registered, not derived:
        isinstance says yes, the class tree says no.  Which of the two
        counts is not stated; that all queries answer alike is."""

    Virtual.register(classes[0])
    hits['virtual_base_queried'] = 1
    for mask in range(1 << n):
        mine = [classes[i] for i in range(n) if mask >> i & 1]

        def fresh():
            w = desper.World()
            objs = [c() for c in mine]
            if objs:
                w.create_entity(*objs, entity_id=1)
            other = [classes[0](), classes[-1]()] if n > 1 else [classes[0]()]
            w.create_entity(*other, entity_id=2)
            probe['classes'], probe['other'] = classes, other
            del probe['sink'][:]
            return w, objs, other

        def callbacks_ok(what):
            if probe['sink']:
                raise Violation(
                    'queries_from_on_remove',
                    f'classes {spec}, entity 1 owns '
                    f'{[type(o).__name__ for o in objs]}, {what}: '
                    f'{probe["sink"][0]}', raised='raised' in probe['sink'][0],
                    **feats)

        w, objs, other = fresh()
        for q in classes:
            # get
            got = w.get(q)
            calls += 1
            want = ([(1, o) for o in objs if isinstance(o, q)]
                    + [(2, o) for o in other if isinstance(o, q)])
            gk = sorted((e, id(o)) for e, o in got)
            wk = sorted((e, id(o)) for e, o in want)
            if gk != wk:
                raise Violation(
                    'get_each_match_once',
                    f'classes {spec}: get(K{q.idx}) returned '
                    f'{sorted((e, type(o).__name__) for e, o in got)}, '
                    f'matching attached components are '
                    f'{sorted((e, type(o).__name__) for e, o in want)}',
                    duplicated=len(gk) != len(set(gk)),
                    missing=bool(set(wk) - set(gk)),
                    foreign=bool(set(gk) - set(wk)), **feats)
            has = w.has_component(1, q)
            calls += 1
            if has != any(isinstance(o, q) for o in objs):
                raise Violation('has_component',
                                f'classes {spec}, entity owns '
                                f'{[type(o).__name__ for o in objs]}: '
                                f'has_component(K{q.idx}) = {has}', **feats)
            one = w.get_component(1, q, sent)
            calls += 1
            if not _exact_or_match(one, objs, q, sent):
                raise Violation('get_component',
                                f'classes {spec}, entity owns '
                                f'{[type(o).__name__ for o in objs]}: '
                                f'get_component(K{q.idx}) = {one!r}',
                                exact_present=any(type(o) is q for o in objs),
                                **feats)
        listed = [o for e, o in w.get(Virtual) if e == 1]
        has = w.has_component(1, Virtual)
        one = w.get_component(1, Virtual, sent)
        calls += 3
        if (has != bool(listed) or (one is not sent) != has
                or (one is not sent and not any(one is o for o in listed))):
            raise Violation(
                'queries_agree',
                f'classes {spec}, K0 registered with an ABC, entity owns '
                f'{[type(o).__name__ for o in objs]}: get(ABC) lists '
                f'{listed}, has_component = {has}, get_component = '
                f'{"<default>" if one is sent else one!r}', virtual=True,
                **feats)
        removed = w.remove_component(1, Virtual)
        calls += 1
        if (removed is not None) != has or (
                removed is not None
                and not any(removed is o for o in listed)):
            raise Violation(
                'queries_agree',
                f'classes {spec}, K0 registered with an ABC, entity owns '
                f'{[type(o).__name__ for o in objs]}: has_component(ABC) = '
                f'{has}, get(ABC) lists {listed}, remove_component(ABC) '
                f'returned {removed!r}', virtual=True, **feats)
        # entity 1 is deleted (at once, at the next frame, by clear()): the
        # on_remove callbacks of its components query the world meanwhile
        if objs:
            hits['queries_from_on_remove'] = 1
        for how in ('now', 'deferred', 'clear'):
            w, objs, other = fresh()
            if how == 'now' and objs:
                w.delete_entity(1, immediate=True)
            elif how == 'deferred' and objs:
                w.delete_entity(1)
                w.process(0.5)
            elif how == 'clear':
                probe['other'] = ()     # everything goes
                w.clear()
                continue
            callbacks_ok(f'deleted ({how})')
            calls += 1
        w, objs, other = fresh()
        # replace each component of entity 1 by a fresh one of the same
        # type (add_component and create_entity), then ask again
        for how in ('add', 'create'):
            w, objs, other = fresh()
            for k, o in enumerate(list(objs)):
                new = type(o)()
                if how == 'add':
                    w.add_component(1, new)
                else:
                    w.create_entity(new, entity_id=1)
                objs[k] = new
                calls += 1
            if objs:
                hits['replacement'] = 1
            for q in classes:
                got = w.get(q)
                want = ([(1, o) for o in objs if isinstance(o, q)]
                        + [(2, o) for o in other if isinstance(o, q)])
                if (sorted((e, id(o)) for e, o in got)
                        != sorted((e, id(o)) for e, o in want)):
                    raise Violation(
                        'get_each_match_once',
                        f'classes {spec}: after replacing every component of '
                        f'entity 1 through {how}, get(K{q.idx}) returned '
                        f'{sorted((e, type(o).__name__) for e, o in got)}, '
                        f'attached: '
                        f'{sorted((e, type(o).__name__) for e, o in want)}',
                        duplicated=False, missing=True, foreign=False,
                        after_replacement=True, **feats)
        for q in classes:
            w, objs, other = fresh()
            removed = w.remove_component(1, q)
            calls += 1
            callbacks_ok(f'remove_component(K{q.idx})')
            if not _exact_or_match(removed, objs, q, None):
                raise Violation('remove_component_result',
                                f'classes {spec}, entity owns '
                                f'{[type(o).__name__ for o in objs]}: '
                                f'remove_component(K{q.idx}) returned '
                                f'{removed!r}',
                                exact_present=any(type(o) is q for o in objs),
                                **feats)
            left = w.get_components(1)
            want_left = [o for o in objs if o is not removed]
            if sorted(map(id, left)) != sorted(map(id, want_left)):
                raise Violation('remove_component_detaches_one',
                                f'classes {spec}: after remove_component('
                                f'K{q.idx}) entity owns {list(left)}, expected '
                                f'{want_left}', **feats)
            if sorted(map(id, w.get_components(2))) != sorted(map(id, other)):
                raise Violation('remove_component_other_entity',
                                f'classes {spec}: entity 2 changed', **feats)

    # the same hierarchy made of plain classes (no event handling at all):
    # detaching exactly one object must not depend on the component being
    # a handler
    class PlainRoot:
        def __repr__(self):
            return f'<plain {type(self).__name__}>'

    plain = build(spec, PlainRoot, None)
    for mask in range(1, 1 << n):
        for q in plain:
            w = desper.World()
            objs = [plain[i]() for i in range(n) if mask >> i & 1]
            w.create_entity(*objs, entity_id=1)
            removed = w.remove_component(1, q)
            calls += 1
            if not _exact_or_match(removed, objs, q, None):
                raise Violation('remove_component_result',
                                f'plain classes {spec}, entity owns '
                                f'{[type(o).__name__ for o in objs]}: '
                                f'remove_component(K{q.idx}) returned '
                                f'{removed!r}',
                                exact_present=any(type(o) is q for o in objs),
                                **feats)
            left = w.get_components(1)
            want_left = [o for o in objs if o is not removed]
            if sorted(map(id, left)) != sorted(map(id, want_left)):
                raise Violation('remove_component_detaches_one',
                                f'plain classes {spec}: after '
                                f'remove_component(K{q.idx}) entity owns '
                                f'{list(left)}, expected {want_left}',
                                plain_components=True, **feats)
    hits['plain_hierarchy'] = 1
    del plain

    # processors: same DAG under desper.Processor
    class PRoot(desper.Processor):
        def process(self, dt):
            pass

    pclasses = build(spec, PRoot, warm_processors)
    for mask in range(1 << n):
        mine = [pclasses[i] for i in range(n) if mask >> i & 1]
        for q, backwards in itertools.product(pclasses, (False, True)):
            w = desper.World()
            objs = [c() for c in mine]
            # bases before subclasses, and subclasses before bases
            for o in (reversed(objs) if backwards else objs):
                w.add_processor(o)
            if sorted(map(id, w.processors)) != sorted(map(id, objs)):
                raise Violation('add_processor_keeps_other_types',
                                f'classes {spec}: processors of types '
                                f'{[type(o).__name__ for o in objs]} added '
                                f'{"subclasses first" if backwards else "bases first"}'
                                f', registered: {list(w.processors)}',
                                subclass_first=backwards, **feats)
            got = w.get_processor(q)
            calls += 1
            if not _exact_or_match(got, objs, q, None):
                raise Violation('get_processor',
                                f'classes {spec}, processors '
                                f'{[type(o).__name__ for o in objs]}: '
                                f'get_processor(K{q.idx}) = {got!r}',
                                exact_present=any(type(o) is q for o in objs),
                                **feats)
            removed = w.remove_processor(q)
            calls += 1
            if not _exact_or_match(removed, objs, q, None):
                raise Violation('remove_processor_result',
                                f'classes {spec}, processors '
                                f'{[type(o).__name__ for o in objs]}: '
                                f'remove_processor(K{q.idx}) = {removed!r}',
                                exact_present=any(type(o) is q for o in objs),
                                **feats)
            left = w.processors
            want_left = [o for o in objs if o is not removed]
            if sorted(map(id, left)) != sorted(map(id, want_left)):
                raise Violation('remove_processor_detaches_one',
                                f'classes {spec}: after remove_processor('
                                f'K{q.idx}) processors are {list(left)}, '
                                f'expected {want_left}', **feats)
    del classes, pclasses
    gc.collect()
    return {'calls': calls, 'hits': hits, 'key': repr(spec)}


def cases(tier):
    out = []
    for n in ((1, 2, 3, 4) if tier == 'quick' else (1, 2, 3, 4, 5)):
        out.extend((n, spec) for spec in dags(n))
    if tier == 'thorough':
        out.extend((6, spec) for spec in dags(6, perms=False))
    else:
        out.extend((5, spec) for spec in dags(5, perms=False))
    return out


def run(tier, rep):
    rep.rule = RULE
    rep.assumptions += [
        'which object is returned among several non-exact matches is free',
        'fresh root classes per hierarchy keep type.__subclasses__() clean',
        'every query is also issued after each class definition, before the '
        'later subclasses exist (stale memoisation of the subclass walk)',
    ]
    rep.require_hits(multiple_inheritance=1, diamond=1, mro_rejected=1,
                     replacement=1, virtual_base_queried=1,
                     queries_from_on_remove=1, plain_hierarchy=1)
    kernel.enumerate_cases(run_dag, cases(tier), rep, 'class-dags', chunk=8,
                           params=dict(all_base_orders_up_to=4 if tier == 'quick' else 5,
                                       canonical_base_order_up_to=5 if tier == 'quick' else 6))


def replay(rec):
    try:
        run_dag(kernel.totuple(rec['case']))
    except Violation as v:
        return v
    return None
