"""C20 - Transform2D/3D setters notify listeners with the value that was stored.

E1 (DESIGN.md 3, C20): breadth-first search over assignment histories on two
real transforms of one class with real ``event_handler`` listeners, plus two
E3 families: every pair of listener subsets x every single assignment, and
every combination of constructor arguments.  The ledger of callback
invocations is filled by the listeners themselves.

A fourth E3 family ("reentrant") puts a *correcting* listener on the
transform: when it is told a value of a small to-be-corrected set it assigns
a corrected value to the same property of the same transform from inside the
callback (a clamp); every layout of that listener and of a passive one is
crossed with every short sequence of assignments.

Listener shapes (the statement says "each listener", whatever its class looks
like): classes decorated with ``event_handler`` for every subset of the
events; class hierarchies (a base class decorated for one event, a subclass -
created after it - decorated for the other two, instances of both
registered); probes of ONE class whose ``__events__`` is set per instance.
Registration is part of the alphabet: ``add_handler`` of a listener that is
already registered (still one listener) and ``remove_handler`` (no
notification afterwards) - E1 layout "rereg" and E3 "registration-histories";
the latter also has ``clear()`` (every listener of that transform dropped, the
stored values untouched).

A transform is an EventDispatcher, so the notification of an assignment can
be held back (``dispatch_enabled = False``) and released later.  Two E3
families ("deferred", "deferred-interrupted") put disabling, enabling,
``clear()`` and re-registration next to the assignments on two transforms,
the second one with a listener that disables its own transform again from
inside a callback, i.e. in the middle of a release.  Their oracle is the
statement without any timing: nobody is told anything but a value stored on
its own transform for its own event, once; once a transform dispatches again
everybody has been told everything, the latest value last; properties read
what was stored, whatever happened to the listeners.

Listener objects may be falsy (an empty container-like listener, a listener
whose ``__bool__`` says False): part "listener-classes" and one listener of
part "deferred".  Part "listener-lifetimes": who is listening changes while
an assignment is being notified (a callback drops the last reference to
another listener, removes it, registers a new one) - the listeners that stay
are told exactly once all the same.  Part "deferred-raising": the release of
held-back notifications is cut short by a listener that raises; enabling the
transform again (it reports enabled already) must release the rest.
"""
import collections
import itertools
import weakref

from mc import env  # noqa: F401  (binds desper to the tree under test)
from mc import kernel
from mc.canon import canon
from mc.report import Violation

import desper
from desper.math import Vec2, Vec3

RULE = ('E1: breadth-first search over histories of assignments '
        't<i>.<position|rotation|scale> = value on two real transforms of '
        'one class (Transform2D / Transform3D), i in {0, 1}; rotation from '
        '{-370, -10, 0, 10, 359.5, 360, 370, 725.5} (3D: Vec3(r, 0, -r)), '
        'position / scale from two fresh Vec instances and one plain tuple; '
        'listener layouts: one listener per non-empty subset of the three '
        'events on each instance (4 listeners per event), the same with no '
        'listener at all on the second instance, a layout with '
        'duplicate listeners and a listener registered on both instances, '
        'a layout "class-shapes" (for each event: an instance of a base '
        'class decorated for that event only, an instance of a subclass of '
        'it that was created afterwards and decorated for the other two '
        'events, and a probe of the ONE class Probe whose __events__ is an '
        'instance attribute naming that event; a few of them on the second '
        'instance, one probe on both) and a layout "rereg" where '
        'add_handler (of any listener, registered or not, on either '
        'transform) and remove_handler (of a registered one) are operations '
        'next to the assignments (there: one value per property).  '
        'States are merged on (model, registration model, generic object '
        'graph of both transforms); quick: depth 3 (rereg: 4); thorough: '
        'to the fixpoint of every layout (assignment layouts close at '
        'depth 6, the rereg layout at depth 13).  E3 '
        '"listener-subsets": every ordered pair of subsets (empty = not '
        'registered) for two listeners on one transform x every single '
        'assignment, a second transform with a listener for all events '
        'standing by.  E3 "listener-classes": the same with the two '
        'listeners drawn from the nine class shapes of layout class-shapes '
        'and six falsy listener objects (fl<i>: container whose len() is '
        'the number of notifications collected, fb<i>: __bool__ False; one '
        'per event) (or absent), every ordered pair.  E3 '
        '"registration-histories": '
        'every sequence of 1..n operations (n = 4 quick, 5 thorough) that '
        'ends with an assignment, over add_handler / remove_handler of two '
        'listener objects (all events; a rotation probe) on two transforms '
        'and one assignment per property and transform, nothing registered '
        'at the start, NOT merged on states: after every assignment each '
        'listener registered there (however many times add_handler was '
        'called) is told once, a removed one nothing; t<i>.clear() is an '
        'operation as well (all listeners of t<i> removed) and after every '
        'operation every property of both transforms reads the value last '
        'stored there.  E3 "deferred": every sequence of 1..n operations '
        '(n = 4 quick, 5 thorough) over t<i>.<position|rotation|scale> = '
        'value, t<i>.dispatch_enabled = False / = True (also when it is '
        'already), t<i>.clear() and re-registration of the listeners of '
        't<i>, i in {0, 1}; three listeners on t0 (all events; a rotation '
        'probe; position + scale), two on t1 (all events; a container-like '
        'position listener that is falsy while empty); the k-th '
        'assignment of a property within a case takes the k-th value of a '
        'fixed list (rotations 370, -10, 725.5, 359.5, 360, -190, 540, 90 - '
        'all different modulo 360; vectors: Vec, plain tuple, Vec; always '
        'fresh objects), so that every notification is traced to its '
        'assignment.  E3 "deferred-interrupted": t0 starts disabled and its '
        'all-events listener disables t0 again from inside the callback at '
        'its j-th notification for every j of a set (every non-empty subset '
        'of {1, 2} quick, {1, 2, 3} thorough) x every sequence of 1..n '
        'operations (n = 5 quick, 6 thorough) over the three assignments on '
        't0, t0.dispatch_enabled = True / = False, t0.clear() and '
        't1.dispatch_enabled = True.  E3 "deferred-raising": the same '
        'listener RAISES at its j-th notification for j in {1}, {2}, {1, 2} '
        'x every sequence of 1..n operations (n = 5 quick, 6 thorough) over '
        'the three assignments on t0, t0.dispatch_enabled = True / = False '
        'and t0.clear(), t0 disabled at the start.  E3 '
        '"listener-lifetimes": three all-events listeners on t0, three '
        'assignments of one property (each property), during the second '
        'one listener drops the last reference to another one / removes it '
        '/ registers a new one from inside its callback, every ordered '
        '(actor, victim) pair.  E3 "constructor": '
        'every combination of '
        '(position, rotation, scale) drawn from the same sets or omitted, '
        'positional and keyword.  E3 "reentrant": one correcting listener '
        'registered for every non-empty subset of the three events x one '
        'passive listener registered for every subset (empty = absent) on '
        'the same transform x every sequence of 1..n assignments (n = 2 '
        'quick, 3 thorough) of any property to any value of the sets above; '
        'the correcting listener, when told a to-be-corrected value (2D '
        'rotation > 180; 3D rotation with |x| > 180; position / scale equal '
        'to the second or third vector of the set), assigns the corrected '
        'value (2D: -180, stored as 180; 3D: x clamped to +-180; vectors: '
        'second component zeroed, a fresh Vec resp. a fresh plain tuple) to '
        'the same property of the same transform from inside the callback, '
        'at most once per outer assignment; a second transform with its own '
        'correcting and passive listeners for all events stands by.  '
        'Non-trivial = the case exercised a named '
        'shortcut (rotation outside [0, 360), negative rotation, listener '
        'on the other instance / for another event standing by, no '
        'listener for the event, several listeners, plain tuple value, '
        'assignment nested in a callback, assignment while disabled, '
        'notification delivered by a later operation, release interrupted '
        'by a listener / by an exception / resumed, falsy listener, '
        'listener dropped / removed / added during delivery, the other '
        'transform enabled or cleared while notifications are pending, clear() of a transform holding '
        'assigned values).')

EVENTS = ('on_position_change', 'on_rotation_change', 'on_scale_change')
PROPS = ('position', 'rotation', 'scale')
EVENT_OF = dict(zip(PROPS, EVENTS))
ROTATIONS = (-370, -10, 0, 10, 359.5, 360, 370, 725.5)
VECTORS = {2: ((0, 0), (1.5, -2), (3, 4)),
           3: ((0, 0, 0), (1.5, -2, 7), (3, 4, 5))}
PLAIN_TUPLE = 2                  # index of the vector passed as plain tuple
# value indices offered where registration is part of the alphabet: one value
# per property (a Vec, rotation 370, a plain tuple)
REREG_MENU = {'position': (1,), 'rotation': (6,), 'scale': (2,)}
DEFAULTS = {2: dict(position=(0, 0), rotation=0, scale=(1, 1)),
            3: dict(position=(0, 0, 0), rotation=(0, 0, 0),
                    scale=(1, 1, 1))}
TRANSFORM = {2: desper.Transform2D, 3: desper.Transform3D}
VEC = {2: Vec2, 3: Vec3}
MARK = 'hx_c20_mark'


# -- listeners ------------------------------------------------------------
class BaseListener:
    """Every callback exists on every listener; which ones are registered is
    decided by the decorator, so a dispatcher calling the wrong method is
    seen as a call for another event."""

    def __init__(self, label, log):
        self.label = label
        self.log = log

    def on_position_change(self, *args, **kwargs):
        self.log.append((self.label, EVENTS[0], args, kwargs))

    def on_rotation_change(self, *args, **kwargs):
        self.log.append((self.label, EVENTS[1], args, kwargs))

    def on_scale_change(self, *args, **kwargs):
        self.log.append((self.label, EVENTS[2], args, kwargs))

    def __repr__(self):
        return self.label

    def __hash__(self):
        # deterministic (labels are strings, PYTHONHASHSEED is fixed): the
        # iteration order of desper's listener sets must not depend on
        # object addresses, or replays of one history could differ
        return hash(self.label)


def _listener_class(bits):
    events = [EVENTS[i] for i in range(3) if bits >> i & 1]
    cls = type(f'Listener{bits:03b}', (BaseListener,),
               {'__module__': __name__, 'bits': bits,
                'events': frozenset(events)})
    return desper.event_handler(*events)(cls)


LISTENER = {bits: _listener_class(bits) for bits in range(1, 8)}


# -- listener class hierarchies and per-instance subscriptions ---------------
# A listener "kind" is an int (bits: the decorated class above) or a string:
#   hb<i>  instance of a base class decorated for EVENTS[i] only
#   hs<i>  instance of a subclass of that base, decorated (after the base was
#          created) for the other two events: it listens to all three
#          (event_handler composes inherited and new events)
#   p<i>   instance of the one class Probe whose __events__ is an INSTANCE
#          attribute {EVENTS[i]: 'record'}
def _hierarchy_classes():
    classes = {}
    for i in range(3):
        base = type(f'HierBase{i}', (BaseListener,),
                    {'__module__': __name__, 'events': frozenset([EVENTS[i]])})
        classes[f'hb{i}'] = desper.event_handler(EVENTS[i])(base)
    for i in range(3):          # every subclass is created after every base
        others = [e for e in EVENTS if e != EVENTS[i]]
        sub = type(f'HierSub{i}', (classes[f'hb{i}'],),
                   {'__module__': __name__, 'events': frozenset(EVENTS)})
        classes[f'hs{i}'] = desper.event_handler(*others)(sub)
    return classes


HIERARCHY = _hierarchy_classes()


class Probe(BaseListener):
    """Generic listener: the observed event is chosen per instance (the
    EventHandler protocol only asks for a field ``__events__``).  The one
    callback logs the event the probe was made for, so a call through any
    other event shows as a call for a foreign event."""

    def __init__(self, label, log, event):
        super().__init__(label, log)
        self.event = event
        self.__events__ = {event: 'record'}

    def record(self, *args, **kwargs):
        self.log.append((self.label, self.event, args, kwargs))


CLASS_KINDS = tuple(f'{k}{i}' for k in ('hb', 'hs', 'p') for i in range(3))


# -- listeners that are falsy objects ----------------------------------------
#   fl<i>  container-like listener for EVENTS[i] (a trail of the values it was
#          told): ``len()`` = number of notifications collected so far, so it
#          is a FALSY object until its first notification, truthy afterwards
#   fb<i>  listener for EVENTS[i] whose ``__bool__`` always answers False
# The EventHandler protocol only asks for ``__events__``; the statement says
# "each listener".
class BaseTrail(BaseListener):
    def __init__(self, label, log):
        super().__init__(label, log)
        self.items = []

    def __len__(self):
        return len(self.items)

    def collect(self, event, args, kwargs):
        self.log.append((self.label, event, args, kwargs))
        self.items.append(args)

    def on_position_change(self, *args, **kwargs):
        self.collect(EVENTS[0], args, kwargs)

    def on_rotation_change(self, *args, **kwargs):
        self.collect(EVENTS[1], args, kwargs)

    def on_scale_change(self, *args, **kwargs):
        self.collect(EVENTS[2], args, kwargs)


class BaseNever(BaseListener):
    def __bool__(self):
        return False


def _falsy_classes():
    classes = {}
    for tag, base in (('fl', BaseTrail), ('fb', BaseNever)):
        for i in range(3):
            cls = type(f'{base.__name__[4:]}{i}', (base,),
                       {'__module__': __name__,
                        'events': frozenset([EVENTS[i]])})
            classes[f'{tag}{i}'] = desper.event_handler(EVENTS[i])(cls)
    return classes


FALSY = _falsy_classes()
FALSY_KINDS = tuple(FALSY)


def events_of(kind):
    """The events a listener of this kind is subscribed to."""
    if isinstance(kind, int):
        return LISTENER[kind].events
    if kind in HIERARCHY:
        return HIERARCHY[kind].events
    if kind in FALSY:
        return FALSY[kind].events
    if kind in CLASS_KINDS:
        return frozenset([EVENTS[int(kind[1:])]])
    raise ValueError(f'unknown listener kind {kind!r}')


def make_listener(kind, label, log):
    if isinstance(kind, int):
        return LISTENER[kind](label, log)
    if kind in HIERARCHY:
        return HIERARCHY[kind](label, log)
    if kind in FALSY:
        return FALSY[kind](label, log)
    if kind in CLASS_KINDS:
        return Probe(label, log, EVENTS[int(kind[1:])])
    raise ValueError(f'unknown listener kind {kind!r}')


def kind_text(kind):
    return f'{kind:03b}' if isinstance(kind, int) else kind


# -- re-entrant (correcting) listeners ---------------------------------------
CLAMP = 180


def correction(dim, prop, value):
    """The corrected value (a fresh object) if ``value`` - what a callback
    was told - belongs to the to-be-corrected set, else None.  A corrected
    value never belongs to the set again."""
    try:
        if prop == 'rotation':
            if dim == 2:
                if is_number(value) and value > CLAMP:
                    return -CLAMP       # is stored (and notified) as 180.0
                return None
            x, y, z = value
            if abs(x) > CLAMP:
                return Vec3(max(-CLAMP, min(CLAMP, x)), y, z)
            return None
        comps = tuple(value)
    except Exception:
        return None
    if comps == VECTORS[dim][1]:
        return VEC[dim](comps[0], 0, *comps[2:])
    if comps == VECTORS[dim][2]:
        return tuple([comps[0], 0, *comps[2:]])      # a new plain tuple
    return None


class BaseCorrector(BaseListener):
    """Logs like a passive listener, then - when told a to-be-corrected
    value and allowed by ``budget`` (set to 1 by the harness before every
    outer assignment: no unbounded recursion whatever the implementation
    does) - assigns the corrected value to the same property of its own
    transform from inside the callback."""

    def __init__(self, label, log, dim, transform):
        super().__init__(label, log)
        self.dim = dim
        self.transform = transform
        self.budget = 0
        self.nested = []        # (prop, corrected value) assignments made

    def react(self, prop, args, kwargs):
        self.log.append((self.label, EVENT_OF[prop], args, kwargs))
        if self.budget <= 0 or len(args) != 1 or kwargs:
            return
        fix = correction(self.dim, prop, args[0])
        if fix is None:
            return
        self.budget -= 1
        self.nested.append((prop, fix))
        setattr(self.transform, prop, fix)

    def on_position_change(self, *args, **kwargs):
        self.react('position', args, kwargs)

    def on_rotation_change(self, *args, **kwargs):
        self.react('rotation', args, kwargs)

    def on_scale_change(self, *args, **kwargs):
        self.react('scale', args, kwargs)


def _corrector_class(bits):
    events = [EVENTS[i] for i in range(3) if bits >> i & 1]
    cls = type(f'Corrector{bits:03b}', (BaseCorrector,),
               {'__module__': __name__, 'bits': bits,
                'events': frozenset(events)})
    return desper.event_handler(*events)(cls)


CORRECTOR = {bits: _corrector_class(bits) for bits in range(1, 8)}


def layout_listeners(layout):
    """-> list of (label, bits, instances it is registered on)."""
    out = []
    if layout in ('subsets', 'subsets-none'):
        insts = (0, 1) if layout == 'subsets' else (0,)
        for i in insts:
            for bits in range(1, 8):
                out.append((f'L{i}.{bits:03b}', bits, (i,)))
    elif layout == 'dup-shared':
        out += [('L0.all-a', 7, (0,)), ('L0.all-b', 7, (0,)),
                ('L1.all', 7, (1,)), ('Lshared.all', 7, (0, 1)),
                ('L1.rot', 2, (1,))]
    elif layout == 'class-shapes':
        for i in range(3):
            out += [(f'L0.base{i}', f'hb{i}', (0,)),
                    (f'L0.sub{i}', f'hs{i}', (0,)),
                    (f'L0.probe{i}', f'p{i}', (0,))]
        out += [('L1.base2', 'hb2', (1,)), ('L1.sub0', 'hs0', (1,)),
                ('L1.probe1', 'p1', (1,)), ('Lshared.probe0', 'p0', (0, 1))]
    elif layout == 'rereg':
        # initial registration; add_handler / remove_handler are operations
        out += [('R.all', 7, (0,)), ('R.probe-rot', 'p1', (1,)),
                ('R.base-pos', 'hb0', (0, 1))]
    else:
        raise ValueError(layout)
    return out


# -- values ---------------------------------------------------------------
def make_value(dim, prop, idx):
    """A fresh object for every assignment (identity is meaningful)."""
    if prop == 'rotation':
        r = ROTATIONS[idx]
        return r if dim == 2 else Vec3(r, 0, -r)
    comps = VECTORS[dim][idx]
    if idx == PLAIN_TUPLE:
        return tuple(list(comps))            # a new plain tuple
    return VEC[dim](*comps)


def rotation_band(dim, prop, idx):
    if dim != 2 or prop != 'rotation':
        return 'vector'
    r = ROTATIONS[idx]
    if r < 0:
        return 'negative'
    if r >= 360:
        return 'out_of_range'
    return 'in_range'


def congruent(a, b):
    d = (a - b) % 360
    return min(d, 360 - d) < 1e-9


def is_number(x):
    return isinstance(x, (int, float)) and not isinstance(x, bool)


def check_stored(dim, prop, assigned, read, feat, clause):
    """The read-back holds what was given (2D rotation: reduced mod 360)."""
    if dim == 2 and prop == 'rotation':
        if not is_number(read) or not (0 <= read < 360):
            raise Violation('rotation_reduced_mod_360',
                            f'rotation given {assigned!r} reads back '
                            f'{read!r}, not in [0, 360)', **feat)
        if not congruent(read, assigned):
            raise Violation('rotation_reduced_mod_360',
                            f'rotation given {assigned!r} reads back '
                            f'{read!r}, not congruent modulo 360', **feat)
        return
    try:
        same = bool(read == assigned)
    except Exception:
        same = False
    if not same:
        raise Violation(clause, f'{prop} given {assigned!r} reads back '
                        f'{read!r}', **feat)


def judge_calls(calls, listeners, inst, prop, read, feat, hits, removed=()):
    """The ledger of one assignment against the statement.

    ``listeners``: (label, bits, instances).  ``read``: what ``t.prop``
    returned right after the assignment.  ``removed``: labels of listeners
    that were registered on ``inst`` and removed from it."""
    event = EVENT_OF[prop]
    vector = not is_number(read)
    per = collections.defaultdict(list)
    for label, ev, args, kwargs in calls:
        per[label].append((ev, args, kwargs))
    for label, bits, insts in listeners:
        mine = per.pop(label, [])
        subscribed = events_of(bits)
        wants = inst in insts and event in subscribed
        foreign = [c for c in mine if c[0] != event]
        if foreign:
            raise Violation(
                'no_cross_talk',
                f'{prop} assigned on t{inst}: listener {label} got '
                f'{foreign[0][0]}', kind='other_event', **feat)
        if not wants:
            if mine:
                kind = ('removed' if label in removed else
                        'other_instance' if inst not in insts
                        else 'not_subscribed')
                gone = ('removed from this transform; '
                        if label in removed else '')
                raise Violation(
                    'no_cross_talk',
                    f'{prop} assigned on t{inst}: listener {label} '
                    f'({gone}registered on {list(insts)} for '
                    f'{sorted(subscribed)}) was called',
                    kind=kind, **feat)
            if inst not in insts and event in subscribed:
                hits['other_instance_listener'] += 1
            elif inst in insts:
                hits['other_event_listener'] += 1
                if not isinstance(bits, int):
                    hits['hierarchy_base_stands_by' if bits.startswith('hb')
                         else 'falsy_listener_stands_by' if bits[0] == 'f'
                         else 'instance_events_probe_stands_by'] += 1
            continue
        if len(mine) != 1:
            raise Violation(
                'listener_called_once',
                f'{prop} assigned on t{inst}: listener {label} was called '
                f'{len(mine)} times', count='zero' if not mine else 'many',
                **feat)
        _, args, kwargs = mine[0]
        if len(args) != 1 or kwargs:
            raise Violation(
                'notified_value_is_stored_value',
                f'{prop} assigned on t{inst}: listener {label} got '
                f'args={args!r} kwargs={kwargs!r}, expected the one new '
                f'value', **feat)
        got = args[0]
        try:
            equal = bool(got == read)
        except Exception:
            equal = False
        if not equal or (vector and got is not read):
            raise Violation(
                'notified_value_is_stored_value',
                f'{prop} assigned on t{inst}: listener {label} was told '
                f'{got!r} but t{inst}.{prop} reads {read!r}', **feat)
        hits['listener_notified'] += 1
        if not isinstance(bits, int):
            hits['hierarchy_subclass_notified' if bits.startswith('hs') else
                 'hierarchy_base_notified' if bits.startswith('hb') else
                 'empty_container_listener_notified' if bits.startswith('fl')
                 else 'bool_false_listener_notified' if bits.startswith('fb')
                 else 'instance_events_probe_notified'] += 1
    if per:
        raise Violation('no_cross_talk',
                        f'calls on unknown listeners {sorted(per)}',
                        kind='unknown', **feat)


def shortcut_hits(dim, prop, idx, listeners, inst, hits):
    event = EVENT_OF[prop]
    n = sum(1 for _, bits, insts in listeners
            if inst in insts and event in events_of(bits))
    if n == 0:
        hits['no_listener_for_event'] += 1
    if n >= 2:
        hits['multiple_listeners'] += 1
    band = rotation_band(dim, prop, idx)
    if band in ('negative', 'out_of_range'):
        hits['rotation_out_of_range'] += 1
    if band == 'negative':
        hits['negative_rotation'] += 1
    if prop != 'rotation' and idx == PLAIN_TUPLE:
        hits['plain_tuple_value'] += 1
    if dim == 3 and prop == 'rotation':
        hits['rotation_3d'] += 1


def defaults_not_shared(dim, a, b, feat):
    """What one instance returns must not be the *mutable* object another
    one returns: a marker attribute set on the first must not show on the
    second.  (desper vectors are tuples but accept attributes.)"""
    shared_immutable = 0
    for prop in PROPS:
        va, vb = getattr(a, prop), getattr(b, prop)
        try:
            setattr(va, MARK, True)
        except Exception:
            if va is vb and not is_number(va):
                shared_immutable += 1
            continue
        try:
            leaked = getattr(vb, MARK, False)
        finally:
            try:
                delattr(va, MARK)
            except Exception:
                pass
        if leaked:
            raise Violation('defaults_not_shared',
                            f'{prop}: a marker set on the value returned by '
                            f'one instance shows on another instance',
                            prop=prop, **feat)
    return shared_immutable


def check_defaults(dim, t, feat, props=PROPS):
    for prop in props:
        read = getattr(t, prop)
        want = DEFAULTS[dim][prop]
        if dim == 2 and prop == 'rotation':
            ok = is_number(read) and read == want
        else:
            try:
                ok = bool(read == want)
            except Exception:
                ok = False
        if not ok:
            raise Violation('default_value',
                            f'default {prop} reads {read!r}, expected '
                            f'{want!r}', prop=prop, **feat)


# -- E1 driver ------------------------------------------------------------
class Ctx:
    pass


class TransformDriver:
    def __init__(self, dim, layout):
        self.dim = dim
        self.layout = layout
        self.name = f'assign/{dim}d/{layout}'

    def params(self):
        return dict(dim=self.dim, layout=self.layout,
                    listeners=[(lab, kind_text(bits), list(insts)) for
                               lab, bits, insts in
                               layout_listeners(self.layout)],
                    rotations=list(ROTATIONS),
                    vectors=[list(v) for v in VECTORS[self.dim]],
                    **({'registration_ops': 'add_handler (also of a '
                        'registered listener) and remove_handler (of a '
                        'registered listener) of every listener on either '
                        'transform',
                        'assignment_menu': {k: list(v) for k, v in
                                            REREG_MENU.items()}}
                       if self.layout == 'rereg' else {}))

    def initial(self):
        ctx = Ctx()
        ctx.hits = collections.Counter()
        ctx.log = []
        ctx.t = [TRANSFORM[self.dim](), TRANSFORM[self.dim]()]
        ctx.listeners = layout_listeners(self.layout)
        ctx.objs = []
        # reg[i]: indices of the listeners registered on transform i
        ctx.reg = [set(), set()]
        ctx.removed = set()     # (i, k) removed on this path (not in the key)
        for k, (label, bits, insts) in enumerate(ctx.listeners):
            lis = make_listener(bits, label, ctx.log)
            ctx.objs.append(lis)
            for i in insts:
                ctx.t[i].add_handler(lis)
                ctx.reg[i].add(k)
        # model: what every property must read; ('default', first read) or
        # ('is', assigned object) or ('num', float)
        ctx.model = [{p: ('default', getattr(t, p)) for p in PROPS}
                     for t in ctx.t]
        ctx.steps = 0
        return ctx

    def ops(self, ctx):
        ops = []
        rereg = self.layout == 'rereg'
        for i in (0, 1):
            for prop in PROPS:
                n = len(ROTATIONS) if prop == 'rotation' else 3
                for idx in (REREG_MENU[prop] if rereg else range(n)):
                    ops.append(('set', i, prop, idx))
        if rereg:
            for i in (0, 1):
                for k in range(len(ctx.listeners)):
                    ops.append(('add', i, k))       # also when registered
                    if k in ctx.reg[i]:
                        ops.append(('remove', i, k))
        return ops

    def current(self, ctx):
        """(label, kind, instances it is registered on NOW)."""
        return [(label, bits, tuple(i for i in (0, 1) if k in ctx.reg[i]))
                for k, (label, bits, _) in enumerate(ctx.listeners)]

    def apply_registration(self, ctx, op):
        verb, i, k = op
        feat = dict(dim=self.dim, op=verb)
        lis = ctx.objs[k]
        t = ctx.t[i]
        del ctx.log[:]
        try:
            (t.add_handler if verb == 'add' else t.remove_handler)(lis)
        except Exception as exc:
            raise Violation('registration_raises',
                            f't{i}.{verb}_handler({lis!r}) raised '
                            f'{type(exc).__name__}: {exc}', **feat)
        if ctx.log:
            raise Violation('no_cross_talk', f't{i}.{verb}_handler({lis!r}) '
                            f'notified listeners', kind='registration',
                            **feat)
        if verb == 'add':
            ctx.hits['double_registration' if k in ctx.reg[i]
                     else 'listener_registered'] += 1
            ctx.reg[i].add(k)
            ctx.removed.discard((i, k))
        else:
            ctx.reg[i].discard(k)
            ctx.removed.add((i, k))
            ctx.hits['listener_removed'] += 1
        ctx.steps += 1

    def feat(self, prop, idx):
        return dict(dim=self.dim, prop=prop,
                    band=rotation_band(self.dim, prop, idx))

    def apply(self, ctx, op):
        if op[0] in ('add', 'remove'):
            return self.apply_registration(ctx, op)
        _, i, prop, idx = op
        dim = self.dim
        feat = self.feat(prop, idx)
        t = ctx.t[i]
        value = make_value(dim, prop, idx)
        del ctx.log[:]
        try:
            setattr(t, prop, value)
        except Exception as exc:
            raise Violation('setter_raises',
                            f't{i}.{prop} = {value!r} raised '
                            f'{type(exc).__name__}: {exc}', **feat)
        calls = list(ctx.log)
        del ctx.log[:]
        read = getattr(t, prop)
        if ctx.log:
            raise Violation('no_cross_talk', f'reading t{i}.{prop} notified '
                            f'listeners', kind='read', **feat)
        check_stored(dim, prop, value, read, feat, 'stores_assigned_value')
        listeners = self.current(ctx)
        judge_calls(calls, listeners, i, prop, read, feat, ctx.hits,
                    removed=[ctx.listeners[k][0] for j, k in ctx.removed
                             if j == i])
        shortcut_hits(dim, prop, idx, listeners, i, ctx.hits)
        if self.layout == 'rereg':
            event = EVENT_OF[prop]
            for k, (_, bits, insts) in enumerate(ctx.listeners):
                if event in events_of(bits) and k not in ctx.reg[i]:
                    ctx.hits['unregistered_listener_stands_by'] += 1
        old = ctx.model[i][prop]
        if dim == 2 and prop == 'rotation':
            ctx.model[i][prop] = ('num', read)
            if old[0] == 'num' and old[1] == read:
                ctx.hits['reassign_same_value'] += 1
        else:
            ctx.model[i][prop] = ('is', read)
        ctx.steps += 1

    def check(self, ctx):
        obs = []
        for i, t in enumerate(ctx.t):
            for prop in PROPS:
                how, want = ctx.model[i][prop]
                read = getattr(t, prop)
                if how == 'num':
                    ok = is_number(read) and read == want
                elif how == 'default' and is_number(want):
                    ok = is_number(read) and read == want
                else:
                    ok = read is want
                    if not ok:
                        # a read may hand out an equal copy: not demanded
                        try:
                            ok = bool(read == want)
                        except Exception:
                            ok = False
                if not ok:
                    raise Violation(
                        'instances_independent',
                        f't{i}.{prop} reads {read!r}; the last value stored '
                        f'there was {want!r}', dim=self.dim, prop=prop,
                        untouched=(how == 'default'))
                obs.append(repr(read))
        if ctx.log:
            raise Violation('no_cross_talk', 'reading properties notified '
                            'listeners', kind='read', dim=self.dim)
        # defaults and their not being shared: E3 part "constructor" (the
        # kernel evaluates check() on the initial state outside any
        # transition, where a Violation cannot be recorded)
        return tuple(obs)

    def key(self, ctx):
        labels = {id(o): o.label for o in ctx.objs}

        def namer(o):
            if isinstance(o, (Vec2, Vec3)):
                return f'{type(o).__name__}{tuple(o)!r}'
            return labels.get(id(o))

        model = tuple((p, how, repr(v)) for m in ctx.model
                      for p, (how, v) in sorted(m.items()))
        reg = tuple(tuple(sorted(r)) for r in ctx.reg)
        return (model, reg, canon(ctx.t, namer=namer))


# -- E3: listener subsets x single assignment -------------------------------
def single_assignments(dim):
    for prop in PROPS:
        n = len(ROTATIONS) if prop == 'rotation' else 3
        for idx in range(n):
            yield prop, idx


def subset_cases(tier=None):
    cases = []
    for dim in (2, 3):
        for a in range(8):
            for b in range(8):
                for prop, idx in single_assignments(dim):
                    cases.append((dim, a, b, prop, idx))
    return cases


def class_cases(tier=None):
    """Like subset_cases, the two listeners drawn from the class shapes
    (hierarchy base / subclass instances, per-instance probes; None = not
    registered), in both registration orders."""
    kinds = (None,) + CLASS_KINDS + FALSY_KINDS
    cases = []
    for dim in (2, 3):
        for a in kinds:
            for b in kinds:
                for prop, idx in single_assignments(dim):
                    cases.append((dim, a, b, prop, idx))
    return cases


def run_subset_case(case):
    """a, b: listener kinds (bits or class-shape names; 0 / None = absent)."""
    dim, a, b, prop, idx = case
    hits = collections.Counter()
    log = []
    t = TRANSFORM[dim]()
    other = TRANSFORM[dim]()
    listeners = []
    keep = []
    for label, bits in (('A', a), ('B', b)):
        if bits:
            lis = make_listener(bits, label, log)
            keep.append(lis)
            t.add_handler(lis)
            listeners.append((label, bits, (0,)))
    bystander = LISTENER[7]('Other', log)
    other.add_handler(bystander)
    listeners.append(('Other', 7, (1,)))
    feat = dict(dim=dim, prop=prop, band=rotation_band(dim, prop, idx))
    value = make_value(dim, prop, idx)
    before = {p: getattr(other, p) for p in PROPS}
    untouched = {p: getattr(t, p) for p in PROPS if p != prop}
    try:
        setattr(t, prop, value)
    except Exception as exc:
        raise Violation('setter_raises', f't.{prop} = {value!r} raised '
                        f'{type(exc).__name__}: {exc}', **feat)
    calls = list(log)
    read = getattr(t, prop)
    check_stored(dim, prop, value, read, feat, 'stores_assigned_value')
    judge_calls(calls, listeners, 0, prop, read, feat, hits)
    shortcut_hits(dim, prop, idx, listeners, 0, hits)
    for p, old in before.items():
        now = getattr(other, p)
        if not (now is old or (is_number(old) and is_number(now)
                               and now == old)):
            raise Violation('instances_independent',
                            f'other.{p} changed from {old!r} to {now!r}',
                            dim=dim, prop=p, untouched=True)
    for p, old in untouched.items():
        now = getattr(t, p)
        if not (now is old or (is_number(old) and is_number(now)
                               and now == old)):
            raise Violation('properties_independent',
                            f't.{p} changed from {old!r} to {now!r} when '
                            f'{prop} was assigned', dim=dim, prop=prop)
    if a and a == b:
        hits['same_subset_twice'] += 1
    if not a and not b:
        hits['no_listener_at_all'] += 1
    if isinstance(a, str) and isinstance(b, str):
        if a[0] == b[0] == 'p' and a != b:
            hits['two_probes_of_one_class_different_events'] += 1
        if {a[:2], b[:2]} == {'hb', 'hs'}:
            hits['base_and_subclass_instances_together'] += 1
    if isinstance(a, str) and a.startswith('hb') and not b:
        hits['base_instance_alone'] += 1
    if (isinstance(a, str) and isinstance(b, str)
            and (a[0] == 'f') != (b[0] == 'f') and a[-1] == b[-1]):
        hits['falsy_and_truthy_listener_of_one_event'] += 1
    return {'calls': 2 + len(calls), 'hits': dict(hits), 'key': repr(case)}


# -- E3: registration histories ---------------------------------------------
# Every sequence of add_handler / remove_handler / assignment operations on
# two transforms and two listener objects, not merged on states: registering a
# listener that is registered leaves ONE listener, a removed listener hears
# nothing, whatever happened before.
REG_LISTENERS = (('A', 7), ('B', 'p1'))     # all events; rotation probe
REG_MAX_LEN = {'quick': 4, 'thorough': 5}


def registration_ops():
    ops = [(verb, i, k) for verb in ('add', 'remove') for i in (0, 1)
           for k in range(len(REG_LISTENERS))]
    ops += [('clear', i) for i in (0, 1)]       # t<i>.clear(): all listeners
    ops += [('set', i, prop) for i in (0, 1) for prop in PROPS]
    return ops


def check_persistence(dim, ts, stored, verb, log, n_log):
    """Every property of every transform reads what was last stored there
    (or what it read when the transform was built), whatever operation -
    registration, clear(), enabling / disabling dispatch, an assignment of
    another property or on another transform - was just made."""
    for (j, p), old in sorted(stored.items()):
        now = getattr(ts[j], p)
        ok = same_value(now, old)
        if not ok:
            try:                # a read may hand out an equal copy
                ok = bool(now == old)
            except Exception:
                ok = False
        if not ok:
            raise Violation('stored_value_persists',
                            f'after {verb}: t{j}.{p} reads {now!r}; the '
                            f'value stored there was {old!r}', dim=dim,
                            prop=p, op=verb)
    if len(log) != n_log:
        raise Violation('no_cross_talk', 'reading properties notified '
                        'listeners', kind='read', dim=dim)


def registration_cases(tier='thorough'):
    """(dim, sequence); every sequence of 1..n operations that ends with an
    assignment (a trailing registration would not be observed)."""
    ops = registration_ops()
    sets = [op for op in ops if op[0] == 'set']
    cases = []
    for dim in (2, 3):
        for n in range(1, REG_MAX_LEN[tier] + 1):       # shortest first
            for head in itertools.product(ops, repeat=n - 1):
                for last in sets:
                    cases.append((dim, head + (last,)))
    return cases


def run_registration_case(case):
    dim, seq = case
    hits = collections.Counter()
    log = []
    ts = [TRANSFORM[dim](), TRANSFORM[dim]()]
    objs = [make_listener(kind, label, log) for label, kind in REG_LISTENERS]
    reg = [set(), set()]
    adds = collections.Counter()    # (i, k): add_handler calls since removal
    removed = {}                    # (i, k): adds it had when it was removed
    stored = {(j, p): getattr(ts[j], p) for j in (0, 1) for p in PROPS}
    assigned = set()                # transforms holding an assigned value
    cleared = set()                 # transforms cleared (until add_handler)
    n_calls = 0
    for op in seq:
        verb, i = op[0], op[1]
        t = ts[i]
        if verb == 'clear':
            feat = dict(dim=dim, op=verb)
            del log[:]
            try:
                t.clear()
            except Exception as exc:
                raise Violation('registration_raises',
                                f't{i}.clear() raised '
                                f'{type(exc).__name__}: {exc}', **feat)
            if log:
                raise Violation('no_cross_talk', f't{i}.clear() notified '
                                f'listeners', kind='registration', **feat)
            for k in sorted(reg[i]):
                removed[(i, k)] = adds[(i, k)]
                adds[(i, k)] = 0
                hits['listener_removed_by_clear'] += 1
            reg[i].clear()
            cleared.add(i)
            if i in assigned:
                hits['clear_of_transform_holding_assigned_values'] += 1
            check_persistence(dim, ts, stored, verb, log, 0)
            n_calls += 1 + len(stored)
            continue
        if verb in ('add', 'remove'):
            k = op[2]
            feat = dict(dim=dim, op=verb)
            del log[:]
            try:
                (t.add_handler if verb == 'add' else t.remove_handler)(objs[k])
            except Exception as exc:
                if verb == 'remove' and k not in reg[i]:
                    # removing a listener that is not registered: the
                    # statement is silent, an exception is accepted
                    hits['remove_unregistered_raised'] += 1
                    continue
                raise Violation('registration_raises',
                                f't{i}.{verb}_handler({objs[k]!r}) raised '
                                f'{type(exc).__name__}: {exc}', **feat)
            if log:
                raise Violation('no_cross_talk',
                                f't{i}.{verb}_handler({objs[k]!r}) notified '
                                f'listeners', kind='registration', **feat)
            if verb == 'add':
                hits['double_registration' if k in reg[i]
                     else 'listener_registered'] += 1
                if (i, k) in removed:
                    hits['registered_again_after_removal'] += 1
                    del removed[(i, k)]
                if i in cleared:
                    hits['registered_after_clear'] += 1
                    cleared.discard(i)
                reg[i].add(k)
                adds[(i, k)] += 1
            else:
                if k in reg[i]:
                    removed[(i, k)] = adds[(i, k)]
                    hits['listener_removed'] += 1
                else:
                    hits['remove_unregistered'] += 1
                reg[i].discard(k)
                adds[(i, k)] = 0
            check_persistence(dim, ts, stored, verb, log, 0)
            n_calls += 1
            continue
        prop = op[2]
        idx = REREG_MENU[prop][0]
        feat = dict(dim=dim, prop=prop, band=rotation_band(dim, prop, idx))
        value = make_value(dim, prop, idx)
        del log[:]
        try:
            setattr(t, prop, value)
        except Exception as exc:
            raise Violation('setter_raises', f't{i}.{prop} = {value!r} raised '
                            f'{type(exc).__name__}: {exc}', **feat)
        calls = list(log)
        read = getattr(t, prop)
        check_stored(dim, prop, value, read, feat, 'stores_assigned_value')
        listeners = [(label, kind, tuple(j for j in (0, 1) if k in reg[j]))
                     for k, (label, kind) in enumerate(REG_LISTENERS)]
        judge_calls(calls, listeners, i, prop, read, feat, hits,
                    removed=[REG_LISTENERS[k][0] for j, k in removed
                             if j == i])
        stored[(i, prop)] = read
        assigned.add(i)
        check_persistence(dim, ts, stored, 'set', log, len(calls))
        if i in cleared:
            hits['assignment_after_clear'] += 1
        event = EVENT_OF[prop]
        for k, (label, kind) in enumerate(REG_LISTENERS):
            if event not in events_of(kind):
                continue
            if k in reg[i] and adds[(i, k)] >= 2:
                hits['assignment_after_double_registration'] += 1
            if (i, k) in removed:
                hits['assignment_after_removal'] += 1
                if removed[(i, k)] >= 2:
                    hits['assignment_after_removal_of_double_registration'] \
                        += 1
        n_calls += 2 + len(calls)
    return {'calls': n_calls, 'hits': dict(hits), 'key': repr(case)}


# -- E3: re-entrant listeners -------------------------------------------------
def judge_reentrant(calls, listeners, fixer, prop, read, n_assign, feat,
                    hits):
    """The ledger of one OUTER assignment on t0 during which ``fixer`` made
    ``n_assign - 1`` nested assignments of the same property.

    Demanded (and nothing else): every listener of the matching event on t0
    was notified once per assignment (outer and nested); nobody was notified
    of another event, no listener of the other transform was called; the
    last notification carries what the property reads now.  "Last" is
    judged on the ledger of the correcting listener: it receives the nested
    notification while its outer callback is still running, so that one is
    its last whatever the delivery order; a passive listener served after
    the correcting one may legitimately be told the outer value last."""
    event = EVENT_OF[prop]
    vector = not is_number(read)
    per = collections.defaultdict(list)
    for label, ev, args, kwargs in calls:
        per[label].append((ev, args, kwargs))
    for label, bits, insts in listeners:
        mine = per.pop(label, [])
        wants = 0 in insts and event in events_of(bits)
        foreign = [c for c in mine if c[0] != event]
        if foreign:
            raise Violation(
                'no_cross_talk',
                f'{prop} assigned on t0 (and corrected from a callback): '
                f'listener {label} got {foreign[0][0]}', kind='other_event',
                **feat)
        if not wants:
            if mine:
                kind = ('other_instance' if 0 not in insts
                        else 'not_subscribed')
                raise Violation(
                    'no_cross_talk',
                    f'{prop} assigned on t0 (and corrected from a '
                    f'callback): listener {label} (registered on '
                    f'{list(insts)} for {sorted(events_of(bits))}) '
                    f'was called', kind=kind, **feat)
            continue
        if len(mine) != n_assign:
            raise Violation(
                'listener_called_once',
                f'{prop} assigned on t0 and {n_assign - 1} time(s) from '
                f'inside a callback: listener {label} was called '
                f'{len(mine)} times, expected {n_assign}',
                count=('zero' if not mine else
                       'few' if len(mine) < n_assign else 'many'), **feat)
        for _, args, kwargs in mine:
            if len(args) != 1 or kwargs:
                raise Violation(
                    'notified_value_is_stored_value',
                    f'{prop} assigned on t0: listener {label} got '
                    f'args={args!r} kwargs={kwargs!r}, expected the one new '
                    f'value', **feat)
        if label == fixer:
            got = mine[-1][1][0]
            try:
                equal = bool(got == read)
            except Exception:
                equal = False
            if not equal or (vector and got is not read):
                told = [c[1][0] for c in mine]
                raise Violation(
                    'last_notification_is_read_value',
                    f'{prop} assigned on t0, listener {label} assigned a '
                    f'corrected value from inside its callback: it was told '
                    f'{told!r} (last: {got!r}) but t0.{prop} reads {read!r} '
                    f'after the outermost assignment returned', **feat)
        hits['listener_notified_reentrant'] += 1
    if per:
        raise Violation('no_cross_talk',
                        f'calls on unknown listeners {sorted(per)}',
                        kind='unknown', **feat)


REENTRANT_MAX_LEN = {'quick': 2, 'thorough': 3}


def reentrant_cases(tier='thorough'):
    """(dim, correcting listener's events, passive listener's events (0 =
    absent), sequence of (prop, value index) assignments on t0)."""
    cases = []
    for dim in (2, 3):
        singles = list(single_assignments(dim))
        seqs = [seq for n in range(1, REENTRANT_MAX_LEN[tier] + 1)
                for seq in itertools.product(singles, repeat=n)]
        for seq in seqs:                   # shortest sequences first
            for cor in range(1, 8):
                for pas in range(8):
                    cases.append((dim, cor, pas, seq))
    return cases


def same_value(now, old):
    return now is old or (is_number(old) and is_number(now) and now == old)


def run_reentrant_case(case):
    dim, cor, pas, seq = case
    hits = collections.Counter()
    log = []
    t = TRANSFORM[dim]()
    other = TRANSFORM[dim]()
    fixer = CORRECTOR[cor]('Fix', log, dim, t)
    t.add_handler(fixer)
    listeners = [('Fix', cor, (0,))]
    keep = [fixer]
    if pas:
        keep.append(LISTENER[pas]('Passive', log))
        t.add_handler(keep[-1])
        listeners.append(('Passive', pas, (0,)))
    other_fixer = CORRECTOR[7]('OtherFix', log, dim, other)
    bystander = LISTENER[7]('Other', log)
    other.add_handler(other_fixer)
    other.add_handler(bystander)
    listeners += [('OtherFix', 7, (1,)), ('Other', 7, (1,))]
    n_calls = 0
    for prop, idx in seq:
        feat = dict(dim=dim, prop=prop, band=rotation_band(dim, prop, idx))
        value = make_value(dim, prop, idx)
        before = {p: getattr(other, p) for p in PROPS}
        untouched = {p: getattr(t, p) for p in PROPS if p != prop}
        del log[:]
        del fixer.nested[:]
        fixer.budget = other_fixer.budget = 1
        try:
            setattr(t, prop, value)
        except Exception as exc:
            raise Violation('setter_raises', f't0.{prop} = {value!r} raised '
                            f'{type(exc).__name__}: {exc}', **feat)
        fixer.budget = other_fixer.budget = 0
        calls = list(log)
        read = getattr(t, prop)
        if len(log) != len(calls):
            raise Violation('no_cross_talk', f'reading t0.{prop} notified '
                            f'listeners', kind='read', **feat)
        if any(p != prop for p, _ in fixer.nested):
            # the correcting listener only reacts to the event it is told
            raise Violation('no_cross_talk',
                            f'{prop} assigned on t0: the correcting '
                            f'listener was told of '
                            f'{[p for p, _ in fixer.nested]}',
                            kind='other_event', **feat)
        n_assign = 1 + len(fixer.nested)
        if n_assign == 1:
            # nothing happened inside the callbacks: the plain oracle
            check_stored(dim, prop, value, read, feat,
                         'stores_assigned_value')
            judge_calls(calls, listeners, 0, prop, read, feat, hits)
        else:
            if dim == 2 and prop == 'rotation' and not (
                    is_number(read) and 0 <= read < 360):
                raise Violation('rotation_reduced_mod_360',
                                f'rotation given {value!r}, corrected to '
                                f'{fixer.nested[-1][1]!r} from a callback, '
                                f'reads back {read!r}, not in [0, 360)',
                                **feat)
            judge_reentrant(calls, listeners, 'Fix', prop, read, n_assign,
                            feat, hits)
            hits['reentrant_assignment'] += 1
            hits[f'reentrant_{dim}d_{prop}'] += 1
            if pas and EVENT_OF[prop] in LISTENER[pas].events:
                hits['reentrant_with_passive_listener'] += 1
            if type(fixer.nested[-1][1]) is tuple:
                hits['reentrant_plain_tuple_correction'] += 1
            if n_calls:
                hits['reentrant_after_earlier_assignment'] += 1
        shortcut_hits(dim, prop, idx, listeners, 0, hits)
        for p, old in before.items():
            now = getattr(other, p)
            if not same_value(now, old):
                raise Violation('instances_independent',
                                f'other.{p} changed from {old!r} to {now!r}',
                                dim=dim, prop=p, untouched=True)
        for p, old in untouched.items():
            now = getattr(t, p)
            if not same_value(now, old):
                raise Violation('properties_independent',
                                f't0.{p} changed from {old!r} to {now!r} '
                                f'when {prop} was assigned', dim=dim,
                                prop=prop)
        n_calls += 2 + len(calls)
    return {'calls': n_calls, 'hits': dict(hits), 'key': repr(case)}


# -- E3: listeners that come and go while an assignment is being notified -----
# Three listeners for all events on one transform.  During the second of
# three assignments one of them (the actor) changes who is listening, from
# inside its callback:
#   drop    it lets go of the LAST strong reference to another listener (an
#           owner clearing its list of children; the transform only refers to
#           its listeners weakly, so that one ceases to exist at once)
#   remove  t.remove_handler(another listener)
#   add     t.add_handler(a listener that was not registered)
# Every (actor, victim) choice is enumerated, so whatever order desper serves
# the listeners in, some case has the victim disappear between the actor and
# a listener that has not been served yet.
LIFE_ACTIONS = ('drop', 'remove', 'add')
LIFE_LABELS = ('K0', 'K1', 'K2')


class BaseActor(BaseListener):
    def __init__(self, label, log, transform):
        super().__init__(label, log)
        self.transform = transform
        self.armed = None       # what to do at the next notification
        self.owned = []         # listeners only this one keeps alive
        self.target = None      # listener to remove / to add
        self.acted = 0

    def react(self, event, args, kwargs):
        self.log.append((self.label, event, args, kwargs))
        action, self.armed = self.armed, None
        if action is None:
            return
        self.acted += 1
        if action == 'drop':
            del self.owned[:]
        elif action == 'remove':
            self.transform.remove_handler(self.target)
        elif action == 'add':
            self.transform.add_handler(self.target)
        self.target = None

    def on_position_change(self, *args, **kwargs):
        self.react(EVENTS[0], args, kwargs)

    def on_rotation_change(self, *args, **kwargs):
        self.react(EVENTS[1], args, kwargs)

    def on_scale_change(self, *args, **kwargs):
        self.react(EVENTS[2], args, kwargs)


ACTOR = desper.event_handler(*EVENTS)(
    type('Actor', (BaseActor,), {'__module__': __name__,
                                 'events': frozenset(EVENTS)}))


def lifetime_cases(tier=None):
    """(dim, prop, action, actor, victim): indices into LIFE_LABELS; for
    'add' the victim plays no part (one choice is generated)."""
    cases = []
    for dim in (2, 3):
        for prop in PROPS:
            for action in LIFE_ACTIONS:
                for a in range(3):
                    for v in range(3):
                        if v == a or (action == 'add' and v != (a + 1) % 3):
                            continue
                        cases.append((dim, prop, action, a, v))
    return cases


def judge_with_optional(calls, listeners, optional, prop, read, feat, hits):
    """judge_calls for ``listeners``; the listeners named in ``optional``
    (label -> reason) may have been told or not - if told then once, the
    matching event, the value the property reads."""
    event = EVENT_OF[prop]
    rest = []
    seen = collections.Counter()
    for call in calls:
        label, ev, args, kwargs = call
        if label not in optional:
            rest.append(call)
            continue
        seen[label] += 1
        if ev != event:
            raise Violation('no_cross_talk', f'{prop} assigned on t0: '
                            f'listener {label} got {ev}', kind='other_event',
                            **feat)
        if seen[label] > 1:
            raise Violation('listener_called_once',
                            f'{prop} assigned on t0: listener {label} '
                            f'({optional[label]}) was called more than once',
                            count='many', **feat)
        if len(args) != 1 or kwargs or not value_matches(args[0], read):
            raise Violation('notified_value_is_stored_value',
                            f'{prop} assigned on t0: listener {label} got '
                            f'args={args!r} kwargs={kwargs!r} but t0.{prop} '
                            f'reads {read!r}', **feat)
    judge_calls(rest, listeners, 0, prop, read, feat, hits)
    return seen


def _life_setup(dim, log):
    t = TRANSFORM[dim]()
    other = TRANSFORM[dim]()
    objs = [ACTOR(label, log, t) for label in LIFE_LABELS]
    for o in objs:
        t.add_handler(o)
    newcomer = ACTOR('New', log, t)
    bystander = LISTENER[7]('Other', log)
    other.add_handler(bystander)
    return t, other, objs, newcomer, bystander


def run_lifetime_case(case):
    dim, prop, action, a, v = case
    if action not in LIFE_ACTIONS:
        raise ValueError(f'unknown action {action!r}')
    hits = collections.Counter()
    log = []
    t, other, objs, newcomer, bystander = _life_setup(dim, log)
    feat = dict(dim=dim, prop=prop, op=action)
    base = [(label, 7, (0,)) for label in LIFE_LABELS]
    far = [('Other', 7, (1,))]
    n_calls = 0

    def assign(n):
        value = deferred_value(dim, prop, n)
        del log[:]
        try:
            setattr(t, prop, value)
        except Exception as exc:
            raise Violation('setter_raises', f't0.{prop} = {value!r} raised '
                            f'{type(exc).__name__}: {exc} (assignment {n} '
                            f'of the case)', **feat)
        calls = list(log)
        read = getattr(t, prop)
        if len(log) != len(calls):
            raise Violation('no_cross_talk', f'reading t0.{prop} notified '
                            f'listeners', kind='read', **feat)
        check_stored(dim, prop, value, read,
                     dict(dim=dim, prop=prop, band='vector'
                          if not is_number(value) else 'negative'
                          if value < 0 else 'out_of_range' if value >= 360
                          else 'in_range'), 'stores_assigned_value')
        return calls, read

    # 1: everybody listens, nothing happens (also tells the harness in which
    #    order this dispatcher serves them - for the vacuity guard only)
    calls, read = assign(0)
    judge_calls(calls, base + far, 0, prop, read, feat, hits)
    order = [c[0] for c in calls]
    n_calls += 2 + len(calls)
    # 2: the actor changes who is listening, from inside its callback
    actor, victim = LIFE_LABELS[a], LIFE_LABELS[v]
    objs[a].armed = action
    gone = None
    if action == 'drop':
        gone = weakref.ref(objs[v])
        objs[a].owned.append(objs[v])
        objs[v] = None                      # the harness lets go of it
    elif action == 'remove':
        objs[a].target = objs[v]
    else:
        objs[a].target = newcomer
    optional = ({'New': 'registered during this notification'}
                if action == 'add' else
                {victim: 'dropped during this notification' if action ==
                 'drop' else 'removed during this notification'})
    stable = [spec for spec in base if spec[0] not in optional]
    calls, read = assign(1)
    seen = judge_with_optional(calls, stable + far, optional, prop, read,
                               feat, hits)
    acted = sum(o.acted for o in objs if o is not None)
    if acted != 1:
        # cannot happen when the actor was told once (judged above)
        raise Violation('listener_called_once', f'the acting listener '
                        f'{actor} acted {acted} times', count='zero'
                        if not acted else 'many', **feat)
    hits[{'drop': 'listener_dropped_during_delivery',
          'remove': 'listener_removed_during_delivery',
          'add': 'listener_added_during_delivery'}[action]] += 1
    if action == 'drop':
        if gone() is None:
            hits['dropped_listener_ceased_to_exist_during_delivery'] += 1
        if (len(order) == 3 and order.index(actor) < order.index(victim)
                and order.index(victim) < 2):
            hits['dead_listener_ahead_of_unserved_listener'] += 1
    if action != 'add':
        hits['victim_served_before_it_went' if seen[victim]
             else 'victim_not_served_any_more'] += 1
    else:
        hits['newcomer_served_at_once' if seen['New']
             else 'newcomer_not_served_yet'] += 1
    n_calls += 2 + len(calls)
    # 3: afterwards
    if action == 'add':
        calls, read = assign(2)
        judge_calls(calls, base + [('New', 7, (0,))] + far, 0, prop, read,
                    feat, hits)
        hits['assignment_after_listener_added_during_delivery'] += 1
    elif action == 'remove':
        calls, read = assign(2)
        judge_calls(calls, stable + [(victim, 7, ())] + far, 0, prop, read,
                    feat, hits, removed=[victim])
        hits['assignment_after_listener_removed_during_delivery'] += 1
    else:
        # a dispatcher that kept the dropped listener alive may keep telling
        # it (it is still registered then): accepted
        calls, read = assign(2)
        judge_with_optional(calls, stable + far,
                            {victim: 'dropped two assignments ago'}, prop,
                            read, feat, hits)
        hits['assignment_after_listener_dropped_during_delivery'] += 1
    n_calls += 2 + len(calls)
    for p in PROPS:
        if p != prop:
            check_defaults(dim, t, dict(dim=dim, where='lifetimes'),
                           props=(p,))
    return {'calls': n_calls, 'hits': dict(hits), 'key': repr(case)}


# -- E3: deferred notifications (dispatch_enabled, clear) ----------------------
# A transform is an EventDispatcher: ``dispatch_enabled = False`` holds the
# notifications back, ``dispatch_enabled = True`` releases them, ``clear()``
# drops every listener.  The statement does not say WHEN a listener is told,
# so the oracle of these parts only demands what holds under any timing:
#   * whenever a listener is called, it is a listener of that transform for
#     that event, and the one argument is the value stored by an assignment
#     of that property on that transform which it has not been told yet
#     (vectors: that very object; 2D rotation: that number - every rotation
#     of one case reduces to a different number);
#   * at every point where the harness knows that a transform dispatches
#     (its own last write of dispatch_enabled there was True / clear(), and
#     no callback has disabled it since) every listener has been told every
#     assignment made while it was registered, and the notification it got
#     last for a property is the last value assigned - the value the property
#     reads;
#   * every property always reads the value last stored.
DEFER_ROTATIONS = (370, -10, 725.5, 359.5, 360, -190, 540, 90)
DEFER_VECTORS = (1, 2, 0)       # indices into VECTORS: Vec, plain tuple, Vec
PROP_OF = {e: p for p, e in EVENT_OF.items()}
# (label, kind, home transform); 'pause' = the pausing listener below
DEFER_LISTENERS = (('Pause', 'pause', 0), ('D0.rot', 'p1', 0),
                   ('D0.pos-scale', 5, 0), ('D1.all', 7, 1),
                   ('D1.trail-pos', 'fl0', 1))
RAISE_MAX_LEN = {'quick': 5, 'thorough': 6}
DEFER_MAX_LEN = {'quick': 4, 'thorough': 5}
INTERRUPT_MAX_LEN = {'quick': 5, 'thorough': 6}
INTERRUPT_ORDINALS = {'quick': 2, 'thorough': 3}


class ListenerError(Exception):
    """What the pausing listener raises in mode 'raise'."""


class BasePauser(BaseListener):
    """Listens to all three events.  On its n-th notification (counted over
    the whole case) for every n in ``ordinals`` it disables dispatching on
    its own transform from inside the callback ("hold further updates until
    I have caught up") or - mode 'raise' - raises ListenerError after having
    logged the notification; with no ordinals it is a passive listener."""

    def __init__(self, label, log, transform, ordinals, mode='disable'):
        super().__init__(label, log)
        self.transform = transform
        self.ordinals = frozenset(ordinals)
        self.mode = mode
        self.count = 0
        self.fired = 0
        self.raised_at = []     # positions in the log of the calls that raised

    def react(self, event, args, kwargs):
        self.log.append((self.label, event, args, kwargs))
        self.count += 1
        if self.count in self.ordinals:
            self.fired += 1
            if self.mode == 'raise':
                self.raised_at.append(len(self.log) - 1)
                raise ListenerError(f'{self.label}: notification '
                                    f'{self.count} ({event})')
            self.transform.dispatch_enabled = False

    def on_position_change(self, *args, **kwargs):
        self.react(EVENTS[0], args, kwargs)

    def on_rotation_change(self, *args, **kwargs):
        self.react(EVENTS[1], args, kwargs)

    def on_scale_change(self, *args, **kwargs):
        self.react(EVENTS[2], args, kwargs)


PAUSER = desper.event_handler(*EVENTS)(
    type('Pauser', (BasePauser,), {'__module__': __name__,
                                   'events': frozenset(EVENTS)}))


def defer_events_of(kind):
    return frozenset(EVENTS) if kind == 'pause' else events_of(kind)


def deferred_value(dim, prop, n):
    """Value of the n-th assignment of ``prop`` within one case (counted
    over both transforms): a fresh object, different from assignment to
    assignment."""
    if prop == 'rotation':
        r = DEFER_ROTATIONS[n % len(DEFER_ROTATIONS)]
        return r if dim == 2 else Vec3(r, 0, -r)
    idx = DEFER_VECTORS[n % len(DEFER_VECTORS)]
    comps = VECTORS[dim][idx]
    if idx == PLAIN_TUPLE:
        return tuple(list(comps))
    return VEC[dim](*comps)


def deferred_ops():
    """Alphabet of part "deferred": everything on both transforms."""
    ops = []
    for i in (0, 1):
        ops += [('set', i, prop) for prop in PROPS]
        ops += [('off', i), ('on', i), ('clear', i), ('reg', i)]
    return ops


def interrupted_ops():
    """Alphabet of part "deferred-interrupted": the transform of the pausing
    listener, and the other one being enabled (although it is)."""
    return ([('set', 0, prop) for prop in PROPS]
            + [('on', 0), ('off', 0), ('clear', 0), ('on', 1)])


def deferred_cases(tier='thorough'):
    """(dim, start_off, ordinals, sequence): start_off = bit mask of the
    transforms that are disabled before the sequence starts; ordinals = the
    notifications at which the pausing listener disables its transform."""
    ops = deferred_ops()
    cases = []
    for n in range(1, DEFER_MAX_LEN[tier] + 1):         # shortest first
        for dim in (2, 3):
            for seq in itertools.product(ops, repeat=n):
                cases.append((dim, 0, (), seq))
    return cases


def interrupted_cases(tier='thorough'):
    ops = interrupted_ops()
    top = INTERRUPT_ORDINALS[tier]
    ordinal_sets = [tuple(o for o in range(1, top + 1) if bits >> (o - 1) & 1)
                    for bits in range(1, 2 ** top)]
    cases = []
    for n in range(1, INTERRUPT_MAX_LEN[tier] + 1):     # shortest first
        for dim in (2, 3):
            for ordinals in ordinal_sets:
                for seq in itertools.product(ops, repeat=n):
                    cases.append((dim, 1, ordinals, seq))
    return cases


def raising_ops():
    """Alphabet of part "deferred-raising": the transform of the raising
    listener only."""
    return ([('set', 0, prop) for prop in PROPS]
            + [('on', 0), ('off', 0), ('clear', 0)])


def raising_cases(tier='thorough'):
    """(dim, start_off, ordinals, sequence, 'raise'): the pausing listener
    raises at its j-th notification for every j of ``ordinals``."""
    ops = raising_ops()
    ordinal_sets = [(1,), (2,), (1, 2)]
    cases = []
    for n in range(1, RAISE_MAX_LEN[tier] + 1):         # shortest first
        for dim in (2, 3):
            for ordinals in ordinal_sets:
                for seq in itertools.product(ops, repeat=n):
                    cases.append((dim, 1, ordinals, seq, 'raise'))
    return cases


def value_matches(got, value):
    if is_number(value):
        return is_number(got) and got == value
    return got is value


def run_deferred_case(case):
    dim, start_off, ordinals, seq = case[:4]
    mode = case[4] if len(case) > 4 else 'disable'
    if mode not in ('disable', 'raise'):
        raise ValueError(f'unknown mode {mode!r}')
    hits = collections.Counter()
    log = []
    ts = [TRANSFORM[dim](), TRANSFORM[dim]()]
    objs = []
    pauser = None
    for label, kind, home in DEFER_LISTENERS:
        if kind == 'pause':
            lis = pauser = PAUSER(label, log, ts[home], ordinals, mode)
        else:
            lis = make_listener(kind, label, log)
        objs.append(lis)
        ts[home].add_handler(lis)
    index = {label: k for k, (label, _, _) in enumerate(DEFER_LISTENERS)}
    reg = [set(k for k, spec in enumerate(DEFER_LISTENERS) if spec[2] == i)
           for i in (0, 1)]
    enabled = [True, True]      # what the harness knows, not what desper says
    for i in (0, 1):
        if start_off >> i & 1:
            ts[i].dispatch_enabled = False
            enabled[i] = False
    if log:
        raise Violation('no_cross_talk', 'building, registering or disabling '
                        'notified listeners', kind='registration', dim=dim)
    stored = {(j, p): getattr(ts[j], p) for j in (0, 1) for p in PROPS}
    # one record per assignment: i, prop, value (what the property read right
    # afterwards), must (listeners that have to be told), told, step
    assigns = []
    last_assign = {}            # (i, prop) -> record
    last_told = {}              # (k, prop) -> record
    counters = collections.Counter()
    interrupted = [False, False]
    # a release of t<i> was cut short by a raising listener and the harness
    # has not written t<i>.dispatch_enabled since: desper may be dispatching
    # with older notifications still pending
    raise_pending = [False, False]
    collected = collections.Counter()   # notifications a trail has collected
    nondefault = set()
    n_calls = 0

    def outstanding(i):
        return sum(len(a['must'] - a['told']) for a in assigns
                   if a['i'] == i)

    for step, op in enumerate(seq):
        verb, i = op[0], op[1]
        t = ts[i]
        prop = op[2] if verb == 'set' else None
        feat = dict(dim=dim, op=verb)
        if prop:
            feat['prop'] = prop
        pending_before = [outstanding(0), outstanding(1)]
        fired_before = pauser.fired
        del log[:]
        del pauser.raised_at[:]
        raised = False
        try:
            if verb == 'set':
                value = deferred_value(dim, prop, counters[prop])
                counters[prop] += 1
                setattr(t, prop, value)
            elif verb == 'off':
                t.dispatch_enabled = False
            elif verb == 'on':
                t.dispatch_enabled = True
            elif verb == 'clear':
                t.clear()
            elif verb == 'reg':
                for k, spec in enumerate(DEFER_LISTENERS):
                    if spec[2] == i:
                        t.add_handler(objs[k])
            else:
                raise ValueError(f'unknown operation {op!r}')
        except ValueError:
            raise
        except ListenerError:
            # the listener's own exception reaches the caller (or desper
            # swallows it: the statement is silent, accepted either way)
            raised = True
        except Exception as exc:
            raise Violation('setter_raises' if verb == 'set' else
                            'registration_raises' if verb in ('clear', 'reg')
                            else 'dispatch_toggle_raises',
                            f'{op!r} raised {type(exc).__name__}: {exc}',
                            **feat)
        calls = list(log)
        if verb == 'set':
            read = getattr(t, prop)
            if len(log) != len(calls):
                raise Violation('no_cross_talk', f'reading t{i}.{prop} '
                                f'notified listeners', kind='read', **feat)
            check_stored(dim, prop, value, read,
                         dict(dim=dim, prop=prop,
                              band=('vector' if dim != 2 or prop != 'rotation'
                                    else 'negative' if value < 0 else
                                    'out_of_range' if value >= 360
                                    else 'in_range')),
                         'stores_assigned_value')
            event = EVENT_OF[prop]
            rec = dict(i=i, prop=prop, value=read, step=step, told=set(),
                       must=set(k for k in reg[i] if event in
                                defer_events_of(DEFER_LISTENERS[k][1])))
            if raise_pending[i] and any(
                    a['i'] == i and a['prop'] == prop and a['must'] - a['told']
                    for a in assigns):
                # desper may deliver this one at once and the older pending
                # one later: which comes last is not judged for it
                rec['overtook'] = True
                hits['assignment_may_overtake_pending_after_exception'] += 1
            assigns.append(rec)
            last_assign[(i, prop)] = rec
            stored[(i, prop)] = read
            nondefault.add(i)
            if not enabled[i] and not raise_pending[i]:
                hits['assignment_while_disabled'] += 1
                if interrupted[i] and pending_before[i]:
                    hits['assignment_behind_interrupted_release'] += 1
            if dim == 2 and prop == 'rotation' and not 0 <= value < 360:
                hits['rotation_out_of_range'] += 1
        # -- every call is a notification somebody was still owed
        matched = {}
        for pos, (label, ev, args, kwargs) in enumerate(calls):
            k = index.get(label)
            if k is None:
                raise Violation('no_cross_talk', f'{op!r}: call on unknown '
                                f'listener {label}', kind='unknown', **feat)
            _, kind, home = DEFER_LISTENERS[k]
            if ev not in defer_events_of(kind):
                raise Violation('no_cross_talk', f'{op!r}: listener {label} '
                                f'got {ev}', kind='other_event', **feat)
            if k not in reg[home]:
                raise Violation('no_cross_talk', f'{op!r}: listener {label} '
                                f'(dropped by t{home}.clear()) was called',
                                kind='removed', **feat)
            if len(args) != 1 or kwargs:
                raise Violation('notified_value_is_stored_value',
                                f'{op!r}: listener {label} got args={args!r} '
                                f'kwargs={kwargs!r}, expected the one new '
                                f'value', **feat)
            got = args[0]
            p = PROP_OF[ev]
            for a in assigns:
                if (a['i'] == home and a['prop'] == p and k not in a['told']
                        and value_matches(got, a['value'])):
                    a['told'].add(k)
                    last_told[(k, p)] = a
                    matched[pos] = a
                    if a['step'] != step:
                        hits['notification_delivered_later'] += 1
                    else:
                        hits['listener_notified'] += 1
                    if isinstance(kind, str) and kind.startswith('fl'):
                        # it was empty (a falsy object) iff this is the first
                        # notification it collects in this case
                        first = not collected[k]
                        collected[k] += 1
                        hits['empty_container_listener_notified' if first
                             else 'filled_container_listener_notified'] += 1
                        if first and a['step'] != step:
                            hits['empty_container_listener_told_later'] += 1
                    break
            else:
                same = [a for a in assigns if value_matches(got, a['value'])]
                where = (f'{op!r}: listener {label} of t{home} was told '
                         f'{ev}({got!r})')
                if any(a['i'] == home and a['prop'] == p for a in same):
                    raise Violation('listener_called_once', f'{where} a '
                                    f'second time', count='many', **feat)
                if any(a['i'] != home for a in same):
                    raise Violation('no_cross_talk', f'{where}, a value '
                                    f'assigned on the other transform',
                                    kind='other_instance', **feat)
                if same:
                    raise Violation('no_cross_talk', f'{where}, a value '
                                    f'assigned to {same[0]["prop"]}',
                                    kind='other_event', **feat)
                raise Violation('notified_value_is_stored_value',
                                f'{where}; no assignment of t{home}.{p} '
                                f'stored that value', **feat)
        # -- what the harness knows about the gates
        if verb == 'off':
            enabled[i] = False
        elif verb == 'on':
            enabled[i] = True
            if interrupted[i] and pending_before[i]:
                hits['release_resumed_after_interruption'] += 1
            if raise_pending[i] and pending_before[i] and not raised:
                hits['release_resumed_after_exception'] += 1
            interrupted[i] = False
            if pending_before[1 - i]:
                hits['other_transform_enabled_while_notifications_pending'] \
                    += 1
        elif verb == 'clear':
            enabled[i] = True
            interrupted[i] = False
            if pending_before[i]:
                hits['pending_notifications_dropped_by_clear'] += 1
            if pending_before[1 - i]:
                hits['other_transform_cleared_while_notifications_pending'] \
                    += 1
            if i in nondefault:
                hits['clear_of_transform_holding_assigned_values'] += 1
            reg[i].clear()
            for a in assigns:           # nobody is owed anything there
                if a['i'] == i:
                    a['must'] = set()
        elif verb == 'reg':
            if not reg[i]:
                hits['registered_after_clear'] += 1
            reg[i] = set(k for k, spec in enumerate(DEFER_LISTENERS)
                         if spec[2] == i)
        if verb in ('off', 'on', 'clear'):
            raise_pending[i] = False
        if pauser.fired != fired_before and mode == 'raise':
            # the notification during which the listener raised: whoever had
            # not been served yet is owed nothing for it (statement silent)
            # (which listeners these are depends on the order the
            # dispatcher serves them in; they are counted like the served
            # ones so that the evidence does not depend on that order)
            for pos in pauser.raised_at:
                a = matched[pos]
                for k in sorted(a['must'] - a['told']):
                    a.setdefault('excused', set()).add(k)
                    hits['notification_delivered_later' if a['step'] != step
                         else 'listener_notified'] += 1
                    n_calls += 1
                a['must'] = a['must'] & a['told']
                hits['notification_cut_short_by_raising_listener'] += 1
            left = sum(1 for a in assigns
                       if a['i'] == 0 and a['must'] - a['told'])
            if verb == 'on' and raised:
                # the harness's write of True did not return: the rest may
                # be pending although desper dispatches
                enabled[0] = False
                interrupted[0] = True
                raise_pending[0] = True
                if left:
                    hits['release_interrupted_by_exception'] += 1
                if left >= 2:
                    hits['release_interrupted_by_exception_two_or_more_left'] \
                        += 1
            if verb == 'set':
                hits['listener_raised_in_direct_notification'] += 1
        elif pauser.fired != fired_before:
            # the last write of t0.dispatch_enabled came from the callback
            enabled[0] = False
            interrupted[0] = True
            left = sum(1 for a in assigns
                       if a['i'] == 0 and a['must'] - a['told'])
            if verb == 'on' and left:
                hits['release_interrupted_by_listener'] += 1
            if verb == 'on' and left >= 2:
                hits['release_interrupted_two_or_more_left'] += 1
            if verb == 'set':
                hits['disabled_from_callback_of_direct_notification'] += 1
        # -- reads
        check_persistence(dim, ts, stored, verb, log, len(calls))
        # -- transforms that dispatch owe nothing
        for j in (0, 1):
            if not enabled[j]:
                if outstanding(j):
                    hits['notifications_pending_after_operation'] += 1
                continue
            for a in assigns:
                if a['i'] != j:
                    continue
                missing = a['must'] - a['told']
                if missing:
                    names = sorted(DEFER_LISTENERS[k][0] for k in missing)
                    raise Violation(
                        'listener_called_once',
                        f'after {op!r} t{j} dispatches and nothing can be '
                        f'pending, yet {names} were never told of '
                        f't{j}.{a["prop"]} = {a["value"]!r} (operation '
                        f'{a["step"]})', count='zero',
                        **dict(feat, prop=a['prop']))
            for (jj, p), a in sorted(last_assign.items(),
                                     key=lambda kv: kv[0]):
                if jj != j:
                    continue
                if a.get('overtook'):
                    continue
                hits['last_notification_checked'] += len(
                    a.get('excused', set()) & reg[j])
                for k in sorted(a['must'] & reg[j]):
                    last = last_told.get((k, p))
                    if last is not a:
                        raise Violation(
                            'last_notification_is_read_value',
                            f'after {op!r} t{j} dispatches and nothing can '
                            f'be pending: the last {EVENT_OF[p]} listener '
                            f'{DEFER_LISTENERS[k][0]} got carried '
                            f'{last["value"]!r} but t{j}.{p} reads '
                            f'{a["value"]!r}', **dict(feat, prop=p))
                    hits['last_notification_checked'] += 1
        n_calls += 1 + len(calls) + len(stored)
    # leave nothing behind for the next case of this worker process (state
    # that desper keeps outside the instances would otherwise make a verdict
    # depend on which cases ran before: not replayable)
    for t in ts:
        try:
            t.clear()
        except Exception:
            pass
    return {'calls': n_calls, 'hits': dict(hits), 'key': repr(case)}


# -- E3: constructor arguments ---------------------------------------------
def constructor_cases(tier=None):
    """(dim, position idx|None, rotation idx|None, scale idx|None, mode)
    mode: 'kw' keywords, 'pos' positional (only a prefix can be given)."""
    cases = []
    for dim in (2, 3):
        opts_v = (None, 0, 1, 2)
        opts_r = (None,) + tuple(range(len(ROTATIONS)))
        for p, r, s in itertools.product(opts_v, opts_r, opts_v):
            cases.append((dim, p, r, s, 'kw'))
            given = [x is not None for x in (p, r, s)]
            # positional: arguments given must form a prefix
            if given in ([True, False, False], [True, True, False],
                         [True, True, True]):
                cases.append((dim, p, r, s, 'pos'))
    return cases


def run_constructor_case(case):
    dim, p, r, s, mode = case
    hits = collections.Counter()
    cls = TRANSFORM[dim]
    given = {}
    for prop, idx in (('position', p), ('rotation', r), ('scale', s)):
        if idx is not None:
            given[prop] = make_value(dim, prop, idx)
    try:
        if mode == 'kw':
            t = cls(**given)
        else:
            t = cls(*[given[prop] for prop in PROPS if prop in given])
    except Exception as exc:
        raise Violation('constructor_raises',
                        f'{cls.__name__}({given!r}) raised '
                        f'{type(exc).__name__}: {exc}', dim=dim)
    fresh = cls()
    third = cls()
    for prop, idx in (('position', p), ('rotation', r), ('scale', s)):
        feat = dict(dim=dim, prop=prop, where='constructor',
                    band=('default' if idx is None
                          else rotation_band(dim, prop, idx)))
        if idx is None:
            check_defaults(dim, t, feat, props=(prop,))
            hits['constructor_default'] += 1
            continue
        check_stored(dim, prop, given[prop], getattr(t, prop), feat,
                     'constructor_stores')
        band = feat['band']
        if band in ('negative', 'out_of_range'):
            hits['rotation_out_of_range'] += 1
            hits['constructor_rotation_out_of_range'] += 1
        if band == 'negative':
            hits['negative_rotation'] += 1
        if prop != 'rotation' and idx == PLAIN_TUPLE:
            hits['plain_tuple_value'] += 1
    # instances built afterwards still start from the defaults, and nothing
    # any instance returns is a mutable object another one returns
    feat = dict(dim=dim, where='constructor')
    check_defaults(dim, fresh, feat)
    check_defaults(dim, third, feat)
    shared = 0
    for x, y in itertools.permutations((t, fresh, third), 2):
        shared += defaults_not_shared(dim, x, y, feat)
    if shared:
        hits['info_immutable_value_shared_between_instances'] += shared
    # assigning on one does not show on the others
    probe = make_value(dim, 'position', 1)
    olds = [(o, {q: getattr(o, q) for q in PROPS}) for o in (fresh, third)]
    t.position = probe
    for o, old in olds:
        for q, was in old.items():
            now = getattr(o, q)
            if not (now is was or (is_number(was) and is_number(now)
                                   and now == was)):
                raise Violation('instances_independent',
                                f'{q} of another instance changed from '
                                f'{was!r} to {now!r}', dim=dim, prop=q,
                                untouched=True)
    hits['constructed'] += 1
    return {'calls': 4, 'hits': dict(hits), 'key': repr(case)}


# -- entry points -----------------------------------------------------------
def drivers(tier):
    d = {}
    layouts = ('subsets', 'subsets-none', 'dup-shared', 'class-shapes',
               'rereg')
    for dim in (2, 3):
        for layout in layouts:
            drv = TransformDriver(dim, layout)
            if layout == 'rereg' and tier != 'quick':
                # one value per property: small enough to close (depth 13)
                kw = dict(max_states=400000, time_budget=600)
            elif layout == 'rereg':
                kw = dict(max_depth=4)
            elif tier == 'quick':
                kw = dict(max_depth=3)
            elif layout == 'dup-shared':
                # fewest listeners = cheapest canonical key: to fixpoint
                kw = dict(max_states=400000, time_budget=600)
            else:
                # the merged state space closes (depth 6: one assignment per
                # property and transform)
                kw = dict(max_states=400000, time_budget=600)
            d[drv.name] = (drv, kw)
    return d


E3_PARTS = {
    'listener-subsets': (run_subset_case, subset_cases),
    'listener-classes': (run_subset_case, class_cases),
    'registration-histories': (run_registration_case, registration_cases),
    'constructor': (run_constructor_case, constructor_cases),
    'reentrant': (run_reentrant_case, reentrant_cases),
    'deferred': (run_deferred_case, deferred_cases),
    'deferred-interrupted': (run_deferred_case, interrupted_cases),
    'deferred-raising': (run_deferred_case, raising_cases),
    'listener-lifetimes': (run_lifetime_case, lifetime_cases),
}


def run(tier, rep):
    rep.rule = RULE
    rep.assumptions += [
        'a listener is told "the value that was stored" when the callback '
        'argument == the value read from the property right after the '
        'assignment and, for vector values, is that very object',
        'stored == assigned is judged with == (constructor values are '
        'converted to Vec instances by desper; identity is not demanded '
        'there); 2D rotation: read-back in [0, 360) and congruent modulo '
        '360 within 1e-9',
        'the order in which listeners are called is not part of the '
        'statement (ledger compared per listener)',
        'default values "not shared": a marker attribute set on the object '
        'one instance returns must not be visible on what another instance '
        'returns; two instances returning the same immutable object would '
        'be counted as information only',
        'a listener of an event is an object registered with add_handler '
        'whose __events__ (a class attribute written by event_handler, '
        'composed with inherited subscriptions as the decorator documents '
        'and tests/test_events.py pins, or an instance attribute - the '
        'EventHandler protocol only asks for the field) names that event; '
        'registering the same object again leaves one listener; after '
        'remove_handler it is no listener.  remove_handler of an object '
        'that is not registered may raise or not (statement silent) and is '
        'only generated in part registration-histories; t.clear() there '
        'removes every listener of t (none of them is told of later '
        'assignments until it is added again) and - like every other '
        'operation of that part - must leave every property of both '
        'transforms reading the value last stored (clause '
        'stored_value_persists: "stores the value" means until the next '
        'assignment, not until the listeners change)',
        'listener classes are created at import, bases before subclasses; '
        'process-wide caches inside desper that depend on which listener '
        'was registered first see the enumeration order of the run (every '
        'worker is forked after the classes exist)',
        'dispatch_enabled = False / True and clear() are operations of the '
        'parts "deferred" and "deferred-interrupted" only (clear() also of '
        '"registration-histories"); elsewhere every transform dispatches.  '
        'Listeners have no side effects, except the correcting listener of '
        'part "reentrant", the pausing listener of part '
        '"deferred-interrupted", the acting listener of part '
        '"listener-lifetimes" and the raising listener of part '
        '"deferred-raising"; no other listener raises',
        'parts "deferred" / "deferred-interrupted": WHEN a held-back '
        'notification is delivered, and to whom of the listeners that were '
        'registered meanwhile, is C04, not C20 - accepted either way.  '
        'Demanded: (1) every call of a listener is for an event it is '
        'subscribed to, on a transform it is registered on at that moment, '
        'with one positional argument that is the value stored by an '
        'assignment of that property on that transform (what the property '
        'read right after the assignment; vectors: that very object) which '
        'this listener has not been told yet - else it is a second '
        'notification, a value of the other transform, of another property, '
        'or a value never stored; (2) after every operation, for each '
        'transform the harness knows to be dispatching (the last write of '
        'its dispatch_enabled - by the harness or by the pausing listener - '
        'was True, or clear() which documents enabling; no trust in what '
        'desper reports) every listener has been told every assignment made '
        'while it was registered (clear() cancels what its listeners were '
        'owed: "pending events are lost" is documented, delivering them '
        'during clear() would be accepted too), and the notification it got '
        'last for a property carries the value of the last assignment, i.e. '
        'what the property reads; (3) after every operation every property '
        'of both transforms reads the value last stored (== or identity), '
        'in particular after clear() and after enabling.  Not demanded: '
        'that nothing is delivered while disabled, the order of '
        'notifications other than which one comes last, what '
        'dispatch_enabled reads',
        'part "reentrant": after the OUTERMOST assignment returns the '
        'property reads the value carried by the last notification of the '
        'matching event, judged on the ledger of the correcting listener '
        '(its nested notification arrives while its outer callback runs, so '
        'it is its last one under any delivery order; with several '
        'listeners the order of delivery is unspecified and a passive '
        'listener served after the correcting one is told the outer value '
        'last - accepted); every listener of the event got exactly one '
        'notification per assignment, outer and nested (for the passive '
        'listener only the count is judged when a nested assignment took '
        'place); no other event, no listener of the other transform.  Not '
        'demanded there: what a callback reads from the transform while it '
        'runs, which values the passive listener is told, that the value '
        'finally stored equals the corrected one (only: equals the last '
        'notification).  One correcting listener per transform, one '
        'correction per outer assignment.',
        'falsy listeners: a listener object may be falsy (kinds fl<i>: a '
        'container-like listener whose len() is the number of notifications '
        'it has collected, empty until the first one; fb<i>: __bool__ '
        'answers False) - it is a listener like any other ("each '
        'listener"); explored in part "listener-classes" (every ordered '
        'pair with every other class shape x every single assignment) and '
        'as the position listener D1.trail-pos of t1 in part "deferred" '
        '(told while empty, told again when filled, told later)',
        'part "listener-lifetimes": three listeners for all events on t0, '
        'three assignments of one property; during the second one the actor '
        '- from inside its callback - drops the last strong reference to '
        'another listener (the harness holds none: CPython frees it at '
        'once, the transform refers to listeners weakly), or calls '
        't0.remove_handler(another listener), or t0.add_handler(a new '
        'one); every ordered (actor, victim) pair, so that under any '
        'serving order of the dispatcher one case has the victim go between '
        'the actor and a listener not yet served (guard '
        'dead_listener_ahead_of_unserved_listener: judged from the order '
        'observed at the first assignment).  Demanded: the listeners that '
        'are registered and alive throughout are told each assignment '
        'exactly once with the value the property reads; no other event, '
        'no listener of the other transform; a listener removed from a '
        'callback hears nothing of later assignments, one added from a '
        'callback is told every later assignment once.  Accepted either '
        'way: whether the victim / the newcomer is told of the assignment '
        'during which it went / came (if told: once, that value), whether a '
        'dropped listener that a dispatcher kept alive is still told.  The '
        'actor acts once per case',
        'part "deferred-raising": like "deferred-interrupted" but the '
        'all-events listener of t0 RAISES (ListenerError, after logging the '
        'notification) at its j-th notification.  The statement is silent '
        'about raising listeners, so: the exception may reach the caller of '
        'the assignment / of dispatch_enabled = True or not; the listeners '
        'that had not been served for THAT notification are owed nothing '
        '(which ones these are depends on the serving order of the '
        'dispatcher; the evidence counts them like served ones so that the '
        'counters do not depend on that order); '
        'a write of dispatch_enabled = True that raised does not count as '
        '"the harness knows that t0 dispatches"; an assignment made after '
        'such a write (desper dispatches, older notifications of the same '
        'property may still be pending) is not judged for which value comes '
        'last.  Demanded, as in the other deferred parts: properties read '
        'what was stored although the setter raised; once a later '
        'dispatch_enabled = True (or clear()) RETURNED, every listener has '
        'been told every other assignment made while it was registered - '
        'enabling a transform that reports enabled but still holds '
        'notifications must release them - and nobody is told twice or a '
        'foreign value',
        'quick: histories up to depth 3 (rereg: 4; depth caps reported, so '
        '`exhaustive` is false); thorough: the fixpoint of the merged state '
        'space of every layout',
    ]
    rep.require_hits(rotation_out_of_range=1, negative_rotation=1,
                     other_instance_listener=1, other_event_listener=1,
                     no_listener_for_event=1, multiple_listeners=1,
                     listener_notified=1, plain_tuple_value=1,
                     constructor_rotation_out_of_range=1, rotation_3d=1,
                     reentrant_assignment=1, reentrant_with_passive_listener=1,
                     reentrant_plain_tuple_correction=1,
                     reentrant_after_earlier_assignment=1,
                     hierarchy_base_notified=1, hierarchy_base_stands_by=1,
                     hierarchy_subclass_notified=1,
                     instance_events_probe_notified=1,
                     instance_events_probe_stands_by=1,
                     base_instance_alone=1,
                     base_and_subclass_instances_together=1,
                     two_probes_of_one_class_different_events=1,
                     double_registration=1, listener_removed=1,
                     unregistered_listener_stands_by=1,
                     assignment_after_double_registration=1,
                     assignment_after_removal=1,
                     assignment_after_removal_of_double_registration=1,
                     registered_again_after_removal=1,
                     listener_removed_by_clear=1, assignment_after_clear=1,
                     registered_after_clear=1,
                     clear_of_transform_holding_assigned_values=1,
                     assignment_while_disabled=1,
                     notification_delivered_later=1,
                     notifications_pending_after_operation=1,
                     last_notification_checked=1,
                     pending_notifications_dropped_by_clear=1,
                     other_transform_enabled_while_notifications_pending=1,
                     other_transform_cleared_while_notifications_pending=1,
                     release_interrupted_by_listener=1,
                     release_interrupted_two_or_more_left=1,
                     release_resumed_after_interruption=1,
                     assignment_behind_interrupted_release=1,
                     disabled_from_callback_of_direct_notification=1,
                     empty_container_listener_notified=1,
                     bool_false_listener_notified=1,
                     falsy_listener_stands_by=1,
                     falsy_and_truthy_listener_of_one_event=1,
                     filled_container_listener_notified=1,
                     empty_container_listener_told_later=1,
                     listener_dropped_during_delivery=1,
                     dropped_listener_ceased_to_exist_during_delivery=1,
                     dead_listener_ahead_of_unserved_listener=1,
                     listener_removed_during_delivery=1,
                     listener_added_during_delivery=1,
                     assignment_after_listener_dropped_during_delivery=1,
                     assignment_after_listener_removed_during_delivery=1,
                     assignment_after_listener_added_during_delivery=1,
                     release_interrupted_by_exception=1,
                     release_interrupted_by_exception_two_or_more_left=1,
                     release_resumed_after_exception=1,
                     listener_raised_in_direct_notification=1,
                     notification_cut_short_by_raising_listener=1,
                     **{f'reentrant_{d}d_{p}': 1 for d in (2, 3)
                        for p in PROPS})
    for name, (driver, kw) in drivers(tier).items():
        kernel.explore(driver, rep, part=name, params=driver.params(), **kw)
    for part, (runner, cases) in E3_PARTS.items():
        params = dict(rotations=list(ROTATIONS))
        if part == 'listener-classes':
            params.update(kinds=list(CLASS_KINDS) + [None])
        if part == 'registration-histories':
            params.update(
                max_sequence_length=REG_MAX_LEN[tier],
                listeners=[[lab, kind_text(k)] for lab, k in REG_LISTENERS],
                operations=[list(op) for op in registration_ops()],
                values={k: list(v) for k, v in REREG_MENU.items()})
        if part == 'reentrant':
            params.update(
                max_sequence_length=REENTRANT_MAX_LEN[tier],
                vectors={str(d): [list(v) for v in VECTORS[d]]
                         for d in (2, 3)},
                corrected={'rotation_2d': f'> {CLAMP} -> {-CLAMP}',
                           'rotation_3d': f'|x| > {CLAMP} -> x clamped',
                           'position_scale': 'vectors 1 and 2 -> second '
                                             'component zeroed'})
        if part == 'listener-classes':
            params.update(falsy_kinds=list(FALSY_KINDS))
        if part == 'listener-lifetimes':
            params = dict(
                listeners=[[lab, '111', 0] for lab in LIFE_LABELS]
                + [['New', '111', 'registered from a callback (add)'],
                   ['Other', '111', 1]],
                actions=list(LIFE_ACTIONS),
                actor_victim='every ordered pair of the three listeners '
                             '(add: every actor)',
                assignments='three of one property (every property), the '
                            'action during the second',
                values='as in part deferred: k-th value of the fixed lists')
        if part == 'deferred-raising':
            params = dict(
                max_sequence_length=RAISE_MAX_LEN[tier],
                operations=[list(op) for op in raising_ops()],
                listeners=[[lab, kind_text(k) if k != 'pause' else
                            'pause (raises ListenerError)', home]
                           for lab, k, home in DEFER_LISTENERS],
                rotations_in_order_of_assignment=list(DEFER_ROTATIONS),
                vectors_in_order_of_assignment=list(DEFER_VECTORS),
                disabled_at_start=['t0'],
                raising_ordinals='{1}, {2}, {1, 2}')
        if part in ('deferred', 'deferred-interrupted'):
            inter = part == 'deferred-interrupted'
            params = dict(
                max_sequence_length=(INTERRUPT_MAX_LEN if inter
                                     else DEFER_MAX_LEN)[tier],
                operations=[list(op) for op in
                            (interrupted_ops() if inter else deferred_ops())],
                listeners=[[lab, kind_text(k) if k != 'pause' else 'pause',
                            home] for lab, k, home in DEFER_LISTENERS],
                rotations_in_order_of_assignment=list(DEFER_ROTATIONS),
                vectors_in_order_of_assignment=list(DEFER_VECTORS),
                disabled_at_start=['t0'] if inter else [],
                pausing_ordinals=(f'every non-empty subset of 1..'
                                  f'{INTERRUPT_ORDINALS[tier]}' if inter
                                  else 'none (the listener is passive)'))
        kernel.enumerate_cases(runner, cases(tier), rep, part,
                               params=params)


def replay(rec):
    part = rec['part']
    if part in E3_PARTS:
        case = kernel.totuple(rec['case'])
        try:
            E3_PARTS[part][0](case)
        except Violation as v:
            return v
        return None
    ds = drivers('thorough')
    if part in ds:
        return kernel.replay_case(ds[part][0], rec['case'])
    raise SystemExit(f'unknown part {part}')
