"""C13 - world switching delivers in/out events to the worlds that run (E2)."""
import itertools

from mc import env  # noqa: F401
from mc import kernel
from mc.report import Violation, HarnessError

import desper

RULE = ('E2: every switch script (one request per frame, then Quit) on a real '
        'SimpleLoop with a scripted clock; a request = target handle (the '
        'current one included) x clear_current x clear_next x source '
        '(processor, on_update callback, coroutine) x via (switch() with '
        'from_world, switch() through desper.default_loop, bare raise '
        'SwitchWorld); handles pre-loaded or not; worlds come from '
        'WorldHandle.load (disabled, load-time callbacks pending); a probe '
        'event is dispatched into every world that was left.  Event ledger '
        'per world *instance*.  Non-trivial = a clear flag, a self switch, a '
        're-entered world with held events, a non-processor source.')

SOURCES = ('processor', 'on_update', 'coroutine', 'release')
VIAS = ('switch_from', 'switch_default', 'raise')


class Horizon(BaseException):
    pass


class Env:
    pass


def perform(envx, world):
    req = envx.armed
    envx.armed = None
    target, cc, cn, source, via = req[:5]
    cc, cn = bool(cc), bool(cn)
    handle = envx.handles[target]
    envx.log.append(('request', world.vlabel, envx.frame, req))
    if len(req) > 5 and req[5]:
        # the running code first drops the cache of the handle it runs
        # from (a public Handle.clear()): its world keeps running
        envx.loop.current_world_handle.clear()
    envx.last_left = (world, world.vlabel, via)
    if via == 'switch_from':
        desper.switch(handle, clear_current=cc, clear_next=cn,
                      from_world=world)
    elif via == 'switch_default':
        desper.switch(handle, clear_current=cc, clear_next=cn)
    else:
        raise desper.SwitchWorld(handle, clear_current=cc, clear_next=cn)
    raise HarnessError('switch() returned')


@desper.event_handler('on_add', 'on_world_load', 'on_switch_in',
                      'on_switch_out', 'probe', 'on_update')
class Lg:
    def __init__(self, envx, label):
        self.envx = envx
        self.label = label

    def __hash__(self):
        # deterministic (labels are strings, PYTHONHASHSEED is fixed): the
        # iteration order of desper's listener sets must not depend on
        # object addresses, or replays of one history could differ
        return hash(self.label)

    def on_add(self, entity, world):
        self.envx.log.append(('on_add', self.label, world.vlabel))

    def on_world_load(self, handle, world):
        self.envx.log.append(('on_world_load', self.label, handle.name,
                              world.vlabel))

    def on_switch_in(self, from_world, to_world):
        self.envx.log.append(('on_switch_in', self.label,
                              getattr(from_world, 'vlabel', None),
                              getattr(to_world, 'vlabel', None)))

    def on_switch_out(self, from_world, to_world):
        self.envx.log.append(('on_switch_out', self.label,
                              getattr(from_world, 'vlabel', None),
                              getattr(to_world, 'vlabel', None)))

    def probe(self, n):
        envx = self.envx
        envx.log.append(('probe', self.label, n))
        if (envx.armed is not None and envx.armed[3] == 'release'
                and envx.burst and n == envx.burst[0]
                and envx.current is self.world_ref):
            # the callback of the first of three events that the world is
            # releasing asks for the switch: two events stay pending
            perform(envx, self.world_ref)

    def on_update(self, dt):
        envx = self.envx
        envx.log.append(('on_update', self.label, envx.frame))
        if (envx.armed is not None and envx.armed[3] == 'on_update'
                and envx.current is self.world_ref):
            perform(envx, self.world_ref)


class ScriptProc(desper.Processor):
    priority = -1

    def __init__(self, envx):
        self.envx = envx

    def process(self, dt):
        envx = self.envx
        w = self.world
        envx.current = w
        envx.log.append(('process', w.vlabel, envx.frame))
        if envx.last_left is not None:
            left, label, via = envx.last_left
            envx.last_left = None
            if left is not w:
                envx.probes += 1
                envx.log.append(('probe_sent', label, envx.probes, via))
                left.dispatch('probe', envx.probes)
        if envx.step >= len(envx.script):
            raise desper.Quit()
        envx.armed = envx.script[envx.step]
        envx.step += 1
        if envx.armed[3] == 'processor':
            perform(envx, w)
        elif envx.armed[3] == 'release':
            # the world holds a burst of its own events and releases them
            # inside its frame; the first callback issues the request
            envx.burst = tuple(envx.probes + k for k in (1, 2, 3))
            envx.probes += 3
            envx.log.append(('burst_sent', w.vlabel, envx.burst,
                             envx.armed[4]))
            w.dispatch_enabled = False
            for n in envx.burst:
                w.dispatch('probe', n)
            w.dispatch_enabled = True
        elif envx.armed[3] == 'coroutine':
            # the CoroutineProcessor is reset per request: an exception leaving a
            # coroutine body (SwitchWorld here) leaves the old processor's
            # queue rotated, and its coroutines skip the next frame - that
            # is outside this property (and outside C08's alphabet)
            cp = w.get_processor(desper.CoroutineProcessor)
            cp.__init__()
            cp.start(coroutine_body(envx, w))


class TailProc(desper.Processor):
    priority = 10

    def __init__(self, envx):
        self.envx = envx

    def process(self, dt):
        envx = self.envx
        if envx.armed is not None:
            # the frame reached its last processor but neither the on_update
            # callback nor the coroutine of the processed world ran: the loop
            # is processing a world that is not the live, enabled target
            envx.stalled = (envx.frame, self.world.vlabel, envx.armed,
                            self.world.dispatch_enabled)
            raise desper.Quit()
        envx.log.append(('tail', self.world.vlabel, envx.frame))


def coroutine_body(envx, world):
    """One-shot body: a generator that raises is finished, so every request
    issued from a coroutine gets its own generator."""
    if (envx.armed is not None and envx.armed[3] == 'coroutine'
            and envx.current is world):
        perform(envx, world)
    yield


class LabWorld(desper.World):
    """Logs when a frame is over (normally or abandoned)."""
    envx = None

    def process(self, dt):
        try:
            super().process(dt)
        finally:
            self.envx.log.append(('frame_over',
                                  getattr(self, 'vlabel', None)))


class FalsyWorld(LabWorld):
    """A legal World subclass that is falsy (e.g. __len__ = number of
    something that happens to be zero): presence must be tested with
    `is None`, never by truth."""

    def __len__(self):
        return 0


class LabHandle(desper.WorldHandle):
    def __init__(self, envx, name):
        super().__init__()
        self.envx = envx
        self.name = name
        self.count = 0
        self.transform_functions.append(self.populate)

    def load(self):
        self.envx.loading = self.name
        return super().load()

    # handles may define value equality (say, a dataclass holding a file
    # name): all of them compare and hash equal here - the loop is about
    # handle *objects*
    def __eq__(self, other):
        return isinstance(other, LabHandle)

    def __hash__(self):
        return 11

    def populate(self, handle, world):
        envx = self.envx
        self.count += 1
        world.vlabel = f'{self.name}#{self.count}'
        envx.log.append(('load', world.vlabel))
        envx.worlds[world.vlabel] = world
        world.add_processor(ScriptProc(envx))
        world.add_processor(desper.OnUpdateProcessor())
        world.add_processor(desper.CoroutineProcessor())
        world.add_processor(TailProc(envx))
        lg = Lg(envx, world.vlabel)
        lg.world_ref = world
        world.create_entity(lg)


def run_case(case):
    names, preload, script = case
    script = [tuple(r) for r in script]
    envx = Env()
    envx.log = []
    envx.worlds = {}
    envx.frame = -1
    envx.step = 0
    envx.script = script
    envx.armed = None
    envx.current = None
    envx.last_left = None
    envx.probes = 0
    envx.stalled = None
    envx.burst = ()
    envx.handles = {n: LabHandle(envx, n) for n in names}

    def clock():
        envx.frame += 1
        if envx.frame > len(script) + 2:
            raise Horizon()
        return float(envx.frame)

    loop = desper.SimpleLoop(clock)
    envx.loop = loop
    old_default = desper.default_loop
    # the loop under test is the default loop only when some request relies
    # on it; otherwise desper.default_loop stays another, idle, loop (every
    # switch() then carries from_world explicitly)
    if any(r[4] == 'switch_default' for r in script):
        desper.default_loop = loop
    else:
        desper.default_loop = desper.SimpleLoop(lambda: 0.0)
    import desper.model.world as model_world
    old_world_class = model_world.World
    envx.loading = None
    # worlds of every handle but the first are falsy World subclasses
    LabWorld.envx = envx
    model_world.World = lambda: (LabWorld() if envx.loading == names[0]
                                 else FalsyWorld())
    try:
        if preload:
            for n in names:
                envx.handles[n]()
        loop.switch(envx.handles[names[0]])
        try:
            loop.start()
        except Horizon:
            raise Violation('loop_reaches_quit',
                            f'script {case} did not reach its Quit frame; '
                            f'log {envx.log[-6:]}')
        except HarnessError:
            raise
        except Exception as exc:
            raise Violation('switching_raises_nothing',
                            f'script {case}: start() raised {exc!r}',
                            exception=type(exc).__name__)
    finally:
        desper.default_loop = old_default
        model_world.World = old_world_class
    return judge(case, envx)


def judge(case, envx):
    names, preload, script = case
    log = envx.log
    hits = {}
    pos_process = {}    # frame -> (log index, label)
    for i, r in enumerate(log):
        if r[0] == 'process':
            if r[2] in pos_process:
                raise Violation('one_process_per_frame', f'{case}: {r}')
            pos_process[r[2]] = (i, r[1])
    req_pos = [i for i, r in enumerate(log) if r[0] == 'request']
    if envx.stalled is not None:
        frame, label, req, enabled = envx.stalled
        raise Violation(
            'entered_world_runs_normally',
            f'{case}: in frame {frame} the loop processed {label} '
            f'(dispatch_enabled={enabled}) but its on_update callback / '
            f'coroutine never ran, so request {req} could not be issued: the '
            f'world being processed is not the live instance of the target',
            world_enabled=bool(enabled), source=req[3])
    if len(req_pos) != len(script):
        raise HarnessError(f'{case}: {len(req_pos)} requests logged')
    cached = {n: (f'{n}#1' if preload else None) for n in names}
    cached[names[0]] = f'{names[0]}#1'
    current = (names[0], f'{names[0]}#1')
    entered_by = {}     # request index -> entered label
    for i, req in enumerate(script):
        target, cc, cn, source, via = req[:5]
        pre_clear = len(req) > 5 and bool(req[5])
        feats = dict(through_switch=via != 'raise', clear_current=bool(cc),
                     clear_next=bool(cn), self_switch=target == current[0])
        if pre_clear:
            feats['current_handle_cleared_first'] = True
            hits['current_handle_cleared_from_outside'] = 1
            cached[current[0]] = None
        cname, c = current
        start = req_pos[i]
        if log[start][1] != c:
            raise HarnessError(f'{case}: request {i} issued by '
                               f'{log[start][1]}, model says {c}')
        if (i + 1) not in pos_process:
            raise Violation('next_iteration_processes_target',
                            f'{case}: no frame after request {i}', **feats)
        end, e = pos_process[i + 1]
        window = log[start:end]
        known_before = {r[1] for r in log[:start] if r[0] == 'load'}
        if cc or cn:
            hits['clear_flag'] = 1
        if target == cname:
            hits['self_switch'] = 1
        if source != 'processor':
            hits['source_' + source] = 1
        # (a) rest of the frame abandoned
        late = [r for r in window[1:] if r[0] in ('tail', 'on_update')
                and r[2] == i]
        if late:
            raise Violation('rest_of_frame_abandoned',
                            f'{case}: after request {i} the frame went on: '
                            f'{late}', **feats)
        # (b) which instance runs next
        if e.split('#')[0] != target:
            raise Violation('next_iteration_processes_target',
                            f'{case}: request {i} targets {target}, next '
                            f'frame processed {e}', **feats)
        fresh = cached[target] is None or cn or (cc and target == cname)
        if fresh:
            if e in known_before:
                raise Violation('clear_flag_yields_fresh_instance',
                                f'{case}: request {i} should enter a new '
                                f'instance of {target}, entered {e}', **feats)
        elif e != cached[target]:
            raise Violation('reenters_cached_instance',
                            f'{case}: request {i} should re-enter '
                            f'{cached[target]}, entered {e}', **feats)
        if cc:
            cached[cname] = None
        cached[target] = e
        entered_by[i] = e
        # (c, d) events of switch()
        outs = [r for r in window if r[0] == 'on_switch_out']
        ins = [r for r in window if r[0] == 'on_switch_in']
        if via != 'raise':
            if len(outs) != 1 or outs[0][1] != c or outs[0][2] != c:
                raise Violation(
                    'switch_out_once_in_world_left',
                    f'{case}: request {i} leaves {c}; on_switch_out log '
                    f'{outs}', **feats)
            if outs[0][3] != e:
                raise Violation(
                    'switch_out_names_entered_world',
                    f'{case}: request {i}: on_switch_out(to={outs[0][3]}) '
                    f'but the world entered is {e}', **feats)
            if len(ins) != 1 or ins[0][1] != e:
                raise Violation(
                    'switch_in_once_in_world_entered',
                    f'{case}: request {i} enters {e}; on_switch_in was '
                    f'delivered to {[r[1] for r in ins]} (loads in the '
                    f'window: {[r[1] for r in window if r[0] == "load"]})',
                    delivered=len(ins), **feats)
            if ins[0][2] != c or ins[0][3] != e:
                raise Violation(
                    'switch_in_arguments',
                    f'{case}: request {i}: on_switch_in(from={ins[0][2]}, '
                    f'to={ins[0][3]}), expected ({c}, {e})', **feats)
            idx_in = log.index(ins[0], start)
            over = [j for j in range(start, end)
                    if log[j] == ('frame_over', c)]
            if not over or idx_in < over[0]:
                raise Violation(
                    'switch_in_after_frame_abandoned',
                    f'{case}: request {i}: on_switch_in reached {e} while '
                    f'the frame of {c} that asked for the switch was still '
                    f'running (window {window})', **feats)
            own = [j for j, r in enumerate(log)
                   if r[0] in ('on_add', 'on_world_load') and r[1] == e]
            if any(j > idx_in for j in own):
                raise Violation(
                    'switch_in_after_load_callbacks',
                    f'{case}: {e} got on_switch_in before its own load-time '
                    f'callbacks', **feats)
        current = (target, e)
    # load-time callbacks of every instance that ran
    for frame, (idx, label) in pos_process.items():
        for kind in ('on_add', 'on_world_load'):
            hitsk = [j for j, r in enumerate(log)
                     if r[0] == kind and r[1] == label]
            first = min(j for j, r in enumerate(log)
                        if r[0] == 'process' and r[1] == label)
            if len(hitsk) != 1 or hitsk[0] > first:
                raise Violation('load_callbacks_once_before_first_frame',
                                f'{case}: {label} got {kind} {len(hitsk)} '
                                f'time(s) (first frame at {first}: {hitsk})',
                                callback=kind)
    # probes dispatched into worlds that were left
    for p, r in enumerate(log):
        if r[0] != 'probe_sent':
            continue
        _, label, n, via = r
        deliveries = [j for j, x in enumerate(log)
                      if x[0] == 'probe' and x[2] == n]
        if any(log[j][1] != label for j in deliveries):
            raise Violation('probe_reaches_its_world', f'{case}: {r}')
        if len(deliveries) > 1:
            raise Violation('held_event_delivered_once',
                            f'{case}: probe {n} into {label} delivered '
                            f'{len(deliveries)} times', via=via)
        if via == 'raise':
            continue
        nxt = [j for j, x in enumerate(log)
               if j > p and x[0] == 'process' and x[1] == label]
        if not nxt:
            if deliveries:
                raise Violation('left_world_holds_its_events',
                                f'{case}: probe {n} into {label} (left '
                                f'through switch, never entered again) was '
                                f'delivered', via=via, reentered=False)
            continue
        hits['held_event_released_on_reentry'] = 1
        q = nxt[0]
        reentry = max(j for j in req_pos if j < q)
        if len(deliveries) != 1 or not (reentry < deliveries[0] < q):
            raise Violation(
                'left_world_holds_its_events',
                f'{case}: probe {n} into {label} (left through switch at '
                f'log {p}, re-entered by the request at {reentry}, next '
                f'processed at {q}) delivered at {deliveries}',
                via=via, reentered=True,
                early=bool(deliveries) and deliveries[0] < reentry)
    # events a world was releasing when one of their callbacks switched
    for p, r in enumerate(log):
        if r[0] != 'burst_sent':
            continue
        _, label, burst, via = r
        hits['switch_from_inside_a_release'] = 1
        where = {n: [j for j, x in enumerate(log)
                     if x[0] == 'probe' and x[2] == n] for n in burst}
        if any(log[j][1] != label for js in where.values() for j in js):
            raise Violation('probe_reaches_its_world', f'{case}: {r}')
        if any(len(js) > 1 for js in where.values()):
            raise Violation('held_event_delivered_once',
                            f'{case}: burst {burst} of {label}: deliveries '
                            f'{where}', via=via)
        if via == 'raise':
            continue
        rest = burst[1:]
        nxt = [j for j, x in enumerate(log)
               if j > p and x[0] == 'process' and x[1] == label]
        if not nxt:
            if any(where[n] for n in rest):
                raise Violation('left_world_holds_its_events',
                                f'{case}: events {rest} of {label} (left '
                                f'through switch from inside their release, '
                                f'never entered again) were delivered',
                                via=via, reentered=False)
            continue
        q = nxt[0]
        reentry = max(j for j in req_pos if j < q)
        got = [where[n][0] if where[n] else None for n in rest]
        if (None in got or got != sorted(got)
                or not all(reentry < j < q for j in got)):
            raise Violation(
                'left_world_holds_its_events',
                f'{case}: {label} was releasing {burst} when the callback '
                f'of the first asked for the switch; it is entered again by '
                f'the request at log {reentry} and processed at {q}; the '
                f'two events still pending were delivered at {got}',
                via=via, reentered=True, interrupted_release=True,
                early=False)
        hits['interrupted_release_resumed_on_reentry'] = 1
    return {'calls': len(script) + 1, 'hits': hits, 'key': repr(case),
            'nontrivial': bool(hits)}


def requests(names, sources=SOURCES, vias=VIAS, pre=(0,)):
    out = []
    for p in pre:
        for t in names:
            for cc in (0, 1):
                for cn in (0, 1):
                    for s in sources:
                        for v in vias:
                            out.append((t, cc, cn, s, v, 1) if p
                                       else (t, cc, cn, s, v))
    return out


def cases(tier):
    out = []
    two = ('A', 'B')
    three = ('A', 'B', 'C')
    full2 = requests(two)
    lean2 = requests(two, sources=('processor',),
                     vias=('switch_from', 'raise'))
    mid2 = requests(two, sources=('processor', 'coroutine'),
                    vias=('switch_from', 'raise'))
    # requests issued after the running code cleared the handle it runs from
    pre2 = requests(two, sources=('processor', 'on_update'),
                    vias=('switch_from', 'switch_default', 'raise'),
                    pre=(1,))
    for preload in (0, 1):
        for n in (1, 2):
            for script in itertools.product(full2, repeat=n):
                out.append((two, preload, script))
        for script in itertools.product(lean2, repeat=3):
            out.append((two, preload, script))
        for first in pre2:
            out.append((two, preload, (first,)))
            for second in lean2:
                out.append((two, preload, (first, second)))
                out.append((two, preload, (second, first)))
    if tier == 'thorough':
        full3 = requests(three)
        lean3 = requests(three, sources=('processor',),
                         vias=('switch_from', 'raise'))
        for preload in (0, 1):
            for script in itertools.product(full2, repeat=3):
                out.append((two, preload, script))
            for n in (1, 2):
                for script in itertools.product(full3, repeat=n):
                    out.append((three, preload, script))
            for script in itertools.product(lean3, repeat=3):
                out.append((three, preload, script))
            for script in itertools.product(lean2, repeat=4):
                out.append((two, preload, script))
        del mid2
    return out


def run(tier, rep):
    rep.rule = RULE
    rep.assumptions += [
        'the number of load() calls per request is free (reported only)',
        'worlds of all handles but the first are falsy World subclasses '
        '(WorldHandle.load is given that class through the module global)',
        'a world left through a bare raise SwitchWorld is not disabled: what '
        'happens to events dispatched into it is not constrained',
        'the `to` argument of on_switch_out is judged by its own clause '
        '(switch_out_names_entered_world)',
        'requests with a sixth field: the running code first calls clear() '
        'on the handle it runs from (its world keeps running); that handle '
        'then counts as not loaded - switching to it enters a fresh instance',
        'all handles compare and hash equal (value equality is legal for '
        'Handle subclasses): which handle is left or entered is a matter of '
        'identity',
        'source "release": the running world disables its dispatching, '
        'dispatches three events and enables again inside its frame; the '
        'callback of the first event asks for the switch.  The two events '
        'still pending belong to the world that is left: delivered once, in '
        'order, when (and only when) that instance is entered again - not '
        'constrained after a bare raise SwitchWorld',
        'on_switch_in is delivered in the world "that is actually entered": '
        'not before the frame that asked for the switch is over (worlds are '
        'World subclasses that log the end of process())',
    ]
    rep.require_hits(clear_flag=1, self_switch=1, source_on_update=1,
                     source_coroutine=1, held_event_released_on_reentry=1,
                     switch_from_inside_a_release=1,
                     current_handle_cleared_from_outside=1,
                     interrupted_release_resumed_on_reentry=1)
    kernel.enumerate_cases(run_case, cases(tier), rep, 'switch-scripts',
                           chunk=500,
                           params=dict(sources=SOURCES, vias=VIAS,
                                       flags='clear_current x clear_next'))


def replay(rec):
    try:
        run_case(kernel.totuple(rec['case']))
    except Violation as v:
        return v
    return None
