"""C18 - vector and matrix operations compute their textbook definitions.

Bounded-exhaustive input enumeration (E3, DESIGN.md 2.3 and section 3/C18):
every member of a finite, explicitly described family is run through the real
``desper.math`` and compared with a list-based textbook reference evaluated
in exact arithmetic (``int`` / ``fractions.Fraction``).  The families are
chosen so that, for the polynomial operations, agreement on the family is
agreement everywhere (grid lemma, degree-2 family lemma below); the square
root / angle operations are only a bounded tolerance check on a finite grid.

Layout facts the oracle relies on (taken from the property statement):

* a matrix is the grid its values are written in, read row by row:
  entry (i, j) of an n x n matrix is ``values[n * i + j]``;
* ``A @ B`` is the row-by-column product of those grids;
* the law ``(A @ B) @ v == B @ (A @ v)`` makes ``M @ v`` the product of the
  *row* vector v with the grid M (``result[j] = sum_k v[k] * M[k][j]``); the
  constructors agree with that reading (translations live in the last row).

The inverse is additionally run on scaled copies of small complete grids
(part ``mat4_inverse_scaled``): regular matrices with tiny / huge determinants
must still be inverted, singular ones with large entries still reported.

lerp runs, on the complete grid of vector pairs, with alphas inside, on
and beyond both end points of [0, 1] (a clamped / saturated alpha is a
branching variant that the polynomial argument does not cover), and part
``vec_zero_length`` runs every direction- or length-defined operation on
every way of writing the zero vector (the boundary where v / |v| has no value
and each operation depends on a guard).

Part ``swizzle_history`` decides process-wide state behind the swizzle
look-up (caches keyed by the attribute name, remembered failures): every case
is an ordered history of look-ups executed in its own freshly forked process,
so the verdict does not depend on how the kernel spreads cases over workers.

A case is a small JSON-able tuple; ``replay`` re-runs exactly one of them.
"""
import itertools
import math
import warnings
from fractions import Fraction as F

from mc import env  # noqa: F401  (binds desper to $VERIF_REPO; must be first)
from mc import kernel
from mc.report import Violation, HarnessError

import desper.math as dm

product = itertools.product

VECS = ('Vec2', 'Vec3', 'Vec4')
MATS = ('Mat3', 'Mat4')
CLS = {'Vec2': dm.Vec2, 'Vec3': dm.Vec3, 'Vec4': dm.Vec4,
       'Mat3': dm.Mat3, 'Mat4': dm.Mat4}
DIM = {'Vec2': 2, 'Vec3': 3, 'Vec4': 4, 'Mat3': 3, 'Mat4': 4}
VEC_OF = {'Mat3': 'Vec3', 'Mat4': 'Vec4'}
LETTERS = {'Vec2': 'xy', 'Vec3': 'xyz', 'Vec4': 'xyzw'}


class SubVec2(dm.Vec2):
    """Application-level alias, as a user of the library writes it."""


class SubVec3(dm.Vec3):
    """Application-level alias (a surface normal, a colour ...)."""


class SubVec4(dm.Vec4):
    """Application-level alias (a homogeneous point)."""


# Whatever the constructors of these return (the pinned tree hard-codes the
# base class in __new__, so they yield plain vectors), it is "a vector with
# these entries" and every operation must treat it like the plain one.
SUB = {'Vec2': SubVec2, 'Vec3': SubVec3, 'Vec4': SubVec4}

RULE = (
    'E3 bounded-exhaustive enumeration of inputs: one enumerate_cases part '
    'per operation family, every member of the stated family is executed on '
    'the real desper.math and compared with a plain-list textbook reference '
    'in exact int/Fraction arithmetic.  Vector operations: complete grids '
    'S^k with |S| = 3 (4 in the thorough tier for Vec2/Vec3) over all k '
    'scalar inputs of the call, one grid value a non-integer Fraction (grid '
    'lemma: per-variable degree <= 2).  Matrix sums, '
    'transposes and products (18..35 scalar inputs): the complete degree-2 '
    'family (all points with at most two non-zero inputs: 0, 1*e_i, 2*e_i, '
    '2*e_i + 3*e_j) - this contains all pairs of basis matrices / basis '
    'vectors - plus dense guards; product laws on all triples of basis '
    'matrices.  Mat @ Vec, Mat() @ v == v, (A @ B) @ v == B @ (A @ v) and '
    'the constructors\' action on a point are repeated with v an instance '
    'of a user subclass of Vec3 / Vec4 (ops matvec_sub, identity_vec_sub, '
    'vec_law_sub: same families).  Part vec_subclass: for Vec2/3/4 every '
    'vector operation (neg abs normalize 0+v mag heading scale clamp limit '
    'from_magnitude from_heading rotate, swizzles of length 1-2 plus '
    'reversed / widened / foreign ones; + - * / dot distance cross lerp '
    'sum) on every vector (pair of vectors) of a small complete grid '
    '({0, 2, -3/2}^2, {0,2}^3, {0,2}^4, one dense fraction vector each) x '
    'every listed scalar argument, with the operands built by a user '
    'subclass (binary: both, only the left, only the right one): the '
    'outcome equals the outcome on the plain vectors with the same '
    'entries.  ~Mat4: complete {0,1}^16 and R^4 row-product grids (R = 12 '
    'dense/unit row vectors, 18 in the thorough tier) with Fraction entries '
    '(M @ ~M == I == ~M @ M exactly), thorough = the '
    'complete {-1,0,1}^16 grid (43 046 721 matrices).  Every inverse '
    'family is history-aware: a singular matrix is inverted again right '
    'away (the same object, then - except on the full grid - an equal new '
    'matrix) and every call must warn and return it unchanged.  Part '
    'mat4_inverse_mixed_numbers: every matrix of the complete row-product '
    'grid of 6 integer rows (thorough: 8 integer rows and {0,1}^16) is '
    'inverted as binary floats and right after as the equal Fraction '
    'matrix (exact inverse demanded), and its double in the order Fraction, '
    'float.  ~Mat4 on scaled '
    'matrices (part mat4_inverse_scaled; det is homogeneous, so tiny / huge '
    'determinants of regular matrices and large entries of singular ones): '
    'every matrix of a complete row-product grid B^4, singular members '
    'included (Fraction inputs: B = the first 6 rich rows; float inputs: B '
    '= 6 integer rows; thorough adds the first 8 rich rows / 8 integer '
    'rows) x scaling mode (all 16 entries, one row i = 0..3, one column '
    'j = 0..3) x factor s in {2^-7, 2^-10, 1/1000, 2^10} (floats: the '
    'three powers of two); thorough also the 12 rich rows (Fractions) and '
    'the complete {0,1}^16 grid (floats) in the all-entries mode with the '
    'same factors; plus every affine matrix [[s*A, 0], [t, 1]] '
    'with A in {0,1}^9 (thorough: {-1,0,1}^9), t one of 3 translations and '
    'the same factors (det = s^3 det A, down to 2^-40 for the all-entries '
    'mode).  Fraction inputs: ~M == adj/det and M @ ~M == I == ~M @ M '
    'exactly; float inputs: entrywise relative 1e-12 against the exact '
    'inverse of the float values.  Piecewise operations '
    '(clamp, limit): all weak orderings / complete quarter-step grids '
    'across the branch boundary.  Swizzling: every string of length 0..4 '
    'over {x,y,z,w,a} and every string of length 5 over the own letters.  '
    'lerp: every pair of vectors of the complete grid {0, -1, 3/2}^(2n) '
    'x alpha in {0, 1/2, 1} and in {-1, -1/4, 5/4, 3} (both sides of '
    'both end points of [0, 1], far and near; thorough adds 2, '
    '+-1/1000 around 0 and 1 -+ 1/1000 around 1) for Vec2/3/4 in both '
    'tiers.  Part vec_zero_length: the zero vector written in 6 ways '
    '(int 0, 0.0, -0.0, Fraction(0), a mixture, p - p for a float '
    'point p) x normalize, abs (Vec2/3/4), from_magnitude x 6 '
    'magnitudes (0, 1, 5/2, 0.5, 4.0, 1000.0), limit x 4 maxima '
    '(Vec2/3), from_heading and rotate x the 18 angles (Vec2).  '
    'Part swizzle_history (one freshly forked process per case, forked '
    'from a process that never looked up a vector attribute): every '
    'ordered pair (first look-up, second look-up) on the same name: 340 '
    'names (all strings of length 1-4 over xyzw) x first class x second '
    'class in Vec2/3/4 = 3060 pairs with a plain first look-up, again '
    'with hasattr and with getattr(v, name, default) as the first '
    'look-up (quick: the 1590 pairs whose first look-up must fail; '
    'thorough: all 3060); the second look-up is observed by v.name, '
    'hasattr and getattr-with-default in this order.  Sweeps: no first '
    'look-up / each of the 1020 (class, name) first look-ups, followed '
    'by all 1020 look-ups class by class (one case for the order Vec2, '
    'Vec3, Vec4, one for Vec4, Vec3, Vec2).  Thorough adds every exact '
    'ordered pair on two different names of length 1-2 (3420 pairs).  '
    'A case is distinct by its input tuple; non-trivial = it exercised a '
    'named shortcut (singular matrix, truncating limit, repeated swizzle '
    'letter, clamping below/above, basis pair, alpha beyond an end '
    'point, zero-length operand, ...).  For block cases '
    '(matrix inverse) one case is a block of the grid with its first two '
    'rows fixed; transitions counts every implementation call.')

ASSUMPTIONS = [
    'Grid lemma: a polynomial of degree <= d_i in x_i that vanishes on '
    'S_1 x ... x S_n with |S_i| > d_i is zero.  Assumption: on exact numbers '
    'the straight-line arithmetic of desper.math (and of any index/sign-slip '
    'variant of it) computes polynomials of per-variable degree <= 2 '
    '(rational functions with such numerator/denominator for / and ~); '
    'branching variants are outside this argument and only covered on the '
    'enumerated grid itself.',
    'Degree-2 family lemma: a polynomial of total degree <= 2 that vanishes '
    'on every point with at most two non-zero coordinates (values 1 and 2 on '
    'one axis, (2, 3) on a pair of axes) is zero.  Used for Mat + - neg '
    'transpose @ and Mat4.translate, whose entries are polynomials of total '
    'degree <= 2 in all scalar inputs together; dense matrices of distinct '
    'primes / signed values / fractions guard that assumption.',
    '~Mat4: with Q = cof_impl*det_ref - cof_ref*det_impl (degree <= 2 per '
    'entry) agreement on the full {-1,0,1}^16 grid (thorough tier) decides '
    'Q = 0; the quick tier ({0,1}^16 and 12^4 row products, Fraction '
    'entries) is a bounded subset of that argument.  On the integer grid '
    '1/det is a float: the check recovers the integer adjugate by '
    'round(entry*det) (error bound 1e-9) and then verifies M*C == det*I == '
    'C*M exactly in integers.',
    'M @ v is read as row vector times grid, which is what (A @ B) @ v == '
    'B @ (A @ v) and the constructors (offsets in the last row) require.',
    'Values are compared with ==, never by type: the statement is silent on '
    'int vs float vs Fraction results (Mat4() holds floats, 1/det is a float '
    'for integer matrices); laws that involve the float entries of the '
    'default matrix or of from_translation/from_scale are checked on '
    'operands that binary floats represent exactly (integers, dyadic '
    'fractions), so that == is exact.',
    'Outside the alphabet (statement silent): division by zero, clamp with '
    'min > max, limit with negative m, from_magnitude with a negative '
    'magnitude, heading of the zero vector, orthogonal_projection with an '
    'empty box side, Mat3.scale/translate/rotate/shear, Mat4.scale/rotate/'
    'from_rotation/perspective_projection/look_at*, __round__.',
    'limit(m): only the two stated clauses are demanded (|result| <= m up '
    'to 1e-9 relative; result == v when |v|^2 <= m^2, decided exactly); '
    'direction and length of a truncated result are recorded as a shortcut '
    'counter, not demanded.',
    'sqrt/angle family (abs, mag, distance, normalize, from_magnitude, '
    'from_heading, from_polar, rotate, heading): bounded tolerance check '
    '(relative 1e-9) on a finite grid of integer vectors x power-of-two '
    'scales x 18 angles x 5 magnitudes; enumeration cannot decide a float '
    'property over all reals.  On the integer grids of vec_distance the '
    'tolerance separates the square roots of distinct integers, so there the '
    'value is identified exactly.',
    'orthogonal_projection computes 2.0/width in floats: compared with the '
    'exact rational value with tolerance 1e-12, far below the spacing of '
    'the small-denominator rationals that occur on the grid.',
    'mat4_inverse_scaled, float inputs: all entries are small integers '
    'or halves times powers of two, every sum inside a 2x2 minor, a '
    'cofactor or the determinant adds terms of one common power-of-two '
    'scale (each term takes one entry per row and column; the mixed terms '
    'of the affine matrices are multiplied by an exact 0), so minors, '
    'cofactors and det are exact in binary floats and a singular float '
    'matrix has det == 0.0 exactly.  Only 1/det and the 16 final products '
    'round (<= 2^-52 relative together): the result is compared with the '
    'exact inverse of the float values (itself verified two-sided over '
    'Fractions) with relative tolerance 1e-12 per entry (entries whose exact '
    'value is 0: 1e-12 of the largest entry).  This is a tolerance check, '
    'but 1e-12 is far below any wrong-cofactor / wrong-branch deviation on '
    'these grids (those differ by at least one unit of the integer '
    'adjugate).  The scaled families are bounded: factors 2^-7, 2^-10, '
    '10^-3, 2^10 only, smallest |det| = 2^-40 |det B| (about 1e-12), '
    'largest = 2^40 |det B|; a wrong absolute singularity threshold far '
    'below 1e-12 is outside the family.',
    'A warning issued for a non-singular matrix is not demanded against '
    '(statement silent); a non-singular matrix that comes back unchanged '
    '(and is not its own inverse) is a violation.',
    'A singular Mat4 must come back equal to itself with at least one '
    'warning issued through the warnings module (recorded with '
    'catch_warnings, filter "always").',
    '"returned unchanged with a warning" holds for every call: a second ~S '
    'of the same singular object, or of an equal new matrix, directly after '
    'the first must warn again (the recording filter is "always", so '
    'Python\'s once-per-location default cannot hide it).  The result of '
    '~M must not depend on what was inverted before: equal matrices with '
    'float and Fraction entries are inverted back to back in both orders; '
    'the Fraction one must give the exact inverse, the float one the '
    'inverse within 1e-12.  Histories longer than two consecutive '
    'inversions (other matrices in between) only occur as the enumeration '
    'order of the families happens to produce them.',
    'lerp is demanded for every scalar alpha, not only for the documented '
    'range [0, 1]: the statement gives the textbook definition (1 - '
    'alpha) a + alpha b "for all vectors, matrices and scalars: exactly '
    'over the rationals for the polynomial operations".  The grid lemma '
    'covers straight-line variants with 3 alphas; branching variants '
    '(alpha clamped, saturated, early return at an end point) are only '
    'covered on the enumerated alphas: -1, -1/4, 0, 1/2, 1, 5/4, 3 '
    '(thorough also 2 and the four values 1/1000 away from 0 and 1); a '
    'variant that branches at another alpha or only for alphas further '
    'out than 3 / -1 is outside the family.',
    'vec_zero_length: the statement quantifies over all vectors, the zero '
    'vector included ("zero stays zero").  Demanded of a zero vector, '
    'however it is written (0, 0.0, -0.0, Fraction(0), mixed, the '
    'difference of two equal vectors): normalize returns the zero vector; '
    'abs is 0; limit(m), m >= 0, returns it unchanged (0 <= m); '
    'from_heading and rotate return the zero vector (the magnitude must '
    'not change); from_magnitude(m), m >= 0, returns a vector - an '
    'exception is a violation like in every other part.  The statement '
    'does not say which vector: there is no direction to keep, so the '
    'oracle accepts both readings, the zero vector (nothing to scale; '
    'what the pinned tree does through normalize) and any vector of '
    'magnitude m (relative 4e-9 on the square), and rejects only '
    'everything else (exception, nan/inf entries, another length).  '
    'Shortcuts info_zero_from_magnitude_stays_zero / '
    'info_zero_from_magnitude_has_length_m record which reading was '
    'seen.  Vectors that are non-zero but whose squared length '
    'underflows to 0.0 are outside the family ("floats of moderate '
    'magnitude").',
    'swizzle_history: "for every swizzle string over the component '
    'letters" is a statement about each look-up, so its outcome must be '
    'the textbook one (the listed components as a scalar / Vec2/3/4 for '
    'a name over the own letters, AttributeError - hasattr False, the '
    'default handed back - for a letter beyond the dimension) whatever '
    'was looked up before in the process.  Each case is executed in a '
    'child forked for it alone (os.fork in the runner, JSON result '
    'through a pipe, os._exit), so the state it starts from is "desper '
    'imported, no vector attribute ever looked up" independent of the '
    'number of workers and of the distribution of cases; the runner '
    'refuses to fork (harness error) from a process in which this driver '
    'has made a look-up, and the part runs first.  Decided exactly: '
    'histories of length 2 on one name (all 340 x 3 x 3), first '
    'look-up of any probe kind that fails, and (thorough) on two '
    'different names of length <= 2.  The sweeps are longer histories '
    '(first look-up, then 1020 look-ups in one fixed order per case): a '
    'wrong outcome anywhere in them is a violation, but a defect that '
    'an intermediate look-up of the sweep repairs again is only seen '
    'by the exact pairs.  Histories of three or more look-ups on '
    'different names in other orders, names longer than 4 or with '
    'foreign letters (part swizzle, without history), state shared '
    'through files or other processes are outside the family.',
    'Instances of user subclasses of Vec2/3/4 (class Point(Vec4): pass) '
    'are vectors: Mat @ v and every vector operation must give, for such a '
    'v, a result equal (==, same length) to the result for the plain '
    'vector with the same entries; the class of the result is not '
    'demanded, and neither is that the subclass constructor returns an '
    'instance of the subclass (the pinned tree returns a plain vector: '
    'shortcut info_subclass_instances_exist counts the operands that were '
    'real subclass instances).  vec_subclass is a differential check '
    'against the plain classes, which the other parts compare with the '
    'textbook; subclasses that override methods and subclasses of Mat3/Mat4 '
    'are outside the alphabet.',
]


# ---------------------------------------------------------------------------
# number coding: cases carry ints and 'p/q' strings only (JSON-able)
def enc(x):
    if isinstance(x, F):
        if x.denominator == 1:
            return x.numerator
        return f'{x.numerator}/{x.denominator}'
    return x


def dec(x):
    return F(x) if isinstance(x, str) else x


def decs(t):
    return tuple(dec(x) for x in t)


def fracs(t):
    return tuple(F(dec(x)) for x in t)


def show(cls, vals):
    if cls in MATS:
        return f'{cls}(({", ".join(str(v) for v in vals)}))'
    return f'{cls}({", ".join(str(v) for v in vals)})'


def vals_of(r):
    try:
        return tuple(r)
    except TypeError:
        return None


def same(r, expected):
    t = vals_of(r)
    if t is None or len(t) != len(expected):
        return False
    return all(a == b for a, b in zip(t, expected))


def call(clause, feats, what, fn, *args):
    """Run the implementation; an exception is a violation, not a crash."""
    try:
        return fn(*args)
    except Exception as exc:
        raise Violation(clause, f'{what} raised {type(exc).__name__}: {exc}',
                        kind='raised', **feats)


def info(calls, hits, key):
    return {'calls': calls, 'hits': {h: 1 for h in hits}, 'key': key}


# ---------------------------------------------------------------------------
# textbook references on plain lists
def rows_of(vals, n):
    return [list(vals[i * n:(i + 1) * n]) for i in range(n)]


def ref_matmul(a, b, n):
    A, B = rows_of(a, n), rows_of(b, n)
    return [sum(A[i][k] * B[k][j] for k in range(n))
            for i in range(n) for j in range(n)]


def ref_vecmat(m, v, n):
    """Row vector v times the grid m."""
    M = rows_of(m, n)
    return [sum(v[k] * M[k][j] for k in range(n)) for j in range(n)]


def ref_transpose(m, n):
    M = rows_of(m, n)
    return [M[j][i] for i in range(n) for j in range(n)]


def ref_identity(n):
    return [1 if i == j else 0 for i in range(n) for j in range(n)]


def ref_det(M):
    """Laplace expansion along the first row (M = list of rows)."""
    n = len(M)
    if n == 1:
        return M[0][0]
    total = 0
    for j in range(n):
        if M[0][j] == 0:
            continue
        minor = [r[:j] + r[j + 1:] for r in M[1:]]
        total += (-1) ** j * M[0][j] * ref_det(minor)
    return total


def ref_inverse(vals):
    """(det, inverse as flat list or None): adjugate over determinant."""
    M = rows_of(vals, 4)
    det = ref_det(M)
    if det == 0:
        return det, None
    cof = [[(-1) ** (i + j)
            * ref_det([r[:j] + r[j + 1:] for k, r in enumerate(M) if k != i])
            for j in range(4)] for i in range(4)]
    return det, [F(cof[j][i]) / det for i in range(4) for j in range(4)]


def _gen_matmul4():
    """Unrolled 4x4 row-by-column product generated from the definition."""
    entries = []
    for i in range(4):
        for j in range(4):
            entries.append('+'.join(f'a[{4 * i + k}]*b[{4 * k + j}]'
                                    for k in range(4)))
    return eval('lambda a, b: (' + ', '.join(entries) + ')')


MM4 = _gen_matmul4()
I16 = tuple(ref_identity(4))


def minors2(r, s):
    """2x2 minors of two rows for column pairs 01 02 03 12 13 23."""
    return (r[0] * s[1] - r[1] * s[0], r[0] * s[2] - r[2] * s[0],
            r[0] * s[3] - r[3] * s[0], r[1] * s[2] - r[2] * s[1],
            r[1] * s[3] - r[3] * s[1], r[2] * s[3] - r[3] * s[2])


def det_laplace2(T, B):
    """Laplace expansion along the first two rows (T, B = minors2 of the
    upper / lower pair of rows)."""
    return (T[0] * B[5] - T[1] * B[4] + T[2] * B[3]
            + T[3] * B[2] - T[4] * B[1] + T[5] * B[0])


def self_test():
    """The references against hand-computed values (trusted base check)."""
    a = (1, 2, 3, 4, 5, 6, 7, 8, 9)
    b = (9, 8, 7, 6, 5, 4, 3, 2, 1)
    ok = ref_matmul(a, b, 3) == [30, 24, 18, 84, 69, 54, 138, 114, 90]
    ok &= ref_vecmat(a, (1, 0, 2), 3) == [15, 18, 21]
    ok &= ref_transpose(a, 3) == [1, 4, 7, 2, 5, 8, 3, 6, 9]
    m = (2, 0, 0, 1, 0, 3, 0, 0, 1, 0, 1, 0, 0, 0, 5, 4)
    ok &= ref_det(rows_of(m, 4)) == 39
    det, inv = ref_inverse(m)
    ok &= det == 39 and ref_matmul(m, inv, 4) == list(I16)
    ok &= ref_matmul(inv, m, 4) == list(I16)
    p = (2, 3, 5, 7, 11, 13, 17, 19, 23, 29, 31, 37, 41, 43, 47, 53)
    ok &= list(MM4(m, p)) == ref_matmul(m, p, 4)
    for x in (m, p, (1, -1, 0, 1, 0, 1, 1, -1, 1, 1, 0, 1, -1, 0, 1, 1)):
        R = rows_of(x, 4)
        ok &= det_laplace2(minors2(R[0], R[1]), minors2(R[2], R[3])) \
            == ref_det(R)
    ok &= ref_inverse((1, 2, 3, 4) * 4) == (0, None)
    if not ok:
        raise HarnessError('C18 reference self-test failed')


# ---------------------------------------------------------------------------
# part vec_arith: + - * / neg scale dot, sum() support, default constructor
G3 = (0, -1, '3/2')             # one non-integer value: exact Fractions
G4 = (0, 2, -1, '3/2')
GI3 = (0, -1, 2)                # integer grids for the square-root part
GI4 = (0, 1, -1, 2)
DEN = (-1, 2, '1/2')
NEGS = (0, -1, 2, '1/2')
SCALARS = (0, -1, '1/2', 3)


def grid_for(tier, cls, integer=False):
    if tier == 'thorough' and cls != 'Vec4':
        return GI4 if integer else G4
    return GI3 if integer else G3


def cases_vec_arith(tier):
    cases = []
    for cls in VECS:
        n = DIM[cls]
        g = grid_for(tier, cls)
        cases.append((cls, 'ctor', (), ()))
        for a in product(NEGS, repeat=n):
            cases.append((cls, 'neg', a, ()))
        for op in ('add', 'sub', 'mul', 'dot'):
            for ab in product(g, repeat=2 * n):
                cases.append((cls, op, ab[:n], ab[n:]))
        for a in product(G3, repeat=n):
            for b in product(DEN, repeat=n):
                cases.append((cls, 'div', a, b))
        for a in product(g, repeat=n):
            for s in SCALARS:
                cases.append((cls, 'scale', a, (s,)))
        for ab in product((-1, 2), repeat=2 * n):
            cases.append((cls, 'radd', ab[:n], ab[n:]))
    return cases


def run_vec_arith(case):
    cls, op, a, b = case
    C = CLS[cls]
    n = DIM[cls]
    feats = dict(cls=cls, op=op)
    hits = []
    if op == 'div':
        a, b = fracs(a), decs(b)
    else:
        a, b = decs(a), decs(b)
    if op == 'ctor':
        r = call('vec_arith', feats, f'{cls}()', C)
        if not same(r, [0] * n):
            raise Violation('vec_arith', f'{cls}() -> {r!r}, expected the '
                            'zero vector', kind='value', **feats)
        return info(1, ['default_is_zero'], case)
    va = C(*a)
    if op == 'neg':
        what = f'-{show(cls, a)}'
        r = call('vec_arith', feats, what, lambda: -va)
        exp = [-x for x in a]
    elif op == 'scale':
        what = f'{show(cls, a)}.scale({b[0]})'
        r = call('vec_arith', feats, what, va.scale, b[0])
        exp = [x * b[0] for x in a]
        if b[0] == 0:
            hits.append('scale_by_zero')
    elif op == 'dot':
        what = f'{show(cls, a)}.dot({show(cls, b)})'
        r = call('vec_arith', feats, what, va.dot, C(*b))
        exp = sum(x * y for x, y in zip(a, b))
        if r != exp:
            raise Violation('vec_arith', f'{what} -> {r!r}, expected {exp}',
                            kind='value', **feats)
        return info(1, ['dot_nonzero'] if exp else [], case)
    elif op == 'radd':
        vb = C(*b)
        what = f'sum([{show(cls, a)}, {show(cls, b)}])'
        r = call('vec_arith', feats, what, sum, [va, vb])
        exp = [x + y for x, y in zip(a, b)]
        r0 = call('vec_arith', feats, f'0 + {show(cls, a)}',
                  lambda: 0 + va)
        if not same(r0, a):
            raise Violation('vec_arith', f'0 + {show(cls, a)} -> {r0!r}',
                            kind='value', **feats)
        hits.append('sum_builtin')
    else:
        vb = C(*b)
        sym = {'add': '+', 'sub': '-', 'mul': '*', 'div': '/'}[op]
        what = f'{show(cls, a)} {sym} {show(cls, b)}'
        if op == 'add':
            r = call('vec_arith', feats, what, lambda: va + vb)
            exp = [x + y for x, y in zip(a, b)]
        elif op == 'sub':
            r = call('vec_arith', feats, what, lambda: va - vb)
            exp = [x - y for x, y in zip(a, b)]
        elif op == 'mul':
            r = call('vec_arith', feats, what, lambda: va * vb)
            exp = [x * y for x, y in zip(a, b)]
        else:
            r = call('vec_arith', feats, what, lambda: va / vb)
            exp = [x / y for x, y in zip(a, b)]
            hits.append('exact_fraction_division')
    if not same(r, exp):
        raise Violation('vec_arith', f'{what} -> {r!r}, expected '
                        f'{show(cls, exp)}', kind='value', **feats)
    if len(set(exp)) == n and n > 1:
        hits.append('all_components_differ')
    return info(2 if op == 'radd' else 1, hits, case)


# ---------------------------------------------------------------------------
# part vec_cross
def cases_vec_cross(tier):
    g = G4 if tier == 'thorough' else G3
    return [('Vec3', 'cross', ab[:3], ab[3:]) for ab in product(g, repeat=6)]


def run_vec_cross(case):
    cls, op, a, b = case
    a, b = decs(a), decs(b)
    feats = dict(cls=cls, op=op)
    what = f'{show(cls, a)}.cross({show(cls, b)})'
    r = call('vec_cross', feats, what, dm.Vec3(*a).cross, dm.Vec3(*b))
    exp = [a[1] * b[2] - a[2] * b[1],
           a[2] * b[0] - a[0] * b[2],
           a[0] * b[1] - a[1] * b[0]]
    if not same(r, exp):
        raise Violation('vec_cross', f'{what} -> {r!r}, expected '
                        f'{show(cls, exp)}', kind='value', **feats)
    return info(1, ['cross_nonzero'] if any(exp) else ['cross_parallel'],
                case)


# ---------------------------------------------------------------------------
# part vec_lerp
# lerp is a polynomial of degree 1 in alpha, so three values decide every
# straight-line variant (grid lemma); a *branching* variant (alpha clamped /
# saturated to the documented range [0, 1], early return at an end point) is
# only seen by alphas on both sides of both end points.  ALPHAS_OUT puts one
# value far and one value close outside each end of [0, 1]; every alpha runs
# on the same complete grid of vector pairs.
ALPHAS = (0, 1, '1/2')
ALPHAS_OUT = (-1, 3, '-1/4', '5/4')
ALPHAS_THOROUGH = (2, '-1/1000', '1001/1000', '999/1000', '1/1000')


def cases_vec_lerp(tier):
    cases = []
    for alphas in (ALPHAS, ALPHAS_OUT):
        for cls in VECS:
            n = DIM[cls]
            for ab in product(G3, repeat=2 * n):
                for al in alphas:
                    cases.append((cls, 'lerp', ab[:n], ab[n:], al))
    if tier == 'thorough':
        # the quick family first (same minimal counterexamples in both
        # tiers), then alphas hugging the end points of [0, 1]
        for cls in VECS:
            n = DIM[cls]
            for ab in product(G3, repeat=2 * n):
                for al in ALPHAS_THOROUGH:
                    cases.append((cls, 'lerp', ab[:n], ab[n:], al))
    return cases


def run_vec_lerp(case):
    cls, op, a, b, al = case
    a, b, al = decs(a), decs(b), dec(al)
    C = CLS[cls]
    feats = dict(cls=cls, op=op)
    what = f'{show(cls, a)}.lerp({show(cls, b)}, {al})'
    r = call('vec_lerp', feats, what, C(*a).lerp, C(*b), al)
    exp = [(1 - al) * x + al * y for x, y in zip(a, b)]
    if not same(r, exp):
        raise Violation('vec_lerp', f'{what} -> {r!r}, expected '
                        f'{show(cls, exp)}', kind='value', **feats)
    hits = []
    if al == 0:
        hits.append('lerp_alpha0_is_self')
    elif al == 1:
        hits.append('lerp_alpha1_is_other')
    elif 0 < al < 1:
        hits.append('lerp_inside')
    else:
        # beyond an end point: the result leaves the segment a..b
        hits.append('lerp_extrapolates_below' if al < 0
                    else 'lerp_extrapolates_above')
        if list(exp) != list(a) and list(exp) != list(b):
            hits.append('lerp_extrapolation_differs_from_end_points')
    return info(1, hits, case)


# ---------------------------------------------------------------------------
# part vec_distance: distance / abs / mag on integer grids (exact squares)
def cases_vec_distance(tier):
    cases = []
    for cls in VECS:
        n = DIM[cls]
        g = grid_for(tier, cls, integer=True)
        for ab in product(g, repeat=2 * n):
            cases.append((cls, 'distance', ab[:n], ab[n:]))
        for a in product((0, 1, -1, 2, -3), repeat=n):
            cases.append((cls, 'abs', a, ()))
    if tier == 'thorough':
        seven = range(-3, 4)
        for ab in product(seven, repeat=4):
            if not all(x in GI4 for x in ab):       # not listed above
                cases.append(('Vec2', 'distance', ab[:2], ab[2:]))
    return cases


def check_root(clause, feats, what, r, square):
    """r must be the non-negative square root of the exact rational."""
    try:
        rr = F(r)
    except (TypeError, ValueError, OverflowError):
        raise Violation(clause, f'{what} -> {r!r}, not a number',
                        kind='value', **feats)
    if rr < 0 or abs(rr * rr - square) > F(1, 10 ** 12) * max(1, square):
        raise Violation(clause, f'{what} -> {r!r}, expected sqrt({square})',
                        kind='value', **feats)
    if square != int(square):
        return False
    return math.isqrt(int(square)) ** 2 == square


def run_vec_distance(case):
    cls, op, a, b = case
    a, b = decs(a), decs(b)
    C = CLS[cls]
    feats = dict(cls=cls, op=op)
    hits = []
    calls = 1
    if op == 'distance':
        what = f'{show(cls, a)}.distance({show(cls, b)})'
        r = call('vec_distance', feats, what, C(*a).distance, C(*b))
        sq = sum((y - x) ** 2 for x, y in zip(a, b))
        perfect = check_root('vec_distance', feats, what, r, sq)
        hits.append('distance_zero' if sq == 0 else
                    'distance_perfect_square' if perfect else
                    'distance_irrational')
    else:
        sq = sum(x * x for x in a)
        what = f'abs({show(cls, a)})'
        r = call('vec_distance', feats, what, abs, C(*a))
        perfect = check_root('vec_distance', feats, what, r, sq)
        hits.append('abs_perfect_square' if perfect else 'abs_irrational')
        if cls != 'Vec4':
            what = f'{show(cls, a)}.mag'
            r = call('vec_distance', feats, what, lambda: C(*a).mag)
            check_root('vec_distance', feats, what, r, sq)
            calls += 1
    return info(calls, hits, case)


# ---------------------------------------------------------------------------
# part clamp: scalar clamp on all weak orderings, Vec.clamp on grids
CLAMP_VALUES = (-1, 0, '1/2', 2)


def cases_clamp(tier):
    vals = CLAMP_VALUES + (('3/2',) if tier == 'thorough' else ())
    order = sorted(vals, key=dec)
    bounds = [(lo, hi) for lo in order for hi in order if dec(lo) <= dec(hi)]
    cases = []
    for num in vals:
        for lo, hi in bounds:
            cases.append(('scalar', 'clamp', (num,), lo, hi))
    for cls in VECS:
        for v in product(vals, repeat=DIM[cls]):
            for lo, hi in bounds:
                cases.append((cls, 'clamp', v, lo, hi))
    return cases


def ref_clamp(x, lo, hi):
    if x < lo:
        return lo
    if x > hi:
        return hi
    return x


def run_clamp(case):
    cls, op, v, lo, hi = case
    v, lo, hi = decs(v), dec(lo), dec(hi)
    feats = dict(cls=cls, op=op)
    hits = set()
    for x in v:
        hits.add('clamp_below' if x < lo else 'clamp_above' if x > hi
                 else 'clamp_inside')
        if x == lo or x == hi:
            hits.add('clamp_on_bound')
    if lo == hi:
        hits.add('clamp_degenerate_interval')
    if cls == 'scalar':
        what = f'clamp({v[0]}, {lo}, {hi})'
        r = call('clamp', feats, what, dm.clamp, v[0], lo, hi)
        exp = ref_clamp(v[0], lo, hi)
        if r != exp:
            raise Violation('clamp', f'{what} -> {r!r}, expected {exp}',
                            kind='value', **feats)
        sign = lambda d: (d > 0) - (d < 0)      # noqa: E731
        key = ('weak-order', sign(v[0] - lo), sign(v[0] - hi), sign(hi - lo))
        return info(1, sorted(hits), key)
    what = f'{show(cls, v)}.clamp({lo}, {hi})'
    r = call('clamp', feats, what, CLS[cls](*v).clamp, lo, hi)
    exp = [ref_clamp(x, lo, hi) for x in v]
    if not same(r, exp):
        raise Violation('clamp', f'{what} -> {r!r}, expected '
                        f'{show(cls, exp)}', kind='value', **feats)
    if 'clamp_below' in hits and 'clamp_above' in hits:
        hits.add('clamp_mixed_components')
    return info(1, sorted(hits), case)


# ---------------------------------------------------------------------------
# part vec_limit
def limit_coords(tier):
    if tier == 'thorough':
        return [F(k, 4) for k in range(-12, 13)]
    halves = {F(k, 2) for k in range(-6, 7)}
    quarters = {F(k, 4) for k in range(-4, 5)}
    return sorted(halves | quarters)


def limit_maxima(tier):
    if tier == 'thorough':
        return [F(k, 4) for k in range(0, 13)]
    return [F(0), F(1, 4), F(1, 2), F(1), F(3, 2), F(2), F(5, 2), F(3)]


def _limit_cases(tier):
    coords = limit_coords(tier)
    cases = []
    for cls in ('Vec2', 'Vec3'):
        vecs = list(product(coords, repeat=DIM[cls]))
        # simplest first: few non-zero components, small, positive components
        vecs.sort(key=lambda v: (sum(1 for x in v if x),
                                 sum(abs(x) for x in v),
                                 tuple(-x for x in v)))
        for v in vecs:
            for m in limit_maxima(tier):
                cases.append((cls, 'limit', tuple(enc(x) for x in v),
                              enc(m)))
    return cases


def cases_vec_limit(tier):
    cases = _limit_cases('quick')
    if tier == 'thorough':
        # the quick grid first (same minimal counterexamples in both tiers),
        # then the rest of the finer grid
        listed = set(cases)
        cases += [c for c in _limit_cases('thorough') if c not in listed]
    return cases


def run_vec_limit(case):
    cls, op, v, m = case
    v, m = decs(v), dec(m)
    feats = dict(cls=cls, op=op)
    what = f'{show(cls, v)}.limit({m})'
    vec = CLS[cls](*v)
    r = call('vec_limit', feats, what, vec.limit, m)
    t = vals_of(r)
    if t is None or len(t) != len(v):
        raise Violation('vec_limit', f'{what} -> {r!r}, not a {cls}',
                        kind='value', **feats)
    n2 = sum(F(x) ** 2 for x in v)
    m2 = F(m) ** 2
    hits = []
    if n2 <= m2:
        if not same(r, v):
            raise Violation(
                'vec_limit', f'{what} -> {r!r}: |v|^2 = {n2} <= m^2 = {m2}, '
                'a short enough vector must stay unchanged',
                kind='short_vector_changed', **feats)
        hits.append('limit_keeps')
        if r is vec:
            hits.append('limit_keeps_same_object')
        if n2 == m2:
            hits.append('limit_on_boundary')
    else:
        try:
            r2 = sum(F(x) ** 2 for x in t)
        except (TypeError, ValueError):
            raise Violation('vec_limit', f'{what} -> {r!r}, not numeric',
                            kind='value', **feats)
        if r2 > m2 * (1 + F(2, 10 ** 9)):
            raise Violation(
                'vec_limit', f'{what} -> {r!r} has squared length '
                f'{float(r2):.6g} > m^2 = {m2} (|v|^2 = {n2})',
                kind='longer_than_m', **feats)
        hits.append('limit_truncates')
        if m == 0:
            hits.append('limit_to_zero')
        else:
            tol = 1e-9 * float(m)
            k = math.sqrt(float(m2 / n2))
            if all(abs(float(x) - k * float(y)) <= tol
                   for x, y in zip(t, v)):
                hits.append('limit_result_parallel_with_length_m')
    return info(1, hits, case)


# ---------------------------------------------------------------------------
# part swizzle
SWZ_ALPHABET = 'xyzwa'
SWZ_VALUES = (2, 3, 5, 7)


def cases_swizzle(tier):
    cases = []
    for cls in VECS:
        for length in range(0, 5):
            for s in product(SWZ_ALPHABET, repeat=length):
                cases.append((cls, 'swizzle', ''.join(s)))
        own = LETTERS[cls]
        for s in product(own, repeat=5):
            cases.append((cls, 'swizzle', ''.join(s)))
        for length in (6, 7, 8) if tier == 'quick' else (6, 7, 8, 9, 16):
            cases.append((cls, 'swizzle', own[0] * length))
            cases.append((cls, 'swizzle', (own * length)[:length]))
        if tier == 'thorough' and cls == 'Vec2':
            for s in product(own, repeat=6):
                cases.append((cls, 'swizzle', ''.join(s)))
    # strings are unique per class by construction except the repeated
    # padding cases; drop duplicates deterministically
    seen, out = set(), []
    for c in cases:
        if c not in seen:
            seen.add(c)
            out.append(c)
    return out


def run_swizzle(case):
    cls, op, s = case
    n = DIM[cls]
    own = LETTERS[cls]
    feats = dict(cls=cls, op=op)
    vals = SWZ_VALUES[:n]
    vec = CLS[cls](*vals)
    what = f'{show(cls, vals)}.{s}' if s else f'getattr({show(cls, vals)}, "")'
    valid = 1 <= len(s) <= 4 and all(c in own for c in s)
    hits = []
    _LOOKUPS_HERE[0] += 1
    try:
        r = getattr(vec, s)
    except AttributeError:
        if valid:
            raise Violation('swizzle', f'{what} raised AttributeError',
                            kind='valid_rejected', **feats)
        if len(s) > 4:
            hits.append('swizzle_too_long')
        elif s == '':
            hits.append('swizzle_empty_name')
        else:
            hits.append('swizzle_foreign_letter')
            if all(c in 'xyzw' for c in s):
                hits.append('swizzle_letter_of_larger_class')
        return info(1, hits, case)
    except Exception as exc:
        raise Violation('swizzle', f'{what} raised {type(exc).__name__}: '
                        f'{exc} (AttributeError expected)'
                        if not valid else
                        f'{what} raised {type(exc).__name__}: {exc}',
                        kind='wrong_exception', **feats)
    if not valid:
        raise Violation('swizzle', f'{what} -> {r!r}, AttributeError '
                        'expected', kind='invalid_accepted', **feats)
    exp = [vals[own.index(c)] for c in s]
    if len(s) == 1:
        if r != exp[0]:
            raise Violation('swizzle', f'{what} -> {r!r}, expected {exp[0]}',
                            kind='value', **feats)
        return info(1, ['component_property'], case)
    want = CLS[f'Vec{len(s)}']
    if not isinstance(r, want) or not same(r, exp):
        raise Violation('swizzle', f'{what} -> {r!r}, expected '
                        f'{show(want.__name__, exp)}', kind='value', **feats)
    if len(set(s)) < len(s):
        hits.append('swizzle_repeat_letter')
    else:
        hits.append('swizzle_permutation' if len(s) == n
                    else 'swizzle_selection')
    if len(s) > n:
        hits.append('swizzle_widens')
    elif len(s) < n:
        hits.append('swizzle_narrows')
    return info(1, hits, case)


# ---------------------------------------------------------------------------
# part swizzle_history: what a look-up returns must not depend on the
# look-ups made before it in the same process (name caches, memoised index
# tuples, remembered failures ...).  Process-wide state cannot be decided by
# cases that share worker processes in an order the kernel chooses, so every
# case of this part runs in its OWN freshly forked child: the child makes the
# first look-up, then the second one(s), judges them against the textbook and
# sends a small JSON value back through a pipe; it ends with os._exit.  The
# forking process itself never performs a look-up (guard below), so each child
# starts from the state "desper imported, no vector attribute ever asked".
HISTORY_NAMES = [''.join(t) for k in (1, 2, 3, 4)
                 for t in product('xyzw', repeat=k)]            # 340 names
HISTORY_SHORT = [t for t in HISTORY_NAMES if len(t) <= 2]       # 20 names
PROBES = ('attr', 'hasattr', 'default')
_LOOKUPS_HERE = [0]     # vector attribute look-ups made by THIS process


def swizzle_legal(cls, name):
    return 1 <= len(name) <= 4 and all(c in LETTERS[cls] for c in name)


def _probe(cls, name, kind):
    """One look-up on a fresh vector -> JSON-able observation."""
    _LOOKUPS_HERE[0] += 1
    vec = CLS[cls](*SWZ_VALUES[:DIM[cls]])
    try:
        if kind == 'hasattr':
            return ['has', bool(hasattr(vec, name))]
        if kind == 'default':
            missing = object()
            r = getattr(vec, name, missing)
            if r is missing:
                return ['missing']
        elif kind == 'attr':
            try:
                r = getattr(vec, name)
            except AttributeError:
                return ['missing']
        else:
            raise HarnessError(f'unknown probe {kind!r}')
    except HarnessError:
        raise
    except Exception as exc:
        return ['raised', f'{type(exc).__name__}: {exc}']
    t = vals_of(r)
    if t is None:
        return ['scalar', r if isinstance(r, (int, float)) else repr(r)]
    return ['vector', type(r).__name__,
            [x if isinstance(x, (int, float)) else repr(x) for x in t]]


def _judge(cls, name, kind, obs):
    """-> None or (violation kind, text) against the textbook definition."""
    own = LETTERS[cls]
    vals = SWZ_VALUES[:DIM[cls]]
    call_text = {'attr': f'.{name}', 'hasattr': f': hasattr(v, {name!r})',
                 'default': f': getattr(v, {name!r}, default)'}[kind]
    what = f'{show(cls, vals)}{call_text}'
    if obs[0] == 'raised':
        return 'wrong_exception', f'{what} raised {obs[1]}'
    if not swizzle_legal(cls, name):
        if obs == ['missing'] or obs == ['has', False]:
            return None
        return 'invalid_accepted', (f'{what} -> {obs[1:]!r}, AttributeError '
                                    'expected')
    exp = [vals[own.index(c)] for c in name]
    if obs == ['missing'] or obs == ['has', False]:
        return 'valid_rejected', (f'{what} is reported missing, expected '
                                  f'{exp[0] if len(exp) == 1 else tuple(exp)}')
    if obs[0] == 'has':
        return None
    if len(name) == 1:
        ok = obs[0] == 'scalar' and obs[1] == exp[0]
    else:
        ok = obs[0] == 'vector' and obs[1] == f'Vec{len(name)}' \
            and obs[2] == exp
    if not ok:
        return 'value', f'{what} -> {obs[1:]!r}, expected {tuple(exp)}'
    return None


def _history_child(case):
    """Runs inside the forked child: -> {'bad': None | [...], 'calls': n}."""
    kind = case[0]
    if kind == 'pair':
        _, p1, c1, n1, c2, n2 = case
        seq = [(c1, n1, p1)] + [(c2, n2, p) for p in PROBES]
    elif kind == 'sweep':
        _, p1, c1, n1, order = case
        classes = VECS if order == 'ascending' else VECS[::-1]
        seq = [(c1, n1, p1)] if c1 else []
        seq += [(c, n, 'attr') for c in classes for n in HISTORY_NAMES]
    else:
        raise HarnessError(f'unknown swizzle_history case {case!r}')
    for pos, (cls, name, probe) in enumerate(seq):
        bad = _judge(cls, name, probe, _probe(cls, name, probe))
        if bad:
            return {'bad': [pos, cls, name, probe, bad[0], bad[1]],
                    'calls': pos + 1}
    return {'bad': None, 'calls': len(seq)}


def in_own_process(fn, arg):
    """fn(arg) in a freshly forked child; the JSON-able result comes back
    through a pipe.  The child never returns into the harness."""
    import json
    import os
    import traceback
    rfd, wfd = os.pipe()
    pid = os.fork()
    if pid == 0:
        code = 0
        try:
            os.close(rfd)
            try:
                out = {'ok': fn(arg)}
            except BaseException:
                out = {'error': traceback.format_exc()}
            view = memoryview(json.dumps(out).encode())
            while view:
                view = view[os.write(wfd, view):]
        except BaseException:
            code = 1
        finally:
            os._exit(code)
    os.close(wfd)
    chunks = []
    try:
        while True:
            chunk = os.read(rfd, 1 << 16)
            if not chunk:
                break
            chunks.append(chunk)
    finally:
        os.close(rfd)
        _, status = os.waitpid(pid, 0)
    try:
        out = json.loads(b''.join(chunks).decode())
    except ValueError:
        raise HarnessError(f'child process for {arg!r} ended with status '
                           f'{status} without a result')
    if 'error' in out:
        raise HarnessError(f'child process for {arg!r} failed:\n'
                           f'{out["error"]}')
    return out['ok']


def _history_pairs(probe, names, only_failing_first=False, same_name=True):
    cases = []
    for n1 in names:
        for c1 in VECS:
            if only_failing_first and swizzle_legal(c1, n1):
                continue
            for c2 in VECS:
                for n2 in ([n1] if same_name else names):
                    if same_name or n2 != n1:
                        cases.append(('pair', probe, c1, n1, c2, n2))
    return cases


def cases_swizzle_history(tier):
    # exact ordered pairs on the same name: every name x class x class
    cases = _history_pairs('attr', HISTORY_NAMES)
    # the first look-up a hasattr / getattr-with-default probe
    for probe in ('hasattr', 'default'):
        cases += _history_pairs(probe, HISTORY_NAMES,
                                only_failing_first=tier != 'thorough')
    # one first look-up, then the whole alphabet in both class orders
    for order in ('ascending', 'descending'):
        cases.append(('sweep', 'attr', '', '', order))
        for c1 in VECS:
            for n1 in HISTORY_NAMES:
                cases.append(('sweep', 'attr', c1, n1, order))
    if tier == 'thorough':
        # exact ordered pairs on different names (length 1-2)
        cases += _history_pairs('attr', HISTORY_SHORT, same_name=False)
    return cases


def run_swizzle_history(case):
    if _LOOKUPS_HERE[0]:
        raise HarnessError(
            'swizzle_history must fork from a process that never looked up '
            f'a vector attribute; this one made {_LOOKUPS_HERE[0]} look-ups')
    out = in_own_process(_history_child, case)
    first_probe, c1, n1 = case[1], case[2], case[3]
    if not c1:
        first = 'none'
    else:
        first = 'succeeding' if swizzle_legal(c1, n1) else 'failing'
    if out['bad']:
        pos, cls, name, probe, kind, text = out['bad']
        if pos == 0 and c1:
            raise Violation('swizzle_history', f'first look-up of the '
                            f'process: {text}', cls=cls, op='swizzle',
                            kind=kind, first='none')
        before = {'none': 'nothing',
                  'failing': f'the failing look-up {n1!r} on a {c1}',
                  'succeeding': f'the look-up {n1!r} on a {c1}'}[first]
        between = pos - (1 if c1 else 0)
        if between:
            # not the look-up right after the first one: the signature says
            # so (which of the earlier look-ups matters is not known here)
            raise Violation('swizzle_history', f'{text}  [in a new process, '
                            f'after {before} and {between} more look-ups of '
                            'this case]', cls=cls, op='swizzle', kind=kind,
                            first='longer_history')
        raise Violation('swizzle_history', f'{text}  [in a new process, '
                        f'after {before}]', cls=cls, op='swizzle',
                        kind=kind, first=first)
    hits = ['own_process_per_case', f'first_probe_{first_probe}']
    if case[0] == 'sweep':
        hits.append(f'sweep_after_{first}_first')
        hits.append(f'sweep_classes_{case[4]}')
        return info(out['calls'], hits, case)
    c2, n2 = case[4], case[5]
    second = swizzle_legal(c2, n2)
    if first == 'failing' and second:
        if n1 == n2 and DIM[c2] > DIM[c1]:
            hits.append('failing_lookup_first_then_legal_on_bigger_vector')
        else:
            hits.append('failing_lookup_first_then_legal_other_name')
    elif first == 'failing':
        hits.append('failing_lookup_first_then_failing')
    elif second:
        hits.append('legal_lookup_first_then_legal')
        if c1 == c2 and n1 == n2:
            hits.append('same_lookup_repeated')
    else:
        hits.append('legal_lookup_first_then_failing_on_smaller_vector'
                    if n1 == n2 else 'legal_lookup_first_then_failing')
    if n1 != n2:
        hits.append('history_pair_of_different_names')
    return info(out['calls'], hits, case)


# ---------------------------------------------------------------------------
# degree-2 family and dense guards for the matrix parts
def deg2_family(nvars):
    fam = [()]
    for i in range(nvars):
        fam.append(((i, 1),))
        fam.append(((i, 2),))
    for i in range(nvars):
        for j in range(i + 1, nvars):
            fam.append(((i, 2), (j, 3)))
    return fam


def expand(sparse, nvars):
    vals = [0] * nvars
    for i, v in sparse:
        vals[i] = dec(v)
    return vals


PRIMES = (2, 3, 5, 7, 11, 13, 17, 19, 23, 29, 31, 37, 41, 43, 47, 53, 59, 61,
          67, 71, 73, 79, 83, 89, 97, 101, 103, 107, 109, 113, 127, 131, 137,
          139, 149, 151)
DENSE = ('zeros', 'ones', 'primes', 'signed', 'fractions', 'dyadic')


def dense(name, nvars):
    if name == 'zeros':
        return [0] * nvars
    if name == 'ones':
        return [1] * nvars
    if name == 'primes':
        return list(PRIMES[:nvars])
    if name == 'signed':
        return [(-1) ** (k * k // 2 + k) * PRIMES[(k * 7 + 3) % 36]
                for k in range(nvars)]
    if name == 'fractions':
        return [F((-1) ** k * (k + 1), (k % 5) + 2) for k in range(nvars)]
    if name == 'dyadic':        # exactly representable as binary floats
        return [F((-1) ** (k // 2) * (2 * k + 1), 2 ** (k % 4))
                for k in range(nvars)]
    raise HarnessError(f'unknown dense guard {name}')


def inputs_of(spec, nvars):
    kind, what = spec
    if kind == 'sp':
        return expand(what, nvars)
    return dense(what, nvars)


def specs(nvars):
    return ([('sp', s) for s in deg2_family(nvars)]
            + [('dense', d) for d in DENSE])


def spec_hits(spec, split):
    kind, what = spec
    if kind == 'dense':
        return ['dense_guard']
    if len(what) == 2:
        (i, _), (j, _) = what
        return ['basis_pair' if i < split <= j else 'two_entries_one_operand']
    return ['single_entry'] if what else ['all_zero']


# ---------------------------------------------------------------------------
# part mat_linear: Mat3/Mat4 + - neg, Mat4.transpose
def cases_mat_linear(tier):
    cases = []
    for cls in MATS:
        N = DIM[cls] ** 2
        for op in ('add', 'sub'):
            cases += [(cls, op, k, w) for k, w in specs(2 * N)]
        cases += [(cls, 'neg', k, w) for k, w in specs(N)]
        if cls == 'Mat4':
            cases += [(cls, 'transpose', k, w) for k, w in specs(N)]
    return cases


def run_mat_linear(case):
    cls, op, kind, what_spec = case
    C = CLS[cls]
    n = DIM[cls]
    N = n * n
    feats = dict(cls=cls, op=op)
    binary = op in ('add', 'sub')
    x = inputs_of((kind, what_spec), 2 * N if binary else N)
    a, b = tuple(x[:N]), tuple(x[N:])
    ma = C(a)
    if op == 'add':
        what = f'{show(cls, a)} + {show(cls, b)}'
        r = call('mat_linear', feats, what, lambda: ma + C(b))
        exp = [p + q for p, q in zip(a, b)]
    elif op == 'sub':
        what = f'{show(cls, a)} - {show(cls, b)}'
        r = call('mat_linear', feats, what, lambda: ma - C(b))
        exp = [p - q for p, q in zip(a, b)]
    elif op == 'neg':
        what = f'-{show(cls, a)}'
        r = call('mat_linear', feats, what, lambda: -ma)
        exp = [-p for p in a]
    else:
        what = f'{show(cls, a)}.transpose()'
        r = call('mat_linear', feats, what, ma.transpose)
        exp = ref_transpose(a, n)
    if not same(r, exp):
        raise Violation('mat_linear', f'{what} -> {vals_of(r)!r}, expected '
                        f'{tuple(exp)}', kind='value', **feats)
    hits = spec_hits((kind, what_spec), N if binary else 10 ** 9)
    if op == 'transpose' and exp != list(a):
        hits.append('transpose_moves_entry')
    return info(1, hits, case)


# ---------------------------------------------------------------------------
# part mat_product: Mat @ Mat, Mat @ Vec
def cases_mat_product(tier):
    cases = []
    for cls in MATS:
        n = DIM[cls]
        N = n * n
        cases += [(cls, 'matmat', k, w) for k, w in specs(2 * N)]
        cases += [(cls, 'matvec', k, w) for k, w in specs(N + n)]
    # the vector is an instance of a user subclass of Vec3 / Vec4
    for cls in MATS:
        n = DIM[cls]
        cases += [(cls, 'matvec_sub', k, w) for k, w in specs(n * n + n)]
    return cases


def run_mat_product(case):
    cls, op, kind, what_spec = case
    C = CLS[cls]
    n = DIM[cls]
    N = n * n
    feats = dict(cls=cls, op=op)
    if op == 'matmat':
        x = inputs_of((kind, what_spec), 2 * N)
        a, b = tuple(x[:N]), tuple(x[N:])
        what = f'{show(cls, a)} @ {show(cls, b)}'
        r = call('mat_product', feats, what, lambda: C(a) @ C(b))
        exp = ref_matmul(a, b, n)
    elif op in ('matvec', 'matvec_sub'):
        vcls = VEC_OF[cls]
        V = CLS[vcls] if op == 'matvec' else SUB[vcls]
        x = inputs_of((kind, what_spec), N + n)
        a, b = tuple(x[:N]), tuple(x[N:])
        what = f'{show(cls, a)} @ {show(V.__name__, b)}'
        r = call('mat_product', feats, what, lambda: C(a) @ V(*b))
        exp = ref_vecmat(a, b, n)
    else:
        raise HarnessError(f'unknown mat_product op {op!r}')
    if not same(r, exp):
        raise Violation('mat_product', f'{what} -> {vals_of(r)!r}, expected '
                        f'{tuple(exp)}', kind='value', **feats)
    hits = spec_hits((kind, what_spec), N)
    if any(exp):
        hits.append('product_nonzero')
    if op == 'matvec_sub':
        hits.append('matvec_subclass_vector')
    return info(1, hits, case)


# ---------------------------------------------------------------------------
# part mat_laws: associativity, identity, (A @ B) @ v == B @ (A @ v)
def mat_pool(cls):
    N = DIM[cls] ** 2
    pool = []
    for i in range(N):
        e = [0] * N
        e[i] = 1
        pool.append(tuple(e))
    pool.append(tuple(dense('primes', N)))
    pool.append(tuple(dense('dyadic', N)))
    pool.append(tuple(dense('fractions', N)))
    return pool


def vec_pool(cls):
    n = DIM[cls]
    pool = []
    for i in range(n):
        e = [0] * n
        e[i] = 1
        pool.append(tuple(e))
    pool.append(tuple(dense('signed', n)))
    return pool


def cases_mat_laws(tier):
    cases = []
    for cls in MATS:
        P = len(mat_pool(cls))
        V = len(vec_pool(cls))
        # the default matrix holds floats: the identity law is checked on
        # operands that binary floats represent exactly (not 'fractions')
        for i in range(P - 1):
            cases.append((cls, 'identity', i, 0, 0))
        for k in range(V):
            cases.append((cls, 'identity_vec', 0, 0, k))
        for i, j, k in product(range(P), repeat=3):
            cases.append((cls, 'assoc', i, j, k))
        for i, j in product(range(P), repeat=2):
            for k in range(V):
                cases.append((cls, 'vec_law', i, j, k))
    # the same vector laws with v an instance of a user subclass
    for cls in MATS:
        P = len(mat_pool(cls))
        V = len(vec_pool(cls))
        for k in range(V):
            cases.append((cls, 'identity_vec_sub', 0, 0, k))
        for i, j in product(range(P), repeat=2):
            for k in range(V):
                cases.append((cls, 'vec_law_sub', i, j, k))
    return cases


def run_mat_laws(case):
    cls, op, i, j, k = case
    C = CLS[cls]
    n = DIM[cls]
    N = n * n
    feats = dict(cls=cls, op=op)
    pool = mat_pool(cls)
    hits = []

    def bad(what, got, exp):
        raise Violation('mat_laws', f'{what} -> {vals_of(got)!r}, expected '
                        f'{tuple(exp)}', kind='value', **feats)

    if op == 'identity':
        a = pool[i]
        default = call('mat_laws', feats, f'{cls}()', C)
        if not same(default, ref_identity(n)):
            bad(f'{cls}()', default, ref_identity(n))
        left = call('mat_laws', feats, f'{cls}() @ {show(cls, a)}',
                    lambda: default @ C(a))
        right = call('mat_laws', feats, f'{show(cls, a)} @ {cls}()',
                     lambda: C(a) @ default)
        if not same(left, a):
            bad(f'{cls}() @ {show(cls, a)}', left, a)
        if not same(right, a):
            bad(f'{show(cls, a)} @ {cls}()', right, a)
        return info(3, ['default_is_identity'], case)
    if op not in ('identity_vec', 'identity_vec_sub', 'assoc', 'vec_law',
                  'vec_law_sub'):
        raise HarnessError(f'unknown mat_laws op {op!r}')
    subclass = op.endswith('_sub')
    vcls = VEC_OF[cls]
    V = SUB[vcls] if subclass else CLS[vcls]
    vname = V.__name__
    if op in ('identity_vec', 'identity_vec_sub'):
        v = vec_pool(cls)[k]
        r = call('mat_laws', feats, f'{cls}() @ {show(vname, v)}',
                 lambda: C() @ V(*v))
        if not same(r, v):
            bad(f'{cls}() @ {show(vname, v)}', r, v)
        return info(1, ['default_is_identity']
                    + (['identity_subclass_vector'] if subclass else []),
                    case)
    a, b = pool[i], pool[j]
    if op == 'assoc':
        c = pool[k]
        what = f'({show(cls, a)} @ {show(cls, b)}) @ {show(cls, c)}'
        left = call('mat_laws', feats, what, lambda: (C(a) @ C(b)) @ C(c))
        what2 = f'{show(cls, a)} @ ({show(cls, b)} @ {show(cls, c)})'
        right = call('mat_laws', feats, what2, lambda: C(a) @ (C(b) @ C(c)))
        exp = ref_matmul(ref_matmul(a, b, n), c, n)
        if not same(left, exp):
            bad(what, left, exp)
        if not same(right, exp):
            bad(what2, right, exp)
        if max(i, j, k) < N:
            hits.append('basis_triple')
            if any(exp):
                hits.append('basis_triple_nonzero')
        else:
            hits.append('dense_guard')
        return info(4, hits, case)
    v = vec_pool(cls)[k]
    what = f'({show(cls, a)} @ {show(cls, b)}) @ {show(vname, v)}'
    left = call('mat_laws', feats, what,
                lambda: (C(a) @ C(b)) @ V(*v))
    what2 = f'{show(cls, b)} @ ({show(cls, a)} @ {show(vname, v)})'
    right = call('mat_laws', feats, what2,
                 lambda: C(b) @ (C(a) @ V(*v)))
    exp = ref_vecmat(b, ref_vecmat(a, v, n), n)
    if not same(left, exp):
        bad(what, left, exp)
    if not same(right, exp):
        bad(what2, right, exp)
    if max(i, j) < N and k < n:
        hits.append('basis_triple')
        if any(exp):
            hits.append('basis_triple_nonzero')
    else:
        hits.append('dense_guard')
    if subclass:
        hits.append('vec_law_subclass_vector')
    return info(4, hits, case)


# ---------------------------------------------------------------------------
# part mat4_inverse
ROWS_BIN = list(product((0, 1), repeat=4))                       # 16
ROWS_TERN = list(product((0, 1, -1), repeat=4))                  # 81
ROWS_RICH = [
    (1, 0, 0, 0), (0, 1, 0, 0), (0, 0, 1, 0), (0, 0, 0, 1),
    (1, 2, 3, 5), (2, -1, 0, '1/2'), (-1, '1/2', 3, 2), (0, 3, -2, 1),
    ('1/3', 1, 1, -1), (5, 0, '-3/2', 0), (1, 1, 1, 1), (-2, 7, 0, 3),
    # thorough only:
    (0, 0, 2, -1), ('2/3', 0, 0, 4), (3, 3, -1, 0), (1, -1, 1, -1),
    (0, '1/5', 0, 0), (7, 5, 3, 2),
]
_BOTTOM = {}


def bottom_table():
    """Lower two rows of the {-1,0,1} grid with their 2x2 minors, built
    once per process."""
    if 'tern' not in _BOTTOM:
        _BOTTOM['tern'] = [(r + s, minors2(r, s))
                           for r in ROWS_TERN for s in ROWS_TERN]
    return _BOTTOM['tern']


def cases_mat4_inverse(tier):
    cases = [('bin', i, j) for i in range(16) for j in range(16)]
    nrich = 18 if tier == 'thorough' else 12
    cases += [('rich', nrich, i, j) for i in range(nrich)
              for j in range(nrich)]
    return cases


def cases_mat4_inverse_full(tier):
    return [('tern', i, j) for i in range(81) for j in range(81)]


TINY_DET = F(1, 10 ** 6)        # |det| below this: 'tiny_determinant'
HUGE_DET = F(10 ** 6)           # |det| above this: 'huge_determinant'
LARGE_ENTRY = 1024              # singular_with_large_entries: max |entry|
FLOAT_TOL = F(1, 10 ** 12)      # relative, entries of a float-valued inverse


def det_band(det):
    a = abs(det)
    return 'tiny' if a < TINY_DET else 'huge' if a > HUGE_DET else 'moderate'


def check_inverse_exact(m, hits, num='frac'):
    """One matrix given by exact Fractions m.

    num == 'frac': the Fractions themselves are handed to Mat4; exact
    comparison with adjugate/determinant and exact two-sided products.
    num == 'float': every entry must be exactly representable as a binary
    float; Mat4 gets the floats, the reference works on the Fractions of
    those floats.  1/det is then rounded once and every entry is one more
    rounded product, so the result is compared entry by entry with the exact
    inverse with relative tolerance 1e-12 (the exact inverse itself is
    verified to be two-sided over Fractions).

    A singular matrix is inverted three times in a row - the object again,
    then a new equal matrix: every call must warn and hand the matrix back
    (the warning is part of the result, not a once-only event).
    -> number of implementation calls."""
    feats = dict(cls='Mat4', op='invert')
    arg = m
    if num == 'float':
        feats['num'] = 'float'
        arg = tuple(float(x) for x in m)
        if any(F(a) != x for a, x in zip(arg, m)):
            raise HarnessError(f'float case {m!r} is not exactly '
                               'representable in binary floats')
    elif num != 'frac':
        raise HarnessError(f'unknown number kind {num!r}')
    what = f'~{show("Mat4", arg)}'
    M = dm.Mat4(arg)
    with warnings.catch_warnings(record=True) as log:
        warnings.simplefilter('always')
        r = call('mat4_inverse', feats, what, lambda: ~M)
    det, inv = ref_inverse(m)
    t = vals_of(r)
    if t is None or len(t) != 16:
        raise Violation('mat4_inverse', f'{what} -> {r!r}, not a Mat4',
                        kind='value', **feats)
    if det == 0:
        if not same(r, arg):
            raise Violation('mat4_inverse', f'{what} (singular) -> {t!r}, '
                            'expected the matrix unchanged',
                            kind='singular_changed', **feats)
        if not log:
            raise Violation('mat4_inverse', f'{what} (singular) returned '
                            'without a warning', kind='singular_no_warning',
                            **feats)
        hits['singular_matrix'] = hits.get('singular_matrix', 0) + 1
        if r is M:
            hits['singular_returns_same_object'] = 1
        for again, M2 in (('the same object again', M),
                          ('an equal new matrix right after', dm.Mat4(arg))):
            with warnings.catch_warnings(record=True) as log:
                warnings.simplefilter('always')
                r2 = call('mat4_inverse', feats, f'{what} ({again})',
                          lambda: ~M2)
            if not same(r2, arg):
                raise Violation(
                    'mat4_inverse', f'{what} (singular, {again}) -> '
                    f'{vals_of(r2)!r}, expected the matrix unchanged',
                    kind='singular_changed_on_repeat', **feats)
            if not log:
                raise Violation(
                    'mat4_inverse', f'{what} (singular): the first call '
                    f'warned, {again} it returned without a warning',
                    kind='singular_no_warning_on_repeat', **feats)
        hits['singular_inverted_again'] = \
            hits.get('singular_inverted_again', 0) + 1
        biggest = max(abs(x) for x in m)
        if biggest >= LARGE_ENTRY:
            hits['singular_with_large_entries'] = \
                hits.get('singular_with_large_entries', 0) + 1
        elif 0 < biggest < F(1, 100):
            hits['singular_with_tiny_entries'] = \
                hits.get('singular_with_tiny_entries', 0) + 1
        return 3
    band = det_band(det)
    if same(r, arg) and list(inv) != list(m):
        raise Violation(
            'mat4_inverse', f'{what} -> the matrix itself'
            f'{" with a warning" if log else ""}: it is not singular '
            f'(det = {det} ~ {float(det):.3g}) and must be inverted',
            kind='nonsingular_returned_unchanged', band=band, **feats)
    if num == 'float':
        if ref_matmul(m, inv, 4) != list(I16) or \
                ref_matmul(inv, m, 4) != list(I16):
            raise HarnessError(f'reference inverse of {m!r} is not two-sided')
        try:
            tf = [F(x) for x in t]
        except (TypeError, ValueError, OverflowError):
            raise Violation('mat4_inverse', f'{what} -> {t!r}, entries are '
                            'not finite numbers', kind='not_inverse', **feats)
        biggest = max(abs(e) for e in inv)
        if not all(abs(x - e) <= FLOAT_TOL * (abs(e) if e else biggest)
                   for x, e in zip(tf, inv)):
            raise Violation(
                'mat4_inverse', f'{what} -> {t!r}, expected (rel. 1e-12) '
                f'{tuple(float(e) for e in inv)} (det = {det})',
                kind='not_inverse', **feats)
        hits['float_inverse_checked'] = \
            hits.get('float_inverse_checked', 0) + 1
    else:
        if not same(r, inv):
            raise Violation('mat4_inverse', f'{what} -> {t!r}, expected '
                            f'{tuple(inv)} (det = {det})', kind='not_inverse',
                            **feats)
        if ref_matmul(m, t, 4) != list(I16) or \
                ref_matmul(t, m, 4) != list(I16):
            raise Violation('mat4_inverse', f'{what} -> {t!r} is not a '
                            'two-sided inverse', kind='not_inverse', **feats)
    hits['nonsingular_matrix'] = hits.get('nonsingular_matrix', 0) + 1
    if det < 0:
        hits['negative_determinant'] = 1
    if abs(det) != 1:
        hits['determinant_not_unit'] = 1
    if list(m) != ref_transpose(m, 4):
        hits['asymmetric_matrix'] = 1
    if band != 'moderate':
        name = f'{band}_determinant'
        hits[name] = hits.get(name, 0) + 1
        if abs(det) < F(1, 10 ** 12):
            hits['determinant_below_1e_12'] = 1
        elif abs(det) < F(1, 10 ** 9):
            hits['determinant_below_1e_9'] = 1
    return 1


def run_mat4_inverse(case):
    hits = {}
    if case[0] == 'bin':
        _, i, j = case
        top = ROWS_BIN[i] + ROWS_BIN[j]
        rows = ROWS_BIN
    else:
        _, nrich, i, j = case
        rows = [decs(r) for r in ROWS_RICH[:nrich]]
        top = rows[i] + rows[j]
    calls = 0
    for r2 in rows:
        for r3 in rows:
            m = tuple(F(x) for x in top + r2 + r3)
            calls += check_inverse_exact(m, hits)
    return {'calls': calls, 'hits': hits, 'key': case}


def run_mat4_inverse_full(case):
    """Block of the {-1,0,1}^16 grid: first two rows fixed, 6561 matrices."""
    _, i, j = case
    r0, r1 = ROWS_TERN[i], ROWS_TERN[j]
    top = r0 + r1
    T = minors2(r0, r1)
    feats = dict(cls='Mat4', op='invert')
    Mat4 = dm.Mat4
    nsing = nreg = same_obj = 0
    # a singular matrix is inverted twice in a row (the same object): both
    # calls must warn
    with warnings.catch_warnings(record=True) as log:
        warnings.simplefilter('always')
        for bot, B in bottom_table():
            m = top + bot
            det = det_laplace2(T, B)
            M = Mat4(m)
            try:
                r = ~M
            except Exception as exc:
                raise Violation('mat4_inverse', f'~{show("Mat4", m)} raised '
                                f'{type(exc).__name__}: {exc}', kind='raised',
                                **feats)
            if det == 0:
                if not log:
                    raise Violation(
                        'mat4_inverse', f'~{show("Mat4", m)} (singular) '
                        'returned without a warning',
                        kind='singular_no_warning', **feats)
                del log[:]
                if r is M:
                    same_obj += 1
                elif not same(r, m):
                    raise Violation(
                        'mat4_inverse', f'~{show("Mat4", m)} (singular) -> '
                        f'{vals_of(r)!r}, expected the matrix unchanged',
                        kind='singular_changed', **feats)
                nsing += 1
                try:
                    r2 = ~M
                except Exception as exc:
                    raise Violation('mat4_inverse', f'~{show("Mat4", m)} '
                                    f'(again) raised {type(exc).__name__}: '
                                    f'{exc}', kind='raised', **feats)
                if not log:
                    raise Violation(
                        'mat4_inverse', f'~{show("Mat4", m)} (singular): the '
                        'first call warned, the same object again returned '
                        'without a warning',
                        kind='singular_no_warning_on_repeat', **feats)
                del log[:]
                if r2 is not M and not same(r2, m):
                    raise Violation(
                        'mat4_inverse', f'~{show("Mat4", m)} (singular, '
                        f'again) -> {vals_of(r2)!r}, expected the matrix '
                        'unchanged', kind='singular_changed_on_repeat',
                        **feats)
                continue
            if log:
                del log[:]
            ok = True
            try:
                adj = [round(x * det) for x in r]
                ok = len(adj) == 16 and all(
                    abs(x * det - c) <= 1e-9 for x, c in zip(r, adj))
            except (TypeError, ValueError, OverflowError):
                ok = False
            if ok:
                want = tuple(det * x for x in I16)
                ok = MM4(m, adj) == want and MM4(adj, m) == want
            if not ok:
                raise Violation(
                    'mat4_inverse', f'~{show("Mat4", m)} -> {vals_of(r)!r} '
                    f'is not the two-sided inverse (det = {det})',
                    kind='not_inverse', **feats)
            nreg += 1
    hits = {}
    if nsing:
        hits['singular_matrix'] = nsing
        hits['singular_inverted_again'] = nsing
    if same_obj:
        hits['singular_returns_same_object'] = 1
    if nreg:
        hits['nonsingular_matrix'] = nreg
    return {'calls': 2 * nsing + nreg, 'hits': hits, 'key': case}


# ---------------------------------------------------------------------------
# part mat4_inverse_mixed_numbers: the inverse of a matrix must not depend on
# which matrices were inverted before it.  Equal matrices with different
# entry types (3.0 == Fraction(3), same hash) are inverted back to back: the
# binary-float version first and the Fraction version right after - the
# Fraction result must still be the exact inverse - and the other way round
# (on the doubled matrix, so that the two orders never share a value).
MIXED_ORDERS = ('float_first', 'fraction_first')


def _mixed_cases(base):
    n = len(SCALE_BASES[base])
    return [('mixed', base, i, j, order) for order in MIXED_ORDERS
            for i in range(n) for j in range(n)]


def cases_mat4_inverse_mixed(tier):
    cases = _mixed_cases('int6')
    if tier == 'thorough':
        cases += _mixed_cases('int8') + _mixed_cases('bin')
    return cases


def run_mat4_inverse_mixed(case):
    kind, base, i, j, order = case
    if kind != 'mixed' or order not in MIXED_ORDERS:
        raise HarnessError(f'unknown case {case!r}')
    rows = [fracs(r) for r in SCALE_BASES[base]]
    k = 1 if order == 'float_first' else 2
    nums = ('float', 'frac') if order == 'float_first' else ('frac', 'float')
    hits = {}
    calls = 0
    top = rows[i] + rows[j]
    for r2 in rows:
        for r3 in rows:
            m = tuple(k * x for x in top + r2 + r3)
            for pos, num in enumerate(nums):
                try:
                    calls += check_inverse_exact(m, hits, num)
                except Violation as v:
                    if pos == 0:
                        raise
                    # the second of two equal matrices: the history matters
                    raise Violation(
                        v.clause, f'{v.detail}  [inverted right after the '
                        f'equal matrix with {nums[0]} entries]',
                        **dict(v.features, after=nums[0]))
            det, inv = ref_inverse(m)
            if det != 0:
                name = f'mixed_{order}'
                hits[name] = hits.get(name, 0) + 1
                if any(e.denominator & (e.denominator - 1) for e in inv):
                    # 1/det is not a binary float: a float inverse handed
                    # out for the Fraction matrix cannot be exact
                    hits[f'mixed_{order}_inexact_in_floats'] = 1
            else:
                hits['mixed_singular_pair'] = 1
    return {'calls': calls, 'hits': hits, 'key': case}


# ---------------------------------------------------------------------------
# part mat4_inverse_scaled: the determinant is homogeneous of degree 4 in the
# entries (degree 1 in every row and column), so "singular" must not depend
# on the magnitude of det.  Every matrix of a small complete row-product grid
# (singular members included) is scaled - all entries, one row, one column -
# and every 3x3 grid matrix A is embedded as the affine map "A times a
# uniform scale s, then translate by t" = [[s*A, 0], [t, 1]].
FACTORS = ('1/128', '1/1024', '1/1000', 1024)       # 2**-7 2**-10 10**-3 2**10
FLOAT_FACTORS = ('1/128', '1/1024', 1024)           # powers of two only
ROWS_INT = [
    (1, 0, 0, 0), (0, 1, 0, 0), (0, 0, 1, 0), (0, 0, 0, 1),
    (1, 2, 3, 5), (0, 3, -2, 1), (1, 1, 1, 1), (-2, 7, 0, 3),
]
SCALE_BASES = {
    'rich6': ROWS_RICH[:6],         # 1 296 matrices, Fraction entries
    'int6': ROWS_INT[:6],           # 1 296 integer matrices
    'rich8': ROWS_RICH[:8],         # 4 096 matrices, Fraction entries
    'int8': ROWS_INT,               # 4 096 integer matrices
    'rich12': ROWS_RICH[:12],       # the quick grid of mat4_inverse
    'bin': ROWS_BIN,                # {0,1}^16
}
ROWS3 = {'bin3': list(product((0, 1), repeat=3)),           # {0,1}^9
         'tern3': list(product((0, 1, -1), repeat=3))}      # {-1,0,1}^9
TRANSLATIONS = ((0, 0, 0), (3, -4, 5), ('1/2', 2, -1))      # dyadic
SCALE_MODES = ([('all', 0)] + [('row', k) for k in range(4)]
               + [('col', k) for k in range(4)])


def _scaled_cases(base, num, modes=SCALE_MODES):
    n = len(SCALE_BASES[base])
    return [('rows', base, i, j, mode, k, f, num)
            for f in (FACTORS if num == 'frac' else FLOAT_FACTORS)
            for mode, k in modes
            for i in range(n) for j in range(n)]


def _affine_cases(grid, num):
    return [('affine', grid, i, ti, f, num)
            for f in (FACTORS if num == 'frac' else FLOAT_FACTORS)
            for ti in range(len(TRANSLATIONS))
            for i in range(len(ROWS3[grid]))]


def cases_mat4_inverse_scaled(tier):
    # the quick family first: same minimal counterexamples in both tiers
    cases = (_affine_cases('bin3', 'frac') + _affine_cases('bin3', 'float')
             + _scaled_cases('rich6', 'frac') + _scaled_cases('int6', 'float'))
    if tier == 'thorough':
        cases += (_affine_cases('tern3', 'frac')
                  + _affine_cases('tern3', 'float')
                  + _scaled_cases('rich8', 'frac')
                  + _scaled_cases('int8', 'float')
                  + _scaled_cases('rich12', 'frac', SCALE_MODES[:1])
                  + _scaled_cases('bin', 'float', SCALE_MODES[:1]))
    return cases


def run_mat4_inverse_scaled(case):
    hits = {}
    calls = 0
    if case[0] == 'rows':
        _, base, i, j, mode, k, f, num = case
        rows = [fracs(r) for r in SCALE_BASES[base]]
        s = F(dec(f))
        top = rows[i] + rows[j]
        for r2 in rows:
            for r3 in rows:
                m = list(top + r2 + r3)
                if mode == 'all':
                    m = [x * s for x in m]
                elif mode == 'row':
                    for c in range(4):
                        m[4 * k + c] *= s
                elif mode == 'col':
                    for c in range(4):
                        m[4 * c + k] *= s
                else:
                    raise HarnessError(f'unknown scaling mode {mode!r}')
                calls += check_inverse_exact(tuple(m), hits, num)
    elif case[0] == 'affine':
        _, grid, i, ti, f, num = case
        rows = ROWS3[grid]
        s = F(dec(f))
        t = fracs(TRANSLATIONS[ti])
        zero, one = F(0), F(1)
        a0 = tuple(s * x for x in rows[i])
        for a1 in rows:
            for a2 in rows:
                m = (a0 + (zero,) + tuple(s * x for x in a1) + (zero,)
                     + tuple(s * x for x in a2) + (zero,) + t + (one,))
                calls += check_inverse_exact(m, hits, num)
    else:
        raise HarnessError(f'unknown case kind {case[0]!r}')
    return {'calls': calls, 'hits': hits, 'key': case}


# ---------------------------------------------------------------------------
# part mat4_constructors: action on points
DYADIC = (0, -1, '1/2', 2)
POINTS = ((1, 0, 0, 0), (0, 1, 0, 0), (0, 0, 1, 0), (0, 0, 0, 1),
          (3, -2, '1/2', 1), (1, 2, 3, 0))
ORTHO_LO = (-2, 0, 1)
ORTHO_HI = (-1, 2, 3)
ORTHO_NEAR = (0, 1, '1/2')
ORTHO_FAR = (2, 5, -3)


def cases_mat4_constructors(tier):
    cases = []
    for v in product(DYADIC, repeat=3):
        cases.append(('from_translation', v))
        cases.append(('from_scale', v))
        cases.append(('translate_default', v))
    for kind, what in specs(19):
        cases.append(('translate', kind, what))
    for box in product(ORTHO_LO, ORTHO_HI, ORTHO_LO, ORTHO_HI, ORTHO_NEAR,
                       ORTHO_FAR):
        cases.append(('orthogonal_projection', box))
    return cases


def run_mat4_constructors(case):
    op = case[0]
    feats = dict(cls='Mat4', op=op)
    clause = 'mat4_constructors'
    pts = [decs(p) for p in POINTS]
    calls = 0
    hits = ['constructor_on_subclass_point']

    def compare(what, M, transform, tol=None):
        n = 0
        # the last round: a point that is an instance of a Vec4 subclass
        for p, V in [(p, dm.Vec4) for p in pts] + [(pts[4], SubVec4)]:
            r = call(clause, feats, f'{what} @ {show(V.__name__, p)}',
                     lambda: M @ V(*p))
            exp = transform(p)
            t = vals_of(r)
            if tol is None:
                ok = same(r, exp)
            else:
                ok = t is not None and len(t) == 4
                try:
                    ok = ok and all(
                        abs(F(x) - e) <= tol * max(1, abs(e))
                        for x, e in zip(t, exp))
                except (TypeError, ValueError):
                    ok = False
            if not ok:
                raise Violation(clause, f'{what} @ {show(V.__name__, p)} -> '
                                f'{t!r}, expected {tuple(exp)}',
                                kind='value' if V is dm.Vec4
                                else 'value_subclass_point', **feats)
            n += 1
        return n

    if op in ('from_translation', 'from_scale', 'translate_default'):
        v = decs(case[1])
        if op == 'from_scale':
            def transform(p):
                return [p[0] * v[0], p[1] * v[1], p[2] * v[2], p[3]]
        else:
            def transform(p):
                return [p[0] + p[3] * v[0], p[1] + p[3] * v[1],
                        p[2] + p[3] * v[2], p[3]]
        for arg, label in ((dm.Vec3(*v), show('Vec3', v)), (tuple(v), v)):
            if op == 'translate_default':
                what = f'Mat4().translate({label})'
                M = call(clause, feats, what, dm.Mat4().translate, arg)
            else:
                what = f'Mat4.{op}({label})'
                M = call(clause, feats, what, getattr(dm.Mat4, op), arg)
            calls += 1 + compare(what, M, transform)
        hits.append('vec3_and_tuple_argument')
        if not any(v):
            hits.append('neutral_argument')
        return info(calls, hits, case)

    if op == 'translate':
        x = inputs_of((case[1], case[2]), 19)
        m, v = tuple(x[:16]), tuple(x[16:])
        what = f'{show("Mat4", m)}.translate({show("Vec3", v)})'
        M = call(clause, feats, what, dm.Mat4(m).translate, dm.Vec3(*v))

        def transform(p):
            q = ref_vecmat(m, p, 4)
            return [q[0] + q[3] * v[0], q[1] + q[3] * v[1],
                    q[2] + q[3] * v[2], q[3]]
        calls += 1 + compare(what, M, transform)
        hits += spec_hits((case[1], case[2]), 16)
        return info(calls, hits, case)

    left, right, bottom, top, near, far = decs(case[1])
    what = (f'Mat4.orthogonal_projection({left}, {right}, {bottom}, {top}, '
            f'{near}, {far})')
    M = call(clause, feats, what, dm.Mat4.orthogonal_projection,
             left, right, bottom, top, near, far)

    def transform(p):
        x, y, z, w = (F(c) for c in p)
        return [(2 * x - (right + left) * w) / F(right - left),
                (2 * y - (top + bottom) * w) / F(top - bottom),
                (-2 * z - (far + near) * w) / F(far - near), w]
    box_points = [(left, bottom, -near, 1), (right, top, -far, 1),
                  (F(left + right) / 2, F(bottom + top) / 2,
                   -F(near + far) / 2, 1)]
    if transform(box_points[0]) != [-1, -1, -1, 1] or \
            transform(box_points[1]) != [1, 1, 1, 1] or \
            transform(box_points[2]) != [0, 0, 0, 1]:
        raise HarnessError('orthographic reference does not map the box to '
                           'the unit cube')
    pts = pts + box_points
    calls += 1 + compare(what, M, transform, tol=F(1, 10 ** 12))
    hits.append('ortho_box_corners_to_unit_cube')
    if right < left or top < bottom or far < near:
        hits.append('ortho_flipped_axis')
    return info(calls, hits, case)


# ---------------------------------------------------------------------------
# part vec_subclass: every vector operation on instances of user subclasses of
# Vec2/3/4, alone and mixed with plain vectors.  Differential: the result must
# equal (same length, entries ==, same exception type) the result of the same
# call on the plain vectors with the same entries, which the other parts
# compare with the textbook.  The class of the result is not demanded.
SUB_SCALARS = {
    'scale': [(x,) for x in SCALARS],
    'clamp': [(-1, '1/2'), (0, 0), ('1/2', 2)],
    'limit': [(0,), (1,), ('5/2',)],
    'from_magnitude': [(0,), (2,)],
    'from_heading': [(0,), (8,), (16,)],        # indices into ANGLES
    'rotate': [(0,), (8,), (16,)],
    'lerp': [(x,) for x in ALPHAS],
}
SUB_UNARY = ('neg', 'abs', 'normalize', 'zero_plus', 'mag', 'heading',
             'scale', 'clamp', 'limit', 'from_magnitude', 'from_heading',
             'rotate', 'swizzle')
SUB_BINARY = ('add', 'sub', 'mul', 'div', 'dot', 'distance', 'cross', 'lerp',
              'sum')
SUB_ONLY = {'mag': ('Vec2', 'Vec3'), 'heading': ('Vec2',),
            'limit': ('Vec2', 'Vec3'), 'from_magnitude': ('Vec2', 'Vec3'),
            'from_heading': ('Vec2',), 'rotate': ('Vec2',),
            'cross': ('Vec3',)}


def sub_pool(cls):
    n = DIM[cls]
    if cls == 'Vec2':
        pool = list(product((0, 2, '-3/2'), repeat=2))
    else:
        pool = list(product((0, 2), repeat=n))
    pool.append(tuple(enc(x) for x in dense('fractions', n)))
    return pool


def sub_swizzles(cls):
    own = LETTERS[cls]
    out = [''.join(t) for k in (1, 2) for t in product(own, repeat=k)]
    out += [own[::-1], (own * 4)[:4], own + 'a', 'a']
    return sorted(set(out), key=lambda t: (len(t), t))


def cases_vec_subclass(tier):
    cases = []
    for cls in VECS:
        npool = len(sub_pool(cls))
        cases.append((cls, 'ctor', (), -1, -1, 's'))
        for op in SUB_UNARY:
            if cls not in SUB_ONLY.get(op, VECS):
                continue
            if op == 'swizzle':
                args = [(t,) for t in sub_swizzles(cls)]
            else:
                args = SUB_SCALARS.get(op, [()])
            for arg in args:
                for i in range(npool):
                    cases.append((cls, op, tuple(arg), i, -1, 's'))
        for op in SUB_BINARY:
            if cls not in SUB_ONLY.get(op, VECS):
                continue
            for arg in SUB_SCALARS.get(op, [()]):
                for i in range(npool):
                    for j in range(npool):
                        for mix in ('ss', 'sp', 'ps'):
                            cases.append((cls, op, tuple(arg), i, j, mix))
    return cases


def _sub_apply(op, arg, vs):
    a = vs[0]
    if op == 'neg':
        return -a
    if op == 'abs':
        return abs(a)
    if op == 'zero_plus':
        return 0 + a
    if op in ('mag', 'heading'):
        return getattr(a, op)
    if op == 'swizzle':
        _LOOKUPS_HERE[0] += 1
        return getattr(a, arg[0])
    if op == 'normalize':
        return a.normalize()
    if op in ('scale', 'limit', 'from_magnitude'):
        return getattr(a, op)(dec(arg[0]))
    if op == 'clamp':
        return a.clamp(dec(arg[0]), dec(arg[1]))
    if op in ('from_heading', 'rotate'):
        return getattr(a, op)(ANGLES[arg[0]])
    b = vs[1]
    if op == 'add':
        return a + b
    if op == 'sub':
        return a - b
    if op == 'mul':
        return a * b
    if op == 'div':
        return a / b
    if op in ('dot', 'distance', 'cross'):
        return getattr(a, op)(b)
    if op == 'lerp':
        return a.lerp(b, dec(arg[0]))
    if op == 'sum':
        return sum([a, b])
    raise HarnessError(f'unknown vec_subclass op {op!r}')


def _sub_attempt(op, arg, vs):
    try:
        return ('value', _sub_apply(op, arg, vs))
    except HarnessError:
        raise
    except Exception as exc:
        return ('raised', type(exc).__name__)


def run_vec_subclass(case):
    cls, op, arg, i, j, mix = case
    P, S = CLS[cls], SUB[cls]
    n = DIM[cls]
    feats = dict(cls=cls, op=op)
    clause = 'vec_subclass'
    hits = ['vec_subclass_operand']
    if op == 'ctor':
        r = call(clause, feats, f'{S.__name__}()', S)
        if not same(r, [0] * n):
            raise Violation(clause, f'{S.__name__}() -> {r!r}, expected the '
                            'zero vector', kind='construction', **feats)
        return info(1, hits, case)
    pool = sub_pool(cls)
    operands = [decs(pool[i])] + ([decs(pool[j])] if j >= 0 else [])
    if len(mix) != len(operands) or set(mix) - set('sp'):
        raise HarnessError(f'bad operand kinds in {case!r}')
    plain = [P(*x) for x in operands]
    mixed = []
    for kind, x in zip(mix, operands):
        if kind == 'p':
            mixed.append(P(*x))
            continue
        v = call(clause, feats, show(S.__name__, x), S, *x)
        if not isinstance(v, P) or not same(v, x) or v != P(*x):
            raise Violation(clause, f'{show(S.__name__, x)} -> {v!r}: not a '
                            f'{cls} with these entries', kind='construction',
                            **feats)
        if type(v) is S:
            hits.append('info_subclass_instances_exist')
        mixed.append(v)
    label = ', '.join(show(S.__name__ if k == 's' else cls, x)
                      for k, x in zip(mix, operands))
    what = f'{op}{tuple(arg)!r} on {label}'
    want = _sub_attempt(op, arg, plain)
    got = _sub_attempt(op, arg, mixed)
    if want[0] != got[0] or (want[0] == 'raised' and want[1] != got[1]):
        raise Violation(clause, f'{what}: {got!r}, on the plain vectors with '
                        f'the same entries: {want!r}', kind='raised', **feats)
    if want[0] == 'raised':
        hits.append('vec_subclass_same_exception')
        return info(2, hits, case)
    w, g = want[1], got[1]
    wt = vals_of(w)
    ok = same(g, wt) if wt is not None else (vals_of(g) is None and g == w)
    if not ok:
        raise Violation(clause, f'{what} -> {g!r}, on the plain vectors with '
                        f'the same entries -> {w!r}', kind='value', **feats)
    if 'p' in mix:
        hits.append('vec_subclass_mixed_with_plain')
    if wt is not None and type(g) is not type(w):
        hits.append('info_result_class_differs')
    return info(2, hits, case)


# ---------------------------------------------------------------------------
# part vec_float: sqrt / angle operations, bounded tolerance check
ANGLES = [k * math.pi / 8 for k in range(-8, 8)] + [1.0, 7.5]
MAGNITUDES = (0, 0.5, 1, 2.5, 1000.0)
EXPONENTS = (0, -10, 10)
TOL = 1e-9


def float_grid(tier, cls):
    if cls == 'Vec2':
        return list(product(range(-3, 4), repeat=2))
    if cls == 'Vec3':
        side = range(-2, 3) if tier == 'thorough' else (-2, 0, 1, 3)
        return list(product(side, repeat=3))
    side = (-2, 0, 1, 3) if tier == 'thorough' else (-2, 0, 1)
    return list(product(side, repeat=4))


def cases_vec_float(tier):
    cases = []
    for cls in VECS:
        for v in float_grid(tier, cls):
            for e in EXPONENTS:
                cases.append((cls, 'normalize', v, e, 0))
                if cls != 'Vec4':
                    for mi in range(len(MAGNITUDES)):
                        cases.append((cls, 'from_magnitude', v, e, mi))
                if cls == 'Vec2':
                    cases.append((cls, 'heading', v, e, 0))
                    for ai in range(len(ANGLES)):
                        cases.append((cls, 'from_heading', v, e, ai))
                        cases.append((cls, 'rotate', v, e, ai))
    for mi in range(len(MAGNITUDES)):
        for e in EXPONENTS:
            for ai in range(len(ANGLES)):
                cases.append(('Vec2', 'from_polar', (mi,), e, ai))
    return cases


def close_vec(clause, feats, what, r, exp, scale):
    t = vals_of(r)
    ok = t is not None and len(t) == len(exp)
    if ok:
        try:
            ok = all(abs(x - y) <= TOL * scale for x, y in zip(t, exp))
        except TypeError:
            ok = False
    if not ok:
        raise Violation(clause, f'{what} -> {t!r}, expected about '
                        f'{tuple(exp)}', kind='value', **feats)


def run_vec_float(case):
    cls, op, v, e, idx = case
    feats = dict(cls=cls, op=op)
    clause = 'vec_float'
    C = CLS[cls]
    hits = []
    if op == 'from_polar':
        mag = MAGNITUDES[v[0]] * 2.0 ** e
        ang = ANGLES[idx]
        what = f'Vec2.from_polar({mag}, {ang})'
        r = call(clause, feats, what, dm.Vec2.from_polar, mag, ang)
        close_vec(clause, feats, what, r,
                  [mag * math.cos(ang), mag * math.sin(ang)], mag)
        return info(1, ['polar_zero_magnitude'] if mag == 0 else
                    ['polar'], case)
    vals = [x * 2.0 ** e for x in v] if e else list(v)
    norm2 = sum(F(x) ** 2 for x in vals)
    norm = math.sqrt(norm2)
    vec = C(*vals)
    zero = norm2 == 0
    if zero:
        hits.append('zero_vector')
    if op == 'normalize':
        what = f'{show(cls, vals)}.normalize()'
        r = call(clause, feats, what, vec.normalize)
        if zero:
            if not same(r, vals):
                raise Violation(clause, f'{what} -> {r!r}: zero must stay '
                                'zero', kind='zero_vector', **feats)
            return info(1, ['zero_vector_normalize'], case)
        close_vec(clause, feats, what, r, [x / norm for x in vals], 1.0)
        length2 = sum(F(x) ** 2 for x in r)
        if abs(length2 - 1) > 4 * F(TOL):
            raise Violation(clause, f'{what} -> {r!r} is not a unit vector',
                            kind='value', **feats)
        return info(1, ['normalize_unit'], case)
    if op == 'from_magnitude':
        mag = MAGNITUDES[idx]
        if zero:
            # checked in part vec_zero_length (every way of writing zero)
            return info(0, ['zero_vector_from_magnitude_in_vec_zero_length'],
                        case)
        what = f'{show(cls, vals)}.from_magnitude({mag})'
        r = call(clause, feats, what, vec.from_magnitude, mag)
        close_vec(clause, feats, what, r, [x / norm * mag for x in vals],
                  mag)
        return info(1, ['from_magnitude_zero'] if mag == 0
                    else ['from_magnitude'], case)
    if op == 'heading':
        what = f'{show(cls, vals)}.heading'
        h = call(clause, feats, what, lambda: vec.heading)
        if zero:
            return info(1, ['zero_vector_heading_unconstrained'], case)
        ok = isinstance(h, (int, float)) and -math.pi <= h <= math.pi
        ok = ok and abs(norm * math.cos(h) - vals[0]) <= TOL * norm \
            and abs(norm * math.sin(h) - vals[1]) <= TOL * norm
        if not ok:
            raise Violation(clause, f'{what} -> {h!r}, expected the angle of '
                            'the vector in [-pi, pi]', kind='value', **feats)
        return info(1, ['heading_negative'] if h < 0 else ['heading'], case)
    ang = ANGLES[idx]
    if op == 'from_heading':
        what = f'{show(cls, vals)}.from_heading({ang})'
        r = call(clause, feats, what, vec.from_heading, ang)
        exp = [norm * math.cos(ang), norm * math.sin(ang)]
    else:
        what = f'{show(cls, vals)}.rotate({ang})'
        r = call(clause, feats, what, vec.rotate, ang)
        c, s = math.cos(ang), math.sin(ang)
        exp = [vals[0] * c - vals[1] * s, vals[0] * s + vals[1] * c]
    close_vec(clause, feats, what, r, exp, norm)
    if not zero:
        # the named invariants: magnitude kept, heading set / advanced
        length = math.sqrt(sum(F(x) ** 2 for x in r))
        target = ang if op == 'from_heading' else \
            math.atan2(vals[1], vals[0]) + ang
        got = math.atan2(r[1], r[0])
        if abs(length - norm) > 2 * TOL * norm or \
                abs(math.remainder(got - target, 2 * math.pi)) > 4 * TOL:
            raise Violation(clause, f'{what} -> {r!r}: magnitude or heading '
                            'is off', kind='value', **feats)
        hits.append(op)
    return info(1, hits, case)


# ---------------------------------------------------------------------------
# part vec_zero_length: the zero-length boundary of every operation that is
# defined through the direction or the length of its vector.  The textbook
# formula v / |v| has no value there, so each of them needs (and can lose) a
# guard.  Every way of writing the zero vector (ints, floats, negative float
# zeros, Fractions, a mixture, the difference of two equal vectors - the
# "arrived at the target" case of steering code) x every operation x every
# listed argument.
ZERO_KINDS = ('int', 'float', 'negative_float', 'fraction', 'mixed',
              'difference')
ZL_MAGNITUDES = (0, 1, '5/2', 0.5, 4.0, 1000.0)
ZL_LIMITS = (0, '1/2', 3, 2.5)
ZL_OPS = {
    'normalize': VECS, 'abs': VECS,
    'from_magnitude': ('Vec2', 'Vec3'), 'limit': ('Vec2', 'Vec3'),
    'from_heading': ('Vec2',), 'rotate': ('Vec2',),
}
_MIXED_ZEROS = (0, -0.0, F(0), 0.0)
_DIFF_POINT = (2.0, -1.0, 0.5, 3)


def zero_vector(cls, kind):
    """-> (the vector, how it was written)."""
    C = CLS[cls]
    n = DIM[cls]
    if kind == 'difference':
        p = _DIFF_POINT[:n]
        return C(*p) - C(*p), f'({show(cls, p)} - {show(cls, p)})'
    if kind == 'int':
        z = (0,) * n
    elif kind == 'float':
        z = (0.0,) * n
    elif kind == 'negative_float':
        z = (-0.0,) * n
    elif kind == 'fraction':
        z = (F(0),) * n
    elif kind == 'mixed':
        z = _MIXED_ZEROS[:n]
    else:
        raise HarnessError(f'unknown kind of zero vector {kind!r}')
    return C(*z), show(cls, [repr(x) for x in z])


def cases_vec_zero_length(tier):
    cases = []
    for op, classes in ZL_OPS.items():
        if op in ('normalize', 'abs'):
            args = (0,)
        elif op == 'from_magnitude':
            args = ZL_MAGNITUDES
        elif op == 'limit':
            args = ZL_LIMITS
        else:
            args = tuple(range(len(ANGLES)))        # indices into ANGLES
        for cls in classes:
            for kind in ZERO_KINDS:
                for arg in args:
                    cases.append((cls, op, kind, arg))
    return cases


def run_vec_zero_length(case):
    cls, op, kind, arg = case
    if op not in ZL_OPS or cls not in ZL_OPS[op]:
        raise HarnessError(f'unknown vec_zero_length case {case!r}')
    clause = 'vec_zero_length'
    feats = dict(cls=cls, op=op)
    n = DIM[cls]
    vec, label = zero_vector(cls, kind)
    if not same(vec, [0] * n):
        raise Violation(clause, f'{label} -> {vec!r}, expected the zero '
                        'vector', kind='construction', **feats)
    hits = [f'zero_length_{op}', f'zero_written_as_{kind}']

    def must_be_zero(what, r, why):
        if not same(r, [0] * n):
            raise Violation(clause, f'{what} -> {r!r}: {why}',
                            kind='zero_changed', **feats)

    if op == 'normalize':
        what = f'{label}.normalize()'
        r = call(clause, feats, what, vec.normalize)
        must_be_zero(what, r, 'zero must stay zero')
    elif op == 'abs':
        what = f'abs({label})'
        r = call(clause, feats, what, abs, vec)
        if vals_of(r) is not None or r != 0:
            raise Violation(clause, f'{what} -> {r!r}, expected 0',
                            kind='value', **feats)
    elif op == 'limit':
        m = dec(arg)
        what = f'{label}.limit({m!r})'
        r = call(clause, feats, what, vec.limit, m)
        must_be_zero(what, r, 'a short enough vector must stay unchanged')
    elif op in ('from_heading', 'rotate'):
        ang = ANGLES[arg]
        what = f'{label}.{op}({ang})'
        r = call(clause, feats, what, getattr(vec, op), ang)
        must_be_zero(what, r, 'only the heading may change, the magnitude '
                     'must stay 0')
    else:
        m = dec(arg)
        what = f'{label}.from_magnitude({m!r})'
        r = call(clause, feats, what, vec.from_magnitude, m)
        t = vals_of(r)
        try:
            ok = t is not None and len(t) == n
            length2 = sum(F(x) ** 2 for x in t) if ok else None
        except (TypeError, ValueError, OverflowError):      # nan, inf, str
            ok = False
        if not ok:
            raise Violation(clause, f'{what} -> {r!r}, not a {cls} of finite '
                            'numbers', kind='not_a_vector', **feats)
        m2 = F(m) ** 2
        if length2 == 0:
            hits.append('info_zero_from_magnitude_stays_zero')
        elif abs(length2 - m2) <= 4 * F(TOL) * m2:
            hits.append('info_zero_from_magnitude_has_length_m')
        else:
            raise Violation(
                clause, f'{what} -> {r!r}: neither the zero vector (nothing '
                f'to scale) nor a vector of magnitude {m!r}',
                kind='neither_zero_nor_magnitude_m', **feats)
        if m == 0:
            hits.append('zero_length_from_magnitude_zero')
    return info(1, hits, case)


# ---------------------------------------------------------------------------
PARTS = {
    # first: with one worker the runners are called in the parent itself,
    # which must not have looked up a vector attribute before it forks
    'swizzle_history': (cases_swizzle_history, run_swizzle_history),
    'vec_arith': (cases_vec_arith, run_vec_arith),
    'vec_cross': (cases_vec_cross, run_vec_cross),
    'vec_lerp': (cases_vec_lerp, run_vec_lerp),
    'vec_distance': (cases_vec_distance, run_vec_distance),
    'clamp': (cases_clamp, run_clamp),
    'vec_limit': (cases_vec_limit, run_vec_limit),
    'swizzle': (cases_swizzle, run_swizzle),
    'vec_subclass': (cases_vec_subclass, run_vec_subclass),
    'mat_linear': (cases_mat_linear, run_mat_linear),
    'mat_product': (cases_mat_product, run_mat_product),
    'mat_laws': (cases_mat_laws, run_mat_laws),
    'mat4_constructors': (cases_mat4_constructors, run_mat4_constructors),
    'mat4_inverse': (cases_mat4_inverse, run_mat4_inverse),
    'mat4_inverse_mixed_numbers': (cases_mat4_inverse_mixed,
                                   run_mat4_inverse_mixed),
    'mat4_inverse_scaled': (cases_mat4_inverse_scaled,
                            run_mat4_inverse_scaled),
    'mat4_inverse_full_grid': (cases_mat4_inverse_full,
                               run_mat4_inverse_full),
    'vec_float': (cases_vec_float, run_vec_float),
    'vec_zero_length': (cases_vec_zero_length, run_vec_zero_length),
}
THOROUGH_ONLY = ('mat4_inverse_full_grid',)


def run(tier, rep):
    self_test()
    rep.rule = RULE
    rep.assumptions += ASSUMPTIONS
    rep.require_hits(
        singular_matrix=1, nonsingular_matrix=1, determinant_not_unit=1,
        tiny_determinant=1, huge_determinant=1,
        singular_with_large_entries=1, singular_with_tiny_entries=1,
        float_inverse_checked=1, determinant_below_1e_9=1,
        determinant_below_1e_12=1,
        limit_truncates=1, limit_keeps=1, limit_on_boundary=1,
        zero_vector_normalize=1, normalize_unit=1,
        swizzle_repeat_letter=1, swizzle_permutation=1,
        swizzle_foreign_letter=1, swizzle_too_long=1, swizzle_widens=1,
        clamp_below=1, clamp_above=1, clamp_inside=1,
        basis_pair=1, dense_guard=1, basis_triple_nonzero=1,
        default_is_identity=1, transpose_moves_entry=1,
        ortho_box_corners_to_unit_cube=1, exact_fraction_division=1,
        lerp_alpha1_is_other=1, cross_nonzero=1,
        own_process_per_case=1,
        failing_lookup_first_then_legal_on_bigger_vector=1,
        failing_lookup_first_then_failing=1,
        legal_lookup_first_then_legal=1, same_lookup_repeated=1,
        legal_lookup_first_then_failing_on_smaller_vector=1,
        first_probe_attr=1, first_probe_hasattr=1, first_probe_default=1,
        sweep_after_failing_first=1, sweep_after_succeeding_first=1,
        sweep_after_none_first=1, sweep_classes_ascending=1,
        sweep_classes_descending=1,
        lerp_inside=1, lerp_extrapolates_below=1, lerp_extrapolates_above=1,
        lerp_extrapolation_differs_from_end_points=1,
        zero_length_normalize=1, zero_length_abs=1,
        zero_length_from_magnitude=1, zero_length_from_magnitude_zero=1,
        zero_length_limit=1, zero_length_from_heading=1,
        zero_length_rotate=1, zero_written_as_int=1,
        zero_written_as_float=1, zero_written_as_negative_float=1,
        zero_written_as_fraction=1, zero_written_as_mixed=1,
        zero_written_as_difference=1,
        distance_perfect_square=1, distance_irrational=1,
        rotate=1, from_heading=1, from_magnitude=1, polar=1,
        vec_subclass_operand=1, vec_subclass_mixed_with_plain=1,
        vec_subclass_same_exception=1,
        matvec_subclass_vector=1, vec_law_subclass_vector=1,
        identity_subclass_vector=1, constructor_on_subclass_point=1,
        singular_inverted_again=1, mixed_float_first=1,
        mixed_fraction_first=1, mixed_float_first_inexact_in_floats=1,
        mixed_fraction_first_inexact_in_floats=1, mixed_singular_pair=1)
    inputs = {}
    for name, (make_cases, runner) in PARTS.items():
        if name in THOROUGH_ONLY and tier != 'thorough':
            continue
        cases = make_cases(tier)
        tasks_wanted = env.WORKERS * 8
        chunk = max(1, min(200, len(cases) // tasks_wanted))
        stats = kernel.enumerate_cases(
            runner, cases, rep, part=name, chunk=chunk,
            params={'tier': tier, 'cases': len(cases)})
        inputs[name] = stats['calls']
    rep.extra['implementation_calls_per_part'] = inputs
    rep.extra['tolerance_only_parts'] = ['vec_float']


def replay(rec):
    part = rec['part']
    if part not in PARTS:
        raise SystemExit(f'unknown part {part}')
    case = kernel.totuple(rec['case'])
    try:
        PARTS[part][1](case)
    except Violation as v:
        return v
    return None
