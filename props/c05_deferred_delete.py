"""C05 - deferred entity deletion is applied at the next process, safely."""
from mc import kernel
from props.worldlib import WorldDriver

RULE = ('E1 breadth-first search on the real World: deferred deletion mixed '
        'with every other World operation on the same / another entity and '
        'any number of process() calls, a recording processor and a processor '
        'that calls delete_entity from inside its frame, one handler '
        'component class for the ordering clause; table model with a pending '
        'set; both policies for a pending mark whose row vanished.  '
        'Non-trivial = reached through a process with pending deletions, a '
        'second delete, a pending row vanishing, id reuse, deletion requested '
        'from inside a frame, a deferred delete of a never-existing id.')


def drivers(tier):
    d = {}
    common = dict(own='QP', processors=True, bogus_delete=True)
    if tier == 'quick':
        d['deferred-fixpoint'] = (WorldDriver(
            'deferred-fixpoint', types=('A', 'HD'), ids=(1, 2),
            explicit_ids=(1,), max_autos=1,
            shapes=((), ('A',), ('HD',), ('A', 'HD')), **common),
            dict(max_states=400000, time_budget=400))
        # one entity, order-preserving key: what an on_remove callback
        # sees depends on the order in which the components are walked
        d['ordered-components'] = (WorldDriver(
            'ordered-components', types=('A', 'HD'), ids=(1,),
            explicit_ids=(1,), max_autos=1, coarse=False,
            shapes=((), ('A',), ('HD',), ('A', 'HD'), ('HD', 'A')),
            **common),
            dict(max_states=400000, time_budget=400))
        d['callback-recreates'] = (WorldDriver(
            'callback-recreates', types=('A', 'HKR'), ids=(1, 2),
            explicit_ids=(1,), max_autos=1,
            shapes=((), ('A',), ('HKR',), ('A', 'HKR')), **common),
            dict(max_states=400000, time_budget=400))
        # an on_remove callback that raises (once) while the deferred
        # deletion is applied: the frame fails, later frames must not
        d['raising-callback'] = (WorldDriver(
            'raising-callback', types=('A', 'HR'), ids=(1, 2),
            explicit_ids=(1,), max_autos=1,
            shapes=((), ('A',), ('HR',), ('A', 'HR'), ('HR', 'A')),
            **common),
            dict(max_states=400000, time_budget=400))
        # an on_remove that deletes the other entity at once - which may
        # own a component of the same class
        d['callback-deletes-other'] = (WorldDriver(
            'callback-deletes-other', types=('A', 'HK'), ids=(1, 2),
            explicit_ids=(1, 2), max_autos=0,
            shapes=((), ('A',), ('HK',), ('A', 'HK')), **common),
            dict(max_states=400000, time_budget=400))
        # identifiers of unrelated (not mutually orderable) types
        d['mixed-ids'] = (WorldDriver(
            'mixed-ids', types=('A',), ids=(1, 's', (2, 3)),
            explicit_ids=('s', (2, 3)), max_autos=1,
            shapes=((), ('A',)), **common),
            dict(max_states=400000, time_budget=400))
    else:
        d['callback-deletes-other'] = (WorldDriver(
            'callback-deletes-other', types=('A', 'X', 'HK'), ids=(1, 2),
            explicit_ids=(1, 2), max_autos=1,
            shapes=((), ('A',), ('HK',), ('A', 'HK'), ('X', 'HK')),
            **common),
            dict(max_states=1500000, time_budget=1500))
        d['raising-callback'] = (WorldDriver(
            'raising-callback', types=('A', 'B', 'HR'), ids=(1, 2),
            explicit_ids=(1, 2), max_autos=1,
            shapes=((), ('A',), ('HR',), ('A', 'HR'), ('HR', 'A'),
                    ('B', 'HR')), **common),
            dict(max_states=1500000, time_budget=1500))
        d['mixed-ids'] = (WorldDriver(
            'mixed-ids', types=('A', 'HD'), ids=(1, 's', (2, 3)),
            explicit_ids=('s', (2, 3)), max_autos=1,
            shapes=((), ('A',), ('HD',)), **common),
            dict(max_states=1500000, time_budget=1500))
        d['deferred-fixpoint'] = (WorldDriver(
            'deferred-fixpoint', types=('A', 'B', 'H'), ids=(1, 2),
            explicit_ids=(1, 2), max_autos=2,
            shapes=((), ('A',), ('H',), ('B', 'H')), **common),
            dict(max_states=1500000, time_budget=3000))
        d['three-entities'] = (WorldDriver(
            'three-entities', types=('A', 'HD'), ids=(1, 2, 3),
            explicit_ids=(1,), max_autos=1,
            shapes=((), ('A',), ('A', 'HD')), **common),
            dict(max_states=1500000, time_budget=3000))
    return d


def run(tier, rep):
    rep.rule = RULE
    rep.assumptions += [
        'a deferred delete of an id that never existed may make the next '
        'process() raise KeyError once (pinned by the suite); explored in '
        'isolation (no other pending deletion at the same time)',
        'a pending mark whose entity row disappeared before the frame '
        'boundary may be kept or dropped (decided by observation, once)',
        'part raising-callback: an on_remove callback raises once (the '
        'exception type derives from the look-up errors a library catches '
        'for its own control flow); the operation it interrupts may leave '
        'anything behind (branch closed there), but of the next three '
        'process() calls at least one completes',
    ]
    rep.require_hits(process_with_pending=1, delete_twice=1,
                     pending_row_vanished=1, delete_from_inside_frame=1,
                     delete_from_on_remove=1,
                     frame_failed_by_raising_callback=1,
                     callback_deletes_other_entity=1,
                     bogus_delete_keyerror=0)
    for name, (driver, kw) in drivers(tier).items():
        kernel.explore(driver, rep, part=name, params=driver.params(), **kw)


def replay(rec):
    for tier in ('thorough', 'quick'):
        ds = drivers(tier)
        if rec['part'] in ds:
            return kernel.replay_case(ds[rec['part']][0], rec['case'])
    raise SystemExit(f'unknown part {rec["part"]}')
