"""C17 - get_static_map() is a faithful, immutable mirror of a ResourceMap.

E3 (DESIGN.md 2.3 / 3, C17): every member of an explicitly described finite
family of resource trees is built on the real ``ResourceMap``, snapshotted
with the real ``get_static_map()`` and compared, path by path, with the
tree description it was built from and with the source map itself.

Case encoding (a JSON string, so that millions of cases stay small)::

    case    := style '|' entries          style: I (populator style layering:
    entries := '' | entry (',' entry)*             older handles first, then
    entry   := name ':' kind                       handles.maps.insert(0, {}))
             | name ':m(' entries ')'              A (handles.maps.append({..}))
    kind    := h  handle in the top layer only
               s  handle in the top layer shadowing an older handle of the
                  same name in a second ChainMap layer
               u  handle that only exists in the second (lower) layer

Two-phase cases (parts ``resnapshot-after-edit*``) append one edit::

    case    := style '|' entries '>>' path ';' verb [';' name]
    path    := '' (the root) | name ('/' name)*   the map that is edited,
                                                  reached by chained get()
    verb    := add (new handle under ``name``) | replace (new handle over the
               handle ``name``) | addmap (empty ResourceMap under ``name``)
               | clear
               | deepen (``map[name + '/a'] = handle`` where ``name`` is a
                 handle: the composite assignment turns it into a sub-map)
               | mapover (empty ResourceMap assigned over the handle ``name``)

The root snapshot is taken, the edit is applied to the map itself (not through
the root), a NEW root snapshot is taken and compared in full with the map as
it is now.  Then every access path of the tree as it was (and every absent
name) is read from the OLD snapshot: nobody set or deleted anything on it, so
each answer must be either the answer of a faithful snapshot of the tree as
it was before the edit (a frozen snapshot; that a fresh snapshot answers so
is what the one-phase parts check on the same trees) or what the map answers
now for that path (a live mirror) - the statement does not say which,
anything else (a raw Handle where a loaded resource was and is expected ...)
is a violation (``old_snapshot_is_frozen_or_live``).

The NEW snapshot is also walked map-driven (``MapMirror``): the names are
those the source map lists itself and the expected answers are what the map
answers now, without the tree description.  When the edit leaves the map in a
state the description cannot express (``source_divergence``: e.g. a name that
is a handle in a lower layer AND a sub-map) that walk - with every absent
alphabet / foreign name - is the whole oracle of the case: the statement's
yardstick is the map itself.

Reload cases (parts ``reload-after-handle-clear*``)::

    case    := style '|' entries '~~reload'        (a tree with a handle)

The snapshot is taken and read in full (every path by [] / getattr / get),
then rounds of ``Handle.clear()`` follow - every visible handle, then (with
several handles) each one alone, each round once with the snapshot and once
with the map reading first afterwards - and after each round every path is
compared again: the map loads a new object and the snapshot has to yield
that very object (phase ``after_handle_clear``).

Flavour cases (part ``handle-and-map-flavours``)::

    case    := 'I|' entries '^^' handles ';' maps  (a tree with a handle)
    handles := plain | view | own | falsy | sized   (class of every handle)
    maps    := base | dot                           (class of every map)

The handles of the other parts are the plainest ``Handle`` subclass (only
``load`` is overridden) and the maps are ``ResourceMap`` itself.  Here the
same trees are built from user-style subclasses that only use the public,
documented extension points: a handle that overrides ``__call__`` and
post-processes what ``Handle`` caches (``view``), one that keeps its own
store and overrides ``__call__`` / ``clear`` / ``cached`` (``own``), one
whose truth value is False (``falsy``: ``__bool__``), one with a length - 0
while nothing is loaded (``sized``: ``__len__``) - and a ``ResourceMap``
subclass whose ``split_char`` is ``'.'`` (``dot``; its alphabet has a name
containing ``'/'``).  Sequence: snapshot; every path by chained ``get`` on
both sides while nothing is loaded; the full comparison (map reads first);
the full comparison again (snapshot reads first: second read of everything);
``get`` again; then the rounds of ``Handle.clear()`` of the reload parts,
with a ``get`` walk right after each clear.  Wherever the tree description
is cross-checked (phase ``fresh`` of every part) the composite path
``split_char.join(names)`` is read from the root map by ``[]`` and ``get``
and must be what the snapshot yields step by step (``composite_path``).
"""
import keyword
import re

from mc import env  # noqa: F401  (binds desper to the tree under test)
from mc import kernel
from mc.report import Violation, HarnessError

import desper

NAMES = ('a', 'b', 'x y', '1a', 'class', '__p', '__q__')
HANDLE_KINDS = ('h', 's', 'u')
# names asked for although no tree contains them
FOREIGN = ('zz', 'z z', '_StaticSubmap__p')
RESERVED = ('get', '_handle_names')     # excluded by the statement

# flavour family (user-style Handle / ResourceMap subclasses): trees with at
# least one handle within these bounds; the alphabet depends on the map class
FLAV_NAMES = {'base': ('a', 'b', 'x y', '__p'),
              'dot': ('a', 'x y', '__p', 'x/y')}
FLAV_BOUNDS = {'quick': (3, 3), 'thorough': (3, 4)}   # per map, in total
FLAV_SEP = '^^'
# (handles, maps); (plain, base) is what all the other parts run
FLAVOURS = (('view', 'base'), ('own', 'base'), ('falsy', 'base'),
            ('sized', 'base'), ('plain', 'dot'), ('view', 'dot'))

RULE = ('E3: every resource tree of depth <= 3 over the names '
        f'{list(NAMES)} (distinct among siblings; a node is a handle in the '
        'top layer, a handle shadowing an older one in a second ChainMap '
        'layer, a handle living only in the second layer, or a sub-map) '
        'within the stated nodes-per-map and total-node bounds (part '
        'parameter family_is_union_of: one box in the quick tier; in the '
        'thorough tier the large box over the six names without "__q__" '
        'united with every tree over all seven names of the smaller box), '
        'built on the '
        'real ResourceMap with populator style layering; a second part '
        'repeats the smaller trees with handles.maps.append layering.  For '
        'each tree: get_static_map(), then every path by chained [] , by '
        'chained getattr where all names are identifiers and by chained '
        'get(); every absent alphabet / foreign name on every node; '
        'setattr/delattr of every existing name, absent names and '
        '_handle_names on every node; then the full comparison again.  A '
        'case is distinct by its tree description; non-trivial = it '
        'exercised at least one named shortcut (non-identifier / keyword / '
        'dunder name, layered handle, nested map, mutation attempt ...).  '
        'Two-phase parts "resnapshot-after-edit*": for every tree of a '
        'smaller family (bounds in the part parameters) x every map of the '
        'tree (the root and each sub-map, reached by chained get()) x every '
        'edit of the menu {add a handle under a new name (the first absent '
        'slot-able name and the first absent name that is not slot-able), '
        'replace each visible handle by a new one, add an empty sub-map '
        'under the same new names, clear(), for each visible handle x: '
        'map[x + "/a"] = handle (the composite assignment turns the handle '
        'into a sub-map) and map[x] = ResourceMap() (a map over a handle '
        'name)} applied to that map object itself: get_static_map() on the '
        'root, the one edit, get_static_map() on the root again, then the '
        'full comparison of the NEW snapshot (every path by [] / getattr / '
        'get, every absent name) against the map as it is now, then every '
        'path and every absent alphabet name of the tree before the edit '
        'read by [] / getattr / get from the OLD snapshot: each answer is '
        'the answer a faithful snapshot of the tree before the edit gives '
        'or the answer of the map now.  The NEW snapshot is in addition '
        'walked map-driven: every name the source map lists in any handles '
        'layer or in maps, expected answer = what the map answers now to '
        '[name] / get(name), descending where the map yields a sub-map; if '
        'the map after the edit is not the tree the edit should have made '
        '(a name both handle and sub-map ...) this walk, extended by every '
        'absent alphabet / foreign name, is the oracle of that case.  A '
        'two-phase case is distinct by (tree, edited map, edit).  Parts '
        '"reload-after-handle-clear*": every tree with at least one handle '
        'of a smaller family (bounds in the part parameters), both layering '
        'styles: get_static_map(), every path read by [] / getattr / get, '
        'then rounds of Handle.clear() - every visible handle at once, '
        'then, when there are several, each one alone - each round in the '
        'two orders (snapshot reads a name first, map reads it first) and '
        'after each round every path of the tree is compared again by [] / '
        'getattr / get with what the map yields now (a newly loaded '
        'object).  A reload case is distinct by its tree.  In every part, '
        'wherever the freshly built / freshly edited map is cross-checked, '
        'each path is also read from the root map in one composite key '
        '(names joined by its split_char) by [] and by get and compared '
        'with what the snapshot yields step by step.  Part '
        '"handle-and-map-flavours": every tree with at least one handle of '
        'depth <= 3 over the alphabet of its map class (part parameter '
        'alphabets; bounds in the part parameters), populator style '
        f'layering, x every pair of {[list(f) for f in FLAVOURS]} = (class '
        'of all handles, class of all maps): handles overriding __call__ '
        '(view: post-processed result; own: own store, clear and cached '
        'overridden too), falsy handles (__bool__; __len__ that is 0 while '
        'nothing is loaded), a ResourceMap subclass with split_char "." '
        'whose alphabet has a name containing "/".  Sequence per case: '
        'get_static_map(); every path by chained get() on both sides (and '
        'the composite key) with nothing loaded; full comparison with the '
        'map reading first (absent names included); full comparison again '
        'with the snapshot reading first; the get walk again; the rounds '
        'of Handle.clear() of the reload parts with the get walk after '
        'each clear.  A flavour case is distinct by (tree, flavour pair).')

# A family is the union of one or more (alphabet, nodes per map, nodes in
# total) boxes; a later box only contributes the trees that use a name the
# earlier boxes do not have (its bounds lie inside theirs).  The thorough
# tier keeps the large boxes on the six names without '__q__' and adds every
# tree with '__q__' of up to 4 nodes.
NAMES6 = NAMES[:6]
BOUNDS = {
    # tier: (main part, append-style part)
    'quick': ([(NAMES, 3, 4)], [(NAMES, 3, 3)]),
    'thorough': ([(NAMES6, 4, 5), (NAMES, 4, 4)], [(NAMES, 3, 4)]),
}
# two-phase family (snapshot, one edit, new snapshot): bounds of the tree
# BEFORE the edit; None = part not run in that tier
EDIT_BOUNDS = {
    'quick': ([(NAMES, 3, 3)], None),
    'thorough': ([(NAMES6, 3, 4), (NAMES, 3, 3)], [(NAMES, 3, 3)]),
}
# reload family (snapshot read, Handle.clear(), both read again): trees with
# at least one handle within these bounds
RELOAD_BOUNDS = {
    'quick': ([(NAMES, 3, 3)], [(NAMES, 3, 3)]),
    'thorough': ([(NAMES6, 3, 4), (NAMES, 3, 3)], [(NAMES, 3, 3)]),
}
EDIT_SEP = '>>'
EDIT_VERBS = ('add', 'replace', 'addmap', 'clear', 'deepen', 'mapover')
DEEPEN_CHILD = 'a'        # map[name + '/a'] = handle
DEPTH = 3


def name_class(name):
    if name.startswith('__'):
        # '__q__' is what the directory populator makes of '__main__.py':
        # stored like '__p' but looking like a special attribute
        if name.endswith('__') and len(name) > 4:
            return 'dunder_both_ends'
        return 'dunder'
    if not name.isidentifier():
        return 'non_identifier'
    if keyword.iskeyword(name):
        return 'keyword'
    return 'identifier'


# -- the family -----------------------------------------------------------
def gen_maps(depth, budget, per_map, names=NAMES):
    """Yield (text, nodes) for every map within the bounds."""

    def rec(i, here, budget):
        if i == len(names) or here == per_map or budget == 0:
            yield (), 0
            return
        yield from rec(i + 1, here, budget)
        n = names[i]
        for k in HANDLE_KINDS:
            for rest, u in rec(i + 1, here + 1, budget - 1):
                yield (f'{n}:{k}',) + rest, u + 1
        if depth > 1:
            for sub, us in gen_maps(depth - 1, budget - 1, per_map, names):
                for rest, u in rec(i + 1, here + 1, budget - 1 - us):
                    yield (f'{n}:m({sub})',) + rest, u + 1 + us

    for entries, used in rec(0, 0, budget):
        yield ','.join(entries), used


def family(boxes, style):
    """All cases of the union of the boxes, smallest trees first (first
    violation = minimal tree)."""
    buckets = [[] for _ in range(max(b[2] for b in boxes) + 1)]
    earlier = []
    for names, per_map, total in boxes:
        fresh = [n for n in names if n not in earlier]
        if earlier:
            # "already listed" must be the same as "uses no fresh name"
            if not fresh or per_map > boxes[0][1] or total > boxes[0][2] \
                    or any(m != n and m.endswith(n)
                           for n in fresh for m in NAMES):
                raise HarnessError(f'boxes {boxes!r} are not nested')
            marks = [re.compile('(^|[,(])' + re.escape(n) + ':')
                     for n in fresh]
        for text, used in gen_maps(DEPTH, total, per_map, names):
            if style == 'A' and not any(f':{k}' in text for k in 'su'):
                continue            # no layer: identical to the I case
            if earlier and not any(m.search(text) for m in marks):
                continue            # listed by an earlier box
            buckets[used].append(f'{style}|{text}')
        earlier += fresh
    return [c for b in buckets for c in b]


def boxes_text(boxes):
    return [dict(names=list(n), nodes_per_map=pm, nodes_total=tot)
            for n, pm, tot in boxes]


def parse(case):
    style, _, text = case.partition('|')
    pos = 0

    def entries():
        nonlocal pos
        out = []
        while pos < len(text) and text[pos] != ')':
            if text[pos] == ',':
                pos += 1
            j = text.index(':', pos)
            name = text[pos:j]
            pos = j + 1
            kind = text[pos]
            pos += 1
            if kind == 'm':
                assert text[pos] == '('
                pos += 1
                sub = entries()
                assert text[pos] == ')'
                pos += 1
                out.append((name, 'm', sub))
            else:
                out.append((name, kind, None))
        return out

    tree = entries()
    if pos != len(text) or style not in ('I', 'A'):
        raise HarnessError(f'cannot parse case {case!r}')
    return style, tree


# -- harness objects ------------------------------------------------------
class Res:
    """A loaded resource (fresh object per load: identity is meaningful)."""

    def __init__(self, label, serial=1):
        self.label = label
        self.serial = serial    # which load() of its handle made it

    def __repr__(self):
        return f'<Res {self.label} load#{self.serial}>'


class THandle(desper.Handle):
    loads = 0

    def __init__(self, label):
        self.label = label

    def load(self):
        self.loads += 1
        return Res(self.label, self.loads)

    def __repr__(self):
        return f'<THandle {self.label}>'


class ViewHandle(THandle):
    """Overrides the public entry point ``__call__``: hands out a
    post-processed view of what Handle's own caching holds (one view per
    loaded object, so that identity stays meaningful)."""
    _view_of = None
    _view = None

    def __call__(self):
        raw = super().__call__()
        if self._view is None or self._view_of is not raw:
            self._view_of = raw
            self._view = Res(self.label + '#view', raw.serial)
        return self._view


class OwnCacheHandle(THandle):
    """Keeps the loaded object in a store of its own: ``__call__``,
    ``clear`` and ``cached`` are overridden, Handle's cache is never used."""
    _own = None

    def __call__(self):
        if self._own is None:
            self._own = self.load()
        return self._own

    def clear(self):
        self._own = None

    @property
    def cached(self):
        return self._own is not None


class FalsyHandle(THandle):
    """A handle whose truth value is False (``__bool__``)."""

    def __bool__(self):
        return False


class SizedHandle(THandle):
    """A sized handle: 0 while nothing is loaded (falsy), 2 afterwards."""

    def __len__(self):
        return 2 if self.cached else 0


class DotMap(desper.ResourceMap):
    """A ResourceMap subclass with its own delimiter (names may then
    contain '/')."""
    split_char = '.'


HANDLE_FLAVOURS = {'plain': THandle, 'view': ViewHandle,
                   'own': OwnCacheHandle, 'falsy': FalsyHandle,
                   'sized': SizedHandle}
MAP_FLAVOURS = {'base': desper.ResourceMap, 'dot': DotMap}


class Raised:
    """What the source map answered when it raised."""

    def __init__(self, exc):
        self.text = f'{type(exc).__name__}: {exc}'

    def __repr__(self):
        return f'<raised {self.text}>'


def map_item(m, key):
    try:
        return m[key]
    except Exception as exc:
        return Raised(exc)


def map_get(m, key):
    try:
        return m.get(key)
    except Exception as exc:
        return Raised(exc)


class Node:
    """Reference description of one map of the tree."""

    def __init__(self, path):
        self.path = path
        self.entries = {}       # name -> ('h', handle, kind) | ('m', Node)
        self.real = None        # the ResourceMap built for it


def build(tree, style, path=(), handle_cls=THandle,
          map_cls=desper.ResourceMap):
    node = Node(path)
    m = map_cls()
    node.real = m
    label = '/'.join(path)
    lower = {}
    top = {}
    for name, kind, sub in tree:
        where = f'{label}/{name}' if label else name
        if kind in ('s', 'u'):
            lower[name] = handle_cls(where + '#lower')
        if kind in ('h', 's'):
            top[name] = handle_cls(where)
        if kind == 'm':
            node.entries[name] = ('m', build(sub, style, path + (name,),
                                             handle_cls, map_cls))
        else:
            visible = top[name] if name in top else lower[name]
            node.entries[name] = ('h', visible, kind)
    if style == 'I':
        # what the directory populator does on a key conflict
        for name, h in lower.items():
            m[name] = h
        if lower:
            m.handles.maps.insert(0, {})
        for name, h in top.items():
            m[name] = h
    else:
        for name, h in top.items():
            m[name] = h
        if lower:
            m.handles.maps.append(dict(lower))
    for name, entry in node.entries.items():
        if entry[0] == 'm':
            m[name] = entry[1].real
    return node


def all_nodes(node):
    yield node
    for entry in node.entries.values():
        if entry[0] == 'm':
            yield from all_nodes(entry[1])


# -- oracle ---------------------------------------------------------------
ABSENT_OK = (LookupError, AttributeError)
_SKIPPED = object()


_CLASS_HIT = {'identifier': 'identifier_name',
              'non_identifier': 'non_identifier_name',
              'keyword': 'keyword_name', 'dunder': 'dunder_name',
              'dunder_both_ends': 'dunder_both_ends_name'}
_PROBES = tuple((n, name_class(n), n.isidentifier())
                for n in NAMES + FOREIGN)


def describe(root):
    """Named shortcuts a tree exercises (from its description)."""
    hits = {}

    def hit(name):
        hits[name] = hits.get(name, 0) + 1

    for node in all_nodes(root):
        if len(node.path) == 2:
            hit('depth3_map')
        if not node.entries:
            hit('empty_map')
        for name, entry in node.entries.items():
            hit(_CLASS_HIT[name_class(name)])
            if entry[0] == 'm':
                hit('nested_map')
            elif entry[2] != 'h':
                hit('layered_handle')
                hit('shadowed_handle' if entry[2] == 's'
                    else 'lower_only_handle')
    return hits


class Checker:
    def __init__(self, root, snapshot, phase, level=None,
                 snapshot_first=False, absent=True, extra=None):
        self.root = root
        self.snap = snapshot
        # flavour part: the (handles, maps) flavours; they and the phase are
        # then the whole signature (one defect, few signatures)
        self.extra = extra
        self.sep = root.real.split_char
        self.composite = 0      # composite-path reads of depth >= 2
        # 'fresh' | 'after_mutation_attempts' | 'after_handle_clear' (every
        # handle of the tree was cleared after the snapshot had been read)
        # | 'after_edit' (a new snapshot taken after an edit of the map;
        # level = 'root' | 'sub': which map was edited)
        self.phase = phase
        self.level = level
        # which side reads a handle name first (= triggers the load when the
        # handle is not cached): the map (default) or the snapshot
        self.snapshot_first = snapshot_first
        # probe the names the map does not have as well
        self.absent = absent
        # the reference description is cross-checked against the source map
        # whenever the map is freshly built or freshly edited
        self.verify_source = phase in ('fresh', 'after_edit')
        self.calls = 0
        self.attr_calls = 0
        self.absent_calls = 0

    def fail(self, clause, detail, **features):
        if self.phase == 'after_edit':
            # a snapshot taken after an edit disagrees with the map: one
            # signature per clause and per kind of edited map
            features = {'phase': self.phase, 'level': self.level}
        elif self.phase != 'fresh':
            # whatever moved, moved because of a mutation attempt: one
            # signature per clause
            features = {'phase': self.phase}
        if self.extra:
            features = dict(self.extra, phase=self.phase)
        raise Violation(clause, detail, **features)

    def compare(self):
        self.visit(self.root, self.snap, self.snap, self.snap)

    @staticmethod
    def where(node):
        return '/'.join(node.path) or '<root>'

    def visit(self, node, s_item, s_attr, s_get):
        """s_item / s_attr / s_get: the sub-snapshot of ``node`` reached by
        chained [] / getattr / get (s_attr None: a name on the way is not an
        identifier)."""
        m = node.real
        entries = node.entries
        fresh = self.verify_source
        for name, entry in entries.items():
            is_handle = entry[0] == 'h'
            if is_handle:
                handle = entry[1]
                # the source map is the yardstick of the statement
                if self.snapshot_first:
                    # the snapshot triggers the load, the map comes second
                    self.calls += 1
                    try:
                        v_first = s_item[name]
                    except Exception:
                        v_first = _SKIPPED  # reported by the access below
                    src = map_item(m, name)
                    if v_first is not _SKIPPED and v_first is not src:
                        self.fail('item_access',
                                  f'snapshot[{self.where(node)}][{name!r}] '
                                  f'read before the map is {v_first!r}, the '
                                  f'map then gives {src!r}',
                                  name=name_class(name), node=entry[2])
                else:
                    # (a map that raises here is a Raised object: it fails
                    # the identity comparisons below like any other answer)
                    src = map_item(m, name)
            # -- item access
            self.calls += 1
            try:
                v_item = s_item[name]
            except Exception as exc:
                self.fail('item_access',
                          f'snapshot[{self.where(node)}][{name!r}] raised '
                          f'{type(exc).__name__}: {exc}',
                          name=name_class(name),
                          node=entry[2] if is_handle else 'm')
            if is_handle and v_item is not src:
                self.fail('item_access',
                          f'snapshot[{self.where(node)}][{name!r}] is '
                          f'{v_item!r}, map gives {src!r}',
                          name=name_class(name), node=entry[2])
            # -- attribute access
            v_attr = _SKIPPED
            if s_attr is not None and name.isidentifier():
                self.attr_calls += 1
                try:
                    v_attr = getattr(s_attr, name)
                except Exception as exc:
                    self.fail('attr_access',
                              f'getattr(snapshot[{self.where(node)}], '
                              f'{name!r}) raised {type(exc).__name__}: {exc}',
                              name=name_class(name),
                              node=entry[2] if is_handle else 'm')
                if is_handle and v_attr is not src:
                    self.fail('attr_access',
                              f'getattr(snapshot[{self.where(node)}], '
                              f'{name!r}) is {v_attr!r}, map gives {src!r}',
                              name=name_class(name), node=entry[2])
            # -- get
            self.calls += 1
            try:
                v_get = s_get.get(name)
            except Exception as exc:
                self.fail('get_access',
                          f'snapshot[{self.where(node)}].get({name!r}) '
                          f'raised {type(exc).__name__}: {exc}',
                          name=name_class(name),
                          node=entry[2] if is_handle else 'm')
            if is_handle:
                src_get = map_get(m, name)
                if v_get is not src_get:
                    self.fail('get_access',
                              f'snapshot[{self.where(node)}].get({name!r}) '
                              f'is {v_get!r}, map.get gives {src_get!r}',
                              name=name_class(name), node=entry[2])
                if fresh:
                    self.composite_path(node, name, entry, v_item, v_get)
                    if src is not handle() or src_get is not handle:
                        raise HarnessError(
                            f'ResourceMap itself disagrees with the tree '
                            f'description at {self.where(node)}/{name} '
                            f'(C11 territory)')
                continue
            for form, v in (('item_access', v_item), ('attr_access', v_attr),
                            ('get_access', v_get)):
                if v is _SKIPPED:
                    continue
                if v is None or isinstance(v, (desper.Handle, Res)):
                    self.fail(form, f'{self.where(node)}/{name} is a '
                              f'sub-map but the snapshot yields {v!r}',
                              name=name_class(name), node='m')
            if fresh:
                self.composite_path(node, name, entry, v_item, v_get)
            self.visit(entry[1], v_item,
                       None if v_attr is _SKIPPED else v_attr, v_get)

        # -- names the map does not have
        for name, ncls, ident in (_PROBES if self.absent else ()):
            if name in entries:
                continue
            if fresh and m.get(name) is not None:
                raise HarnessError(f'{name!r} unexpectedly present in map')
            self.absent_calls += 2
            try:
                got = s_item[name]
            except ABSENT_OK:
                pass
            except Exception as exc:
                self.absent_fail(node, 'item', name, ncls, exc=exc)
            else:
                self.absent_fail(node, 'item', name, ncls, got=got)
            if ident and s_attr is not None:
                self.absent_calls += 1
                try:
                    got = getattr(s_attr, name)
                except ABSENT_OK:
                    pass
                except Exception as exc:
                    self.absent_fail(node, 'attr', name, ncls, exc=exc)
                else:
                    self.absent_fail(node, 'attr', name, ncls, got=got)
            try:
                got = s_get.get(name)
            except ABSENT_OK:
                pass
            except Exception as exc:
                self.absent_fail(node, 'get', name, ncls, exc=exc)
            else:
                if got is not None:     # None mirrors ResourceMap.get
                    self.absent_fail(node, 'get', name, ncls, got=got)

    def composite_path(self, node, name, entry, v_item, v_get):
        """"For every path ... as the map itself": the whole path in one
        key (names joined by the split_char of the root map) read from the
        root map by [] and by get against what the snapshot just yielded
        step by step."""
        full = self.sep.join(node.path + (name,))
        if node.path:
            self.composite += 2
        kind = entry[2] if entry[0] == 'h' else 'm'
        for form, got, want in (('item', map_item(self.root.real, full),
                                 v_item),
                                ('get', map_get(self.root.real, full),
                                 v_get)):
            if entry[0] == 'h':
                ok = got is want
            else:
                ok = isinstance(got, desper.ResourceMap)
                if ok and entry[1].real is not None and \
                        got is not entry[1].real:
                    raise HarnessError(
                        f'ResourceMap: composite key {full!r} and single '
                        f'steps reach different sub-maps (C11 territory)')
            if not ok:
                shown = repr(want) if entry[0] == 'h' else 'a sub-snapshot'
                self.fail('composite_path',
                          f'the map answers {got!r} to the composite key '
                          f'{full!r} ({form}), step by step the snapshot '
                          f'gives {shown} there', form=form, node=kind)

    def absent_fail(self, node, form, name, ncls, exc=None, got=None):
        what = (f'raised {type(exc).__name__}: {exc}' if exc is not None
                else f'returned {got!r}')
        self.fail('absent_name_fails',
                  f'{form} access of absent {name!r} on '
                  f'snapshot[{self.where(node)}] {what}',
                  form=form, name=ncls)


def sub_snapshots(node, snap):
    """(node, sub-snapshot reached by chained item access), root first."""
    yield node, snap
    for name, entry in node.entries.items():
        if entry[0] == 'm':
            yield from sub_snapshots(entry[1], snap[name])


def mutation_attempts(root, snap, chk):
    sentinel = Res('intruder')
    chk.mutations = 0
    for node, s in sub_snapshots(root, snap):
        where = '/'.join(node.path) or '<root>'
        level = 'root' if not node.path else 'sub'
        existing = list(node.entries)
        absent = [n for n in NAMES if n not in node.entries][:2] + ['zz',
                                                                   'z z']
        targets = ([('existing', n) for n in existing]
                   + [('new', n) for n in absent]
                   + [('handle_names', '_handle_names')])
        for what, name in targets:
            for verb in ('set', 'del'):
                chk.mutations += 1
                try:
                    if verb == 'set':
                        value = frozenset() if what == 'handle_names' \
                            else sentinel
                        setattr(s, name, value)
                    else:
                        delattr(s, name)
                except Exception:
                    pass
                else:
                    raise Violation(
                        'mutation_raises',
                        f'{verb}attr(snapshot[{where}], {name!r}) did not '
                        f'raise', verb=verb, target=what, level=level,
                        name=name_class(name))


def locate_build_failure(root):
    """Smallest sub-map whose own get_static_map() fails (post-order)."""
    def post(node):
        for entry in node.entries.values():
            if entry[0] == 'm':
                yield from post(entry[1])
        yield node
    for node in post(root):
        try:
            node.real.get_static_map()
        except Exception as exc:
            return node, exc
    return None, None


def take_snapshot(root, **phase):
    try:
        return root.real.get_static_map()
    except Exception as exc:
        node, exc2 = locate_build_failure(root)
        if node is None:
            node, exc2 = root, exc
        classes = {name_class(n) for n in node.entries}
        raise Violation(
            'snapshot_builds',
            f'get_static_map() raised {type(exc2).__name__}: {exc2} '
            f'(map {"/".join(node.path) or "<root>"} with names '
            f'{list(node.entries)})',
            exc=type(exc2).__name__,
        dunder=bool(classes & {'dunder', 'dunder_both_ends'}),
            non_identifier='non_identifier' in classes, **phase)


# -- the same snapshot after Handle.clear() --------------------------------
# Handle.clear() is the public way to drop a loaded resource (desper.switch
# does it with world handles): the next access through the map loads a new
# object and the snapshot - which was read in full before - has to yield that
# very object as well, whichever of the two is read first after the clear.
RELOAD_SEP = '~~'
RELOAD_ORDERS = ('snapshot_first', 'map_first')


def reload_family(boxes, style):
    """Every tree of the family that has a handle, smallest first."""
    return [f'{case}{RELOAD_SEP}reload' for case in family(boxes, style)
            if any(f':{k}' in case for k in HANDLE_KINDS)]


def reload_schedule(n_handles):
    """(order, target) rounds: target None = every visible handle is
    cleared, i = only the i-th one (document order) while the others stay
    loaded."""
    rounds = [(order, None) for order in RELOAD_ORDERS]
    if n_handles > 1:
        rounds += [(order, i) for i in range(n_handles)
                   for order in RELOAD_ORDERS]
    return rounds


def run_reload_case(case):
    tree_case, _, tail = case.partition(RELOAD_SEP)
    if tail != 'reload':
        raise HarnessError(f'cannot parse case {case!r}')
    style, tree = parse(tree_case)
    root = build(tree, style)
    snap = take_snapshot(root)
    # the snapshot is read in full first (every path, every access form)
    warm = Checker(root, snap, 'fresh', absent=False)
    warm.compare()
    calls = 1 + warm.calls + warm.attr_calls
    handles = [entry[1] for node in all_nodes(root)
               for entry in node.entries.values() if entry[0] == 'h']
    if not handles:
        raise HarnessError(f'{case!r}: no handle to clear')
    hits = {'reload_of_layered_handle': sum(
        1 for node in all_nodes(root) for entry in node.entries.values()
        if entry[0] == 'h' and entry[2] != 'h')}
    if style == 'A':
        hits['append_style_layer'] = 1
    hits = {k: v for k, v in hits.items() if v}

    calls += reload_rounds(root, snap, handles, hits)
    return {'calls': calls, 'hits': hits, 'key': case}


def reload_rounds(root, snap, handles, hits, extra=None):
    """The rounds of reload_schedule on a snapshot that was read in full;
    with ``extra`` (flavour part) every path is also read by get() on both
    sides right after each clear, before anything is loaded again.
    -> number of snapshot reads."""
    calls = 0

    def hit(name, n=1):
        if n:
            hits[name] = hits.get(name, 0) + n

    for order, target in reload_schedule(len(handles)):
        cleared = handles if target is None else [handles[target]]
        before = []
        for h in cleared:
            # loaded by the reads before (Handle's own caching is not C17's)
            before.append(h() if h.cached else _SKIPPED)
            h.clear()       # the object map.get / snapshot.get hand out
        hit('handle_cleared_after_read',
            sum(1 for b in before if b is not _SKIPPED))
        if extra is not None:
            n, falsy = get_walk(root, snap, extra, 'after_handle_clear')
            calls += n
            hit('get_of_falsy_handle', falsy)
        chk = Checker(root, snap, 'after_handle_clear',
                      snapshot_first=order == 'snapshot_first', absent=False,
                      extra=extra)
        chk.compare()
        calls += chk.calls + chk.attr_calls
        hit('resource_reloaded_after_clear',
            sum(1 for h, b in zip(cleared, before)
                if b is not _SKIPPED and h.cached and h() is not b))
        hit('reload_' + order)
        hit('reload_clears_every_handle' if target is None
            else 'reload_clears_one_handle_of_several')
    return calls


# -- user-style Handle / ResourceMap subclasses ----------------------------
def flavour_family(tier):
    """Every tree with a handle of the flavour box x every flavour pair,
    smallest trees first."""
    per_map, total = FLAV_BOUNDS[tier]
    out = []
    for hf, mf in FLAVOURS:
        out += [(case.count(':'), f'{case}{FLAV_SEP}{hf};{mf}')
                for case in family([(FLAV_NAMES[mf], per_map, total)], 'I')
                if any(f':{k}' in case for k in HANDLE_KINDS)]
    out.sort(key=lambda c: c[0])        # stable: flavour order within a size
    return [c for _, c in out]


def get_walk(root, snap, features, state):
    """Every path by chained get() on the snapshot against get() of the map
    (one step, and the composite key on the root map); nothing is loaded by
    this.  -> (snapshot reads, reads of a handle that is falsy just then)."""
    static = desper.StaticResourceMap
    sep = root.real.split_char
    reads = falsy = 0

    def fail(detail):
        raise Violation('get_access', f'({state}) {detail}', **features,
                        phase='get_' + state)

    def visit(node, s):
        nonlocal reads, falsy
        where = '/'.join(node.path) or '<root>'
        for name, entry in node.entries.items():
            want = map_get(node.real, name)
            full = sep.join(node.path + (name,))
            comp = map_get(root.real, full)
            reads += 1
            try:
                got = s.get(name)
            except Exception as exc:
                fail(f'snapshot[{where}].get({name!r}) raised '
                     f'{type(exc).__name__}: {exc}; map.get gives {want!r}')
            if entry[0] == 'h':
                if not entry[1]:
                    falsy += 1
                if got is not want or got is not comp:
                    fail(f'snapshot[{where}].get({name!r}) is {got!r}, '
                         f'map.get gives {want!r} there and {comp!r} for the '
                         f'composite key {full!r}')
                if want is not entry[1]:
                    raise HarnessError(
                        f'ResourceMap.get disagrees with the tree '
                        f'description at {where}/{name} (C11 territory)')
                continue
            if not isinstance(got, static) or \
                    not isinstance(want, desper.ResourceMap) or \
                    not isinstance(comp, desper.ResourceMap):
                fail(f'{where}/{name} is a sub-map: snapshot.get gives '
                     f'{got!r}, map.get {want!r}, composite key {full!r} '
                     f'{comp!r}')
            if want is not entry[1].real or comp is not want:
                raise HarnessError(
                    f'ResourceMap.get disagrees with the tree description '
                    f'at {where}/{name} (C11 territory)')
            visit(entry[1], got)

    visit(root, snap)
    return reads, falsy


def run_flavour_case(case):
    tree_case, _, tail = case.partition(FLAV_SEP)
    hf, _, mf = tail.partition(';')
    if hf not in HANDLE_FLAVOURS or mf not in MAP_FLAVOURS:
        raise HarnessError(f'cannot parse case {case!r}')
    style, tree = parse(tree_case)
    root = build(tree, style, handle_cls=HANDLE_FLAVOURS[hf],
                 map_cls=MAP_FLAVOURS[mf])
    extra = dict(handles=hf, maps=mf)
    snap = take_snapshot(root, **extra)
    handles = [entry[1] for node in all_nodes(root)
               for entry in node.entries.values() if entry[0] == 'h']
    if not handles:
        raise HarnessError(f'{case!r}: no handle')
    hits = {'handle_flavour_' + hf: 1, 'map_flavour_' + mf: 1}

    def hit(name, n=1):
        if n:
            hits[name] = hits.get(name, 0) + n

    # nothing is loaded yet
    n, falsy = get_walk(root, snap, extra, 'unloaded')
    calls = 1 + n
    hit('get_of_falsy_handle', falsy)
    hit('get_of_unloaded_sized_handle', falsy if hf == 'sized' else 0)
    # the map reads (= loads) first, the snapshot after it
    first = Checker(root, snap, 'fresh', extra=extra)
    first.compare()
    # everything is loaded: second read of the snapshot, it reads first
    second = Checker(root, snap, 'second_read', snapshot_first=True,
                     absent=False, extra=extra)
    second.compare()
    calls += (first.calls + first.attr_calls + first.absent_calls
              + second.calls + second.attr_calls)
    hit('absent_name', first.absent_calls)
    hit('composite_path', first.composite)
    if mf != 'base':
        hit('composite_path_custom_delimiter', first.composite)
        hit('name_with_base_delimiter', sum(
            1 for node in all_nodes(root) for name in node.entries
            if desper.ResourceMap.split_char in name))
    if hf == 'view':
        # what __call__ hands out is not what load() made
        hit('overridden_call_differs_from_loaded', sum(
            1 for h in handles if h.cached and h() is not h._view_of))
    if hf == 'own':
        hit('handle_with_own_store_loaded', sum(
            1 for h in handles if h.cached))
    n, falsy = get_walk(root, snap, extra, 'loaded')
    calls += n
    hit('get_of_falsy_handle', falsy)
    hit('get_of_loaded_sized_handle', sum(
        1 for h in handles if hf == 'sized' and h.cached and h))
    calls += reload_rounds(root, snap, handles, hits, extra=extra)
    return {'calls': calls, 'hits': hits, 'key': case}


def run_case(case):
    if FLAV_SEP in case:
        return run_flavour_case(case)
    if EDIT_SEP in case:
        return run_edit_case(case)
    if RELOAD_SEP in case:
        return run_reload_case(case)
    style, tree = parse(case)
    root = build(tree, style)
    snap = take_snapshot(root)
    chk = Checker(root, snap, 'fresh')
    chk.compare()
    mutation_attempts(root, snap, chk)
    again = Checker(root, snap, 'after_mutation_attempts')
    again.compare()
    hits = describe(root)
    hits['mutation_attempt'] = chk.mutations
    hits['absent_name'] = chk.absent_calls
    if chk.composite:
        hits['composite_path'] = chk.composite
    if chk.attr_calls:
        hits['attr_walk'] = chk.attr_calls
    if style == 'A':
        hits['append_style_layer'] = 1
    calls = (chk.calls + chk.attr_calls + chk.absent_calls + chk.mutations
             + again.calls + again.attr_calls + again.absent_calls + 1)
    # information only (not demanded by the statement, see run()):
    for node, s in sub_snapshots(root, snap):
        try:
            d = getattr(s, '__dict__')
        except AttributeError:
            continue
        if isinstance(d, dict):
            hits['info_snapshot_has_plain_writable___dict__'] = hits.get(
                'info_snapshot_has_plain_writable___dict__', 0) + 1
    return {'calls': calls, 'hits': hits, 'key': case}


# -- two-phase family: snapshot, one edit of a map of the tree, new snapshot --
def slotable(name):
    """Names the implementation can keep in __slots__ (the others need the
    instance dictionary): both kinds are used as new names."""
    return name.isidentifier() and not name.startswith('__')


def new_names(present):
    absent = [n for n in NAMES if n not in present]
    picks = [next((n for n in absent if slotable(n)), None),
             next((n for n in absent if not slotable(n)), None)]
    return [n for n in picks if n is not None]


def edits_of(tree, path=()):
    """Every (path, verb, name) of the menu on this map and its sub-maps."""
    present = [name for name, _, _ in tree]
    where = '/'.join(path)
    for name in new_names(present):
        yield f'{where};add;{name}'
    for name, kind, _ in tree:
        if kind != 'm':
            yield f'{where};replace;{name}'
    for name in new_names(present):
        yield f'{where};addmap;{name}'
    yield f'{where};clear'
    for name, kind, _ in tree:
        if kind != 'm':
            yield f'{where};deepen;{name}'
            yield f'{where};mapover;{name}'
    for name, kind, sub in tree:
        if kind == 'm':
            yield from edits_of(sub, path + (name,))


def edit_family(boxes, style):
    """All two-phase cases, smallest trees first."""
    out = []
    for case in family(boxes, style):
        _, tree = parse(case)
        out += [f'{case}{EDIT_SEP}{e}' for e in edits_of(tree)]
    return out


def parse_edit(text):
    fields = text.split(';')
    if len(fields) not in (2, 3) or fields[1] not in EDIT_VERBS or \
            (len(fields) == 2) != (fields[1] == 'clear'):
        raise HarnessError(f'cannot parse edit {text!r}')
    path = tuple(fields[0].split('/')) if fields[0] else ()
    return path, fields[1], fields[2] if len(fields) == 3 else None


def apply_edit(root, path, verb, name):
    """One edit on the real map (reached by chained get, edited through its
    own reference) and on the reference description.  -> hit names."""
    node = root
    m = root.real
    for step in path:
        entry = node.entries.get(step)
        if entry is None or entry[0] != 'm':
            raise HarnessError(f'edit path {path!r} is not a map of the tree')
        node = entry[1]
        m = m.get(step)
    if m is not node.real:
        raise HarnessError(f'get() along {path!r} did not reach the map the '
                           f'tree was built with (C11 territory)')
    where = '/'.join(path + (name,)) if name is not None else '/'.join(path)
    hits = ['edit_' + verb,
            'snapshot_after_submap_edit' if path
            else 'snapshot_after_root_edit']
    if len(path) == 2:
        hits.append('edit_of_depth3_map')
    if verb in ('add', 'addmap'):
        if name in node.entries:
            raise HarnessError(f'{name!r} is not a new name in {path!r}')
        hits.append('edit_new_slotable_name' if slotable(name)
                    else 'edit_new_unslotable_name')
    if verb == 'add':
        h = THandle(where + '#added')
        m[name] = h
        node.entries[name] = ('h', h, 'h')
    elif verb == 'replace':
        old = node.entries.get(name)
        if old is None or old[0] != 'h':
            raise HarnessError(f'{name!r} is not a handle in {path!r}')
        if old[2] != 'h':
            hits.append('edit_replaces_layered_handle')
        h = THandle(where + '#replaced')
        m[name] = h             # lands in the top layer: visible
        node.entries[name] = ('h', h, old[2])
    elif verb == 'addmap':
        sub = Node(path + (name,))
        sub.real = desper.ResourceMap()
        m[name] = sub.real
        node.entries[name] = ('m', sub)
    elif verb in ('deepen', 'mapover'):
        old = node.entries.get(name)
        if old is None or old[0] != 'h':
            raise HarnessError(f'{name!r} is not a handle in {path!r}')
        hits.append('edit_turns_handle_into_map')
        if old[2] != 'h':
            hits.append('edit_turns_layered_handle_into_map')
        sub = Node(path + (name,))
        if verb == 'deepen':
            # composite key on the edited map: the intermediate map is made
            # by ResourceMap itself and replaces the handle in every layer
            h = THandle(f'{where}/{DEEPEN_CHILD}#deepened')
            m[f'{name}{m.split_char}{DEEPEN_CHILD}'] = h
            sub.real = m.get(name)
            sub.entries[DEEPEN_CHILD] = ('h', h, 'h')
        else:
            sub.real = desper.ResourceMap()
            m[name] = sub.real
        if not isinstance(sub.real, desper.ResourceMap):
            # nothing to hang the description on: source_divergence() sees
            # it, the map itself then is the only yardstick
            sub.real = None
        elif name not in m.handles:
            hits.append('handle_name_left_handles')
        node.entries[name] = ('m', sub)
    else:
        if node.entries:
            hits.append('edit_clears_non_empty_map')
        m.clear()
        node.entries.clear()
    return hits


# -- the OLD snapshot after an edit of the source map ---------------------
# Nobody sets or deletes anything on it, so what it answers may only be what
# it answered before (frozen reading of "snapshot") or what the map answers
# now (live reading of "mirror"); the statement does not choose.
FORMS = ('item', 'attr', 'get')
_OLD_PROBES = tuple((n, n.isidentifier()) for n in NAMES)
_ABSENT = ('absent',)


def frozen_desc(node):
    """What the tree holds now: {name: handle object | {..sub-map..}}."""
    return {name: frozen_desc(entry[1]) if entry[0] == 'm' else entry[1]
            for name, entry in node.entries.items()}


def _read(cur, name, form):
    try:
        if form == 0:
            v = cur[name]
        elif form == 1:
            v = getattr(cur, name)
        else:
            v = cur.get(name)
            if v is None:           # as ResourceMap.get answers
                return _ABSENT
    except ABSENT_OK:
        return _ABSENT
    except Exception as exc:
        return ('error', type(exc).__name__)
    return ('obj', v)


def _same(a, b):
    if a[0] != b[0]:
        return False
    return a[1] is b[1] if a[0] == 'obj' else a == b


def live_answer(root_map, path, form):
    """What the source map answers now for ``path`` read step by step:
    ('obj', resource or handle) | ('map',) | ('absent',)."""
    cur = root_map
    for name in path:
        if not isinstance(cur, desper.ResourceMap):
            return _ABSENT
        if form == 2:
            cur = cur.get(name)
            if cur is None:
                return _ABSENT
        else:
            try:
                cur = cur[name]
            except KeyError:
                return _ABSENT
    return ('map',) if isinstance(cur, desper.ResourceMap) else ('obj', cur)


def _kind(outcome):
    if outcome[0] != 'obj':
        return outcome[0]       # absent | error | snapshot
    v = outcome[1]
    if isinstance(v, desper.Handle):
        return 'handle'
    if isinstance(v, Res):
        return 'resource'
    if isinstance(v, desper.StaticResourceMap):
        return 'snapshot'
    return 'other'


def check_old_snapshot(root, desc, old, verb):
    """Every (path, form) of ``desc`` - the tree the snapshot ``old`` was
    taken from: its names and every absent alphabet name on every map - is
    read from ``old`` by chained [] / getattr / get.  Each answer must be the
    frozen one (what a faithful snapshot of ``desc`` answers: the resource /
    handle object of then, a sub-snapshot, a failure) or the live one (what
    the map answers now).  Below something that is not a sub-snapshot (any
    more) every name counts as absent.
    -> (number of reads, number of answers that moved with the map)."""
    static = desper.StaticResourceMap
    reads = moved = 0

    def judge(path, form, sub, now):
        if sub is _SKIPPED:
            was = _ABSENT
        elif isinstance(sub, dict):
            was = ('snapshot',)
        else:
            was = ('obj', sub if form == 2 else sub())
        if was[0] == 'snapshot':
            if now[0] == 'obj' and isinstance(now[1], static):
                return 0
        elif _same(was, now):
            return 0                # frozen reading
        live = live_answer(root.real, path, form)
        if live[0] == 'map':
            ok = now[0] == 'obj' and isinstance(now[1], static)
        else:
            ok = _same(live, now)
        if ok:
            return 1
        raise Violation(
            'old_snapshot_is_frozen_or_live',
            f'{FORMS[form]} access of {"/".join(path)!r} on the snapshot '
            f'taken before the {verb!r} edit of the source map gives '
            f'{now!r}; when the snapshot was taken the map held {was!r} '
            f'there and now it answers {live!r}: neither the old nor the '
            f'current content, although nothing was set or deleted on the '
            f'snapshot', form=FORMS[form], was=_kind(was), got=_kind(now))

    def visit(desc, path, curs):
        nonlocal reads, moved
        for name, ident in _OLD_PROBES:
            sub = desc.get(name, _SKIPPED)
            there = path + (name,)
            nxt = []
            for form, cur in enumerate(curs):
                if cur is _SKIPPED or (form == 1 and not ident):
                    nxt.append(_SKIPPED)    # no attribute walk through here
                    continue
                now = _ABSENT if cur is None else _read(cur, name, form)
                reads += 1
                moved += judge(there, form, sub, now)
                nxt.append(now[1] if now[0] == 'obj'
                           and isinstance(now[1], static) else None)
            if isinstance(sub, dict):
                visit(sub, there, nxt)

    visit(desc, (), [old, old, old])
    return reads, moved


# -- the map itself as the yardstick (no tree description involved) --------
def source_divergence(root):
    """None, or where the source map - as its own get() / handles / maps
    answer - is not the tree the reference description says it is after the
    edit (a name that is a handle in some layer AND a sub-map, a handle that
    did not give way to the map assigned over it ...).  What a ResourceMap
    holds after an edit is C11's subject; here it only decides which
    yardstick the new snapshot is measured with."""
    for node in all_nodes(root):
        m = node.real
        where = '/'.join(node.path) or '<root>'
        if m is None:
            return f'{where}: no sub-map where the edit should have made one'
        for name, entry in node.entries.items():
            got = m.get(name)
            if entry[0] == 'h':
                if got is not entry[1] or name in m.maps:
                    return (f'{where}: {name!r} should be the handle '
                            f'{entry[1]!r} only; get gives {got!r}, maps has '
                            f'it: {name in m.maps}')
            elif (entry[1].real is None or got is not entry[1].real
                  or name in m.handles):
                return (f'{where}: {name!r} should be a sub-map only; get '
                        f'gives {got!r}, some handles layer has it: '
                        f'{name in m.handles}')
        for name in NAMES:
            if name not in node.entries and (name in m.handles
                                             or name in m.maps):
                return f'{where}: {name!r} should be absent'
    return None


class MapMirror:
    """Map-driven comparison of a snapshot: the names are those the source
    map lists itself (every handles layer, maps; with ``probes`` the other
    alphabet / foreign names too), the expected answer of each name is what
    the map answers NOW to [name] and get(name), one step at a time, and the
    walk descends where the map's [name] is a ResourceMap.  Clauses and
    signature features are those of Checker in the same phase."""

    def __init__(self, phase, level, probes):
        self.features = {'phase': phase, 'level': level}
        self.probes = probes
        self.calls = 0
        self.maps = 0

    def fail(self, clause, detail):
        raise Violation(clause, detail, **self.features)

    def walk(self, m, curs, path=()):
        """curs: the sub-snapshots of ``m`` reached by chained [] / getattr
        / get (_SKIPPED: a name on the way is not an identifier)."""
        static = desper.StaticResourceMap
        where = '/'.join(path) or '<root>'
        self.maps += 1
        names = list(dict.fromkeys(
            [n for layer in m.handles.maps for n in layer] + list(m.maps)))
        if self.probes:
            names += [n for n in NAMES + FOREIGN if n not in names]
        for name in names:
            if m.split_char in name:
                raise HarnessError(f'composite name {name!r} in {where}')
            try:
                v = m[name]
            except KeyError:
                by_item = _ABSENT
            else:
                by_item = ('map',) if isinstance(v, desper.ResourceMap) \
                    else ('obj', v)
            g = m.get(name)
            by_get = _ABSENT if g is None else \
                ('map',) if isinstance(g, desper.ResourceMap) else ('obj', g)
            nxt = []
            for form, cur in enumerate(curs):
                if cur is _SKIPPED or (form == 1 and not name.isidentifier()):
                    nxt.append(_SKIPPED)
                    continue
                want = by_get if form == 2 else by_item
                now = _read(cur, name, form)
                self.calls += 1
                if want[0] == 'map':
                    ok = now[0] == 'obj' and isinstance(now[1], static)
                else:
                    ok = _same(want, now)
                if not ok:
                    self.fail(
                        'absent_name_fails' if want is _ABSENT
                        else FORMS[form] + '_access',
                        f'{FORMS[form]} access of {name!r} on '
                        f'snapshot[{where}] gives {now!r}, the map itself '
                        f'answers {want!r} there')
                nxt.append(now[1] if want[0] == 'map' else _SKIPPED)
            if by_item[0] == 'map':
                if by_get[0] != 'map':
                    nxt[2] = _SKIPPED
                self.walk(v, nxt, path + (name,))


def run_edit_case(case):
    tree_case, _, edit = case.partition(EDIT_SEP)
    style, tree = parse(tree_case)
    path, verb, name = parse_edit(edit)
    root = build(tree, style)
    old = take_snapshot(root)   # the first snapshot
    desc = frozen_desc(root)
    edit_hits = apply_edit(root, path, verb, name)
    level = 'sub' if path else 'root'
    snap = take_snapshot(root, phase='after_edit', level=level)
    hits = dict.fromkeys(edit_hits, 1)
    if style == 'A':
        hits['append_style_layer'] = 1
    diverged = source_divergence(root)
    mirror = MapMirror('after_edit', level, probes=diverged is not None)
    if diverged is not None:
        # the map is not the tree of the description any more: the snapshot
        # is measured with the map alone, absent names included; the checks
        # that lean on the description are void for this case
        mirror.walk(root.real, [snap, snap, snap])
        hits['info_source_map_outside_tree_description'] = 1
        hits['map_driven_walk'] = mirror.maps
        return {'calls': 2 + mirror.calls, 'hits': hits, 'key': case}
    chk = Checker(root, snap, 'after_edit', level=level)
    chk.compare()
    # second opinion that does not lean on the description (names the map
    # lists itself; the absent ones were probed just above)
    mirror.walk(root.real, [snap, snap, snap])
    hits['map_driven_walk'] = mirror.maps
    # the old snapshot: nothing was set or deleted on it
    reads, moved = check_old_snapshot(root, desc, old, verb)
    hits['old_snapshot_reread'] = reads
    if 'handle_name_left_handles' in hits:
        hits['old_snapshot_reread_of_handle_turned_map'] = 1
    if moved:
        hits['info_old_snapshot_answers_moved_with_map'] = moved
    calls = (3 + chk.calls + chk.attr_calls + chk.absent_calls + reads
             + mirror.calls)
    return {'calls': calls, 'hits': hits, 'key': case}


def parts(tier):
    main, append = BOUNDS[tier]
    return {
        'trees': ('I', main),
        'trees-append-layer': ('A', append),
    }


def edit_parts(tier):
    main, append = EDIT_BOUNDS[tier]
    d = {'resnapshot-after-edit': ('I', main)}
    if append is not None:
        d['resnapshot-after-edit-append-layer'] = ('A', append)
    return d


def flavour_params(tier):
    per_map, total = FLAV_BOUNDS[tier]
    return dict(
        style='I', depth=DEPTH, nodes_per_map=per_map, nodes_total=total,
        trees='those with at least one handle',
        alphabets={k: list(v) for k, v in FLAV_NAMES.items()},
        flavour_pairs=[list(f) for f in FLAVOURS],
        handle_flavours={k: (v.__doc__ or 'only load() overridden').split(
            '\n\n')[0].replace('\n    ', ' ')
            for k, v in HANDLE_FLAVOURS.items()},
        map_flavours={k: 'split_char ' + repr(v.split_char)
                      + ('' if v is desper.ResourceMap else ' (subclass)')
                      for k, v in MAP_FLAVOURS.items()},
        handle_kinds=list(HANDLE_KINDS),
        sequence='snapshot; get walk (nothing loaded); full comparison, '
        'map reads first, absent names probed; full comparison, snapshot '
        'reads first; get walk (loaded); reload rounds (as in the reload '
        'parts) with a get walk after each clear',
        signature='clause + (handles, maps, phase)')


def reload_parts(tier):
    main, append = RELOAD_BOUNDS[tier]
    return {'reload-after-handle-clear': ('I', main),
            'reload-after-handle-clear-append-layer': ('A', append)}


def run(tier, rep):
    rep.rule = RULE
    rep.assumptions += [
        'a path is a sequence of names applied one step at a time; the '
        'snapshot is not required to accept composite "a/b" keys',
        f'names colliding with the snapshot\'s own members {list(RESERVED)} '
        'are excluded by the statement and not generated',
        'an absent name must fail with KeyError/LookupError or '
        'AttributeError through [] and getattr; get() may also return None '
        '(as ResourceMap.get does)',
        'a mutation attempt may raise any exception type',
        'a name is a handle xor a sub-map in the generated trees.  What a '
        'ResourceMap holds after an edit is C11\'s subject; if an edit '
        'leaves the source map in a state the tree description cannot '
        'express (a sub-map over a surviving lower-layer handle of the same '
        'name, a handle that did not give way ...: source_divergence) the '
        'case is not abandoned: the new snapshot is compared with what the '
        'map itself answers, one step at a time, for every name the map '
        'lists and every absent alphabet / foreign name (same clauses), the '
        'checks that lean on the description (old snapshot included) are '
        'skipped and the case is counted under '
        'info_source_map_outside_tree_description (0 on a tree whose '
        'ResourceMap keeps handle and map names disjoint)',
        'map-driven walk (map_driven_walk): the names of a map are read '
        'from its public attributes handles.maps / maps, the expected '
        'answers only from map[name] and map.get(name); a sub-map hidden '
        'behind a handle of the same name is not entered (the map does not '
        'yield it for that one-step path)',
        'reload parts: Handle.clear() is called on the handle objects that '
        'map.get and snapshot.get hand out (their identity is checked '
        'before); a handle shadowed in the lower layer is never loaded and '
        'never cleared.  After a clear the snapshot must yield the object '
        'the map yields, by identity, whichever side reads first (a '
        'snapshot may not keep an unwrapped resource past Handle.clear(), '
        'nor load one that the handle does not hand to the map as well); '
        'every load() makes a new object.  Names the map does not have are '
        'not probed again in these parts (nothing is added or removed); '
        'clearing is done in rounds on one snapshot (all handles, then '
        'each alone; schedule in the part parameters), not in separate '
        'cases per round',
        'composite paths (clause composite_path): "for every path ... as '
        'the map itself" is read as covering the map\'s own composite keys: '
        'root_map[split_char.join(names)] must be the object the snapshot '
        'yields step by step, root_map.get(...) the handle snapshot.get '
        'yields step by step, and a ResourceMap where the snapshot has a '
        'sub-snapshot; a map that raises for a path the snapshot serves '
        'counts as a disagreement of the mirror (whichever side is wrong).  '
        'That two different sub-maps are reached is C11\'s (harness error)',
        'snapshot.get is compared with what map.get answers for the same '
        'name (identity), the tree description is only cross-checked '
        'afterwards: a map whose get() hides a handle the snapshot hands '
        'out violates "get yields the same handle objects"',
        'part handle-and-map-flavours: the handle / map classes only use '
        'documented extension points (Handle.__call__ / load / clear / '
        'cached overridden, truth value via __bool__ / __len__, '
        'ResourceMap.split_char overridden in a subclass; no private '
        'attribute of desper is read or written).  All handles of a tree '
        'have one class, all maps one class (6 pairs, not the full '
        'product).  A view handle returns one view object per loaded '
        'object, so identity with the map\'s answer is demanded as '
        'everywhere; handles that return a new object on every call are '
        'not explored.  Accepted: exactly what the map answers (identity) '
        'for [] / getattr / get, by single steps and by composite key, in '
        'the states nothing loaded / loaded / after Handle.clear().  '
        'split_char set on an instance, sub-maps of a different class '
        'than the root, and trees built through composite assignment are '
        'not explored.  Signatures of this part are clause + (handles, '
        'maps, phase)',
        'two ChainMap layers at most; sibling insertion order fixed (order '
        'of the alphabet)',
        'writing through snapshot.__dict__ / object.__setattr__ is not '
        'counted as "an attempt to set an attribute" (only setattr/delattr '
        'are demanded); snapshots that expose a plain writable __dict__ are '
        'counted in shortcut_hits as information',
        'two-phase parts: the snapshot taken AFTER the edit is compared in '
        'full with the map.  For the snapshot taken BEFORE the edit the '
        'statement ("read-only snapshot", "immutable", "mirror") does not '
        'say whether it is frozen at creation or follows the map, so each '
        'single answer (per path, per access form, absent names included) '
        'may be either the frozen answer - that of a faithful snapshot of '
        'the tree before the edit: the resource loaded by / the handle '
        'object that was there, some StaticResourceMap for a sub-map, '
        'failure for an absent name (that a FRESH snapshot answers exactly '
        'so is checked by the one-phase parts on a superset of these '
        'trees) - or '
        'the answer of the map now (same resource / handle object, some '
        'StaticResourceMap where the map has a sub-map, failure or None '
        'from get where the map has nothing); anything else violates '
        'old_snapshot_is_frozen_or_live.  Below a name that no longer '
        'yields a sub-snapshot every name counts as absent',
        'one edit per case, applied to the edited map object itself '
        '(obtained by chained get() from the root), never through a '
        'composite key on the root (the "deepen" edit uses the composite '
        f'key name + "/{DEEPEN_CHILD}" on the edited map itself); edits that '
        'turn a sub-map into a handle, and direct manipulation of '
        'handles.maps after the first snapshot, are outside the menu',
    ]
    rep.require_hits(non_identifier_name=1, keyword_name=1, dunder_name=1,
                     layered_handle=1, shadowed_handle=1,
                     lower_only_handle=1, mutation_attempt=1, attr_walk=1,
                     absent_name=1, nested_map=1, depth3_map=1,
                     append_style_layer=1,
                     snapshot_after_submap_edit=1, snapshot_after_root_edit=1,
                     edit_add=1, edit_replace=1, edit_addmap=1, edit_clear=1,
                     edit_of_depth3_map=1, edit_replaces_layered_handle=1,
                     edit_clears_non_empty_map=1, edit_new_slotable_name=1,
                     edit_new_unslotable_name=1,
                     dunder_both_ends_name=1, edit_deepen=1, edit_mapover=1,
                     edit_turns_handle_into_map=1,
                     edit_turns_layered_handle_into_map=1,
                     handle_name_left_handles=1, old_snapshot_reread=1,
                     old_snapshot_reread_of_handle_turned_map=1,
                     handle_cleared_after_read=1,
                     resource_reloaded_after_clear=1,
                     reload_snapshot_first=1, reload_map_first=1,
                     reload_clears_every_handle=1,
                     reload_clears_one_handle_of_several=1,
                     reload_of_layered_handle=1,
                     map_driven_walk=1,
                     composite_path=1, composite_path_custom_delimiter=1,
                     name_with_base_delimiter=1,
                     get_of_falsy_handle=1, get_of_unloaded_sized_handle=1,
                     get_of_loaded_sized_handle=1,
                     overridden_call_differs_from_loaded=1,
                     handle_with_own_store_loaded=1,
                     **{'handle_flavour_' + h: 1 for h, _ in FLAVOURS},
                     **{'map_flavour_' + m: 1 for _, m in FLAVOURS})
    for part, (style, boxes) in parts(tier).items():
        cases = family(boxes, style)
        kernel.enumerate_cases(
            run_case, cases, rep, part,
            params=dict(style=style, depth=DEPTH,
                        family_is_union_of=boxes_text(boxes),
                        probed_names=list(NAMES + FOREIGN),
                        handle_kinds=list(HANDLE_KINDS)),
            chunk=max(200, len(cases) // 400))
    for part, (style, boxes) in edit_parts(tier).items():
        cases = edit_family(boxes, style)
        kernel.enumerate_cases(
            run_edit_case, cases, rep, part,
            params=dict(style=style, depth=DEPTH,
                        family_is_union_of=boxes_text(boxes),
                        new_names_drawn_from=list(NAMES),
                        handle_kinds=list(HANDLE_KINDS),
                        edit_verbs=list(EDIT_VERBS),
                        deepen_child=DEEPEN_CHILD,
                        old_snapshot='re-read after the edit: every answer '
                        'frozen or live',
                        new_snapshot='compared by the tree description and '
                        'by the map-driven walk; by the latter alone (plus '
                        'absent names) if the map left the description',
                        edited_maps='the root and every sub-map',
                        bounds_apply_to='the tree before the edit'),
            chunk=max(200, len(cases) // 400))


    for part, (style, boxes) in reload_parts(tier).items():
        cases = reload_family(boxes, style)
        kernel.enumerate_cases(
            run_reload_case, cases, rep, part,
            params=dict(style=style, depth=DEPTH,
                        family_is_union_of=boxes_text(boxes),
                        trees='those with at least one handle',
                        handle_kinds=list(HANDLE_KINDS),
                        read_before_clear='every path by [] / getattr / get',
                        rounds='every visible handle cleared; then, with '
                        'several handles, each one alone; each in the orders '
                        + ' / '.join(RELOAD_ORDERS),
                        absent_names_probed=False),
            chunk=max(200, len(cases) // 400))
    cases = flavour_family(tier)
    kernel.enumerate_cases(
        run_flavour_case, cases, rep, 'handle-and-map-flavours',
        params=flavour_params(tier), chunk=max(100, len(cases) // 400))


def replay(rec):
    case = rec['case']
    try:
        run_case(case)
    except Violation as v:
        return v
    return None
