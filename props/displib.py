"""Owning the iteration order of EventDispatcher's listener snapshot.

``dispatch`` iterates ``set(self._events[name])`` whose members are
``(weakref, function)`` tuples; a weak reference hashes as its referent, so
harness handlers define ``__hash__`` and a calibration searches small hash
values until every one of the k! callback orders has been observed.
"""
import itertools

from mc import env  # noqa: F401
import desper


class Ordered:
    """Mixin: hash controlled by the harness, identity equality."""
    _h = 0

    def __hash__(self):
        return self._h


def observed_order(klass, hashes, event='go'):
    """Order in which a fresh dispatcher calls k fresh listeners."""
    order = []
    d = desper.EventDispatcher()
    objs = []
    for i, h in enumerate(hashes):
        o = klass.__new__(klass)
        o._h = h
        o._calib = (order, i)
        objs.append(o)
        d.add_handler(o)
    d.dispatch(event)
    return tuple(order)


def calibrate(klass, k, event='go', limit=64):
    """Return {order: hash vector} covering all k! orders (or what was found).

    ``klass`` must define the callback for ``event`` so that an instance with
    a ``_calib`` attribute appends its index to the list stored there.
    """
    found = {}
    want = len(list(itertools.permutations(range(k))))
    for hashes in itertools.product(range(1, limit), repeat=k):
        if len(set(hashes)) < k:
            continue
        order = observed_order(klass, hashes, event)
        if len(order) == k and order not in found:
            found[order] = hashes
            if len(found) == want:
                break
    return found
