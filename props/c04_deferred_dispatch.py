"""C04 - disabled dispatchers defer events and release them once, in order."""
import collections
import contextlib
import itertools

from mc import env  # noqa: F401
from mc import kernel
from mc.canon import canon
from mc.guard import budget, BudgetExceeded
from mc.report import Violation, Lookalike

import desper

RULE = ('E1 breadth-first search to fixpoint over dispatch / disable / enable '
        '/ add / remove listener on a real EventDispatcher (queue bounded), '
        'E2 inside every release: at each delivery position the callback '
        'behaves, raises or disables dispatching again, every plan with up to '
        'F faults.  Global exactly-once-in-order ledger; step budget for '
        'termination.  Non-trivial = release with a backlog, a raise or a '
        'nested disable during a release, retry after an aborted release, '
        'listener set changed between dispatch and release.  Second part (E2): '
        'every sequence of <= 4 direct SimpleLoop.switch(handle, clear_current, '
        'clear_next) calls over two handles whose worlds load disabled with '
        'two queued events: the world entered is the handle content, enabled, '
        'and has delivered exactly its own events once, in order.')

EVENTS = ('e', 'f')


class Boom(Lookalike):
    """Stands for Quit / SwitchWorld raised from a callback by design."""


class Payload:
    def __init__(self, n):
        self.n = n

    def __repr__(self):
        return f'p{self.n}'


class Listener:
    def __init__(self, label, ctx):
        self.label = label
        self.ctx = ctx

    def __hash__(self):
        # deterministic (labels are strings, PYTHONHASHSEED is fixed): the
        # iteration order of desper's listener sets must not depend on
        # object addresses, or replays of one history could differ
        return hash(self.label)

    def _got(self, event, payload):
        ctx = self.ctx
        pos = len(ctx.log)
        ctx.log.append((self.label, event, payload))
        fault = ctx.plan.get(pos)
        if fault is None:
            return
        ctx.fired.append((pos, fault))
        if fault == 'raise':
            raise Boom(f'at delivery {pos}')
        ctx.d.dispatch_enabled = False
        if fault == 'disable_dispatch':
            # ... and dispatches a new event: it must queue *behind* the
            # events that are still pending
            ctx.counter += 1
            fresh = Payload(ctx.counter)
            ctx.keep.append(fresh)
            ctx.injected.append(('e', fresh))
            ctx.d.dispatch('e', fresh)
        elif fault == 'disable_enable':
            # ... and enables again from inside the callback: nested release
            ctx.d.dispatch_enabled = True

    def on_e(self, payload):
        self._got('e', payload)

    def on_f(self, payload):
        self._got('f', payload)


@desper.event_handler(e='on_e', f='on_f')
class L1(Listener):
    pass


@desper.event_handler(e='on_e')
class L2(Listener):
    pass


class Ctx:
    pass


class DeferDriver:
    name = 'defer'

    def __init__(self, max_queue=3, max_faults=1, budget_lines=20000):
        self.max_queue = max_queue
        self.max_faults = max_faults
        self.budget_lines = budget_lines

    def params(self):
        return dict(max_queue=self.max_queue, max_faults=self.max_faults,
                    events=EVENTS, listeners={'L1': ['e', 'f'], 'L2': ['e']},
                    step_budget_lines=self.budget_lines)

    def initial(self):
        ctx = Ctx()
        ctx.hits = collections.Counter()
        # isolation probe: an event held by one dispatcher is its own - a
        # fresh dispatcher that is enabled neither delivers nor swallows it
        ctx.plan, ctx.fired, ctx.injected, ctx.keep = {}, [], [], []
        ctx.log = []
        other = desper.EventDispatcher()
        witness = L1('other', ctx)
        other.add_handler(witness)
        other.dispatch_enabled = False
        token = Payload(0)
        other.dispatch('e', token)
        fresh = desper.EventDispatcher()
        fresh.dispatch_enabled = True
        other.dispatch_enabled = True
        if ctx.log != [('other', 'e', token)]:
            raise Violation(
                'dispatchers_hold_their_own_events',
                f'an event queued in one disabled dispatcher was delivered '
                f'{ctx.log} after an unrelated fresh dispatcher had been '
                f'enabled', isolation=True)
        ctx.d = desper.EventDispatcher()
        ctx.listeners = {'L1': L1('L1', ctx), 'L2': L2('L2', ctx)}
        ctx.registered = set()
        ctx.enabled = True
        ctx.pending = []        # [(event, payload, optional)]
        ctx.counter = 0
        ctx.log = []
        ctx.plan = {}
        ctx.fired = []
        ctx.keep = []
        ctx.injected = []
        return ctx

    def _listening(self, ctx, event):
        return sorted(n for n in ctx.registered
                      if event in ctx.listeners[n].__events__)

    def _expected_deliveries(self, ctx):
        return sum(len(self._listening(ctx, ev)) for ev, _, _ in ctx.pending)

    def ops(self, ctx):
        ops = []
        backlog = ctx.enabled and ctx.pending
        if not ctx.enabled or backlog:
            n = self._expected_deliveries(ctx)
            plans = [()]
            for nf in range(1, self.max_faults + 1):
                for pos in itertools.combinations(range(n), nf):
                    for kinds in itertools.product(
                            ('raise', 'disable', 'disable_dispatch'),
                            repeat=nf):
                        # an injected event lengthens the backlog: at most
                        # one per release, and only while the queue is short
                        # (otherwise the space is unbounded)
                        inject = kinds.count('disable_dispatch')
                        if inject > 1 or (inject and len(ctx.pending)
                                          > self.max_queue):
                            continue
                        plans.append(tuple(zip(pos, kinds)))
            # a nested release (disable, then enable again inside the
            # callback) is explored as a single deviation
            plans.extend(((pos, 'disable_enable'),) for pos in range(n))
            ops.extend(('enable', plan) for plan in plans)
        if backlog:
            # enabled with a backlog (a release was aborted by an exception):
            # a dispatch is delivered at once (the dispatcher is enabled);
            # the backlog stays pending until the next enabling assignment
            ops.append(('disable',))
            for ev in EVENTS:
                ops.append(('dispatch', ev))
            ops.append(('clear',))
            return ops
        if ctx.enabled:
            ops.append(('disable',))
        if len(ctx.pending) < self.max_queue or ctx.enabled:
            for ev in EVENTS:
                ops.append(('dispatch', ev))
        for n in ('L1', 'L2'):
            ops.append(('remove' if n in ctx.registered else 'add', n))
        if ctx.pending or ctx.registered or not ctx.enabled:
            ops.append(('clear',))
        return ops

    def apply(self, ctx, op):
        d = ctx.d
        ctx.log = []
        ctx.plan = {}
        ctx.fired = []
        ctx.injected = []
        kind = op[0]
        if kind == 'add':
            d.add_handler(ctx.listeners[op[1]])
            ctx.registered.add(op[1])
            if ctx.pending:
                ctx.hits['listeners_changed_while_pending'] += 1
        elif kind == 'remove':
            d.remove_handler(ctx.listeners[op[1]])
            ctx.registered.discard(op[1])
            if ctx.pending:
                ctx.hits['listeners_changed_while_pending'] += 1
        elif kind == 'clear':
            # documented: removes all handlers and pending events, enables
            d.clear()
            if ctx.pending:
                ctx.hits['clear_with_backlog'] += 1
            ctx.registered = set()
            ctx.pending = []
            ctx.enabled = True
        elif kind == 'disable':
            d.dispatch_enabled = False
            ctx.enabled = False
        elif kind == 'dispatch':
            ev = op[1]
            ctx.counter += 1
            payload = Payload(ctx.counter)
            ctx.keep.append(payload)
            try:
                d.dispatch(ev, payload)
            except Exception as exc:
                raise Violation('dispatch_raised', f'{exc!r}')
            listening = self._listening(ctx, ev)
            if ctx.enabled:
                if ctx.pending:
                    ctx.hits['dispatch_while_enabled_with_backlog'] += 1
                got = sorted(r[0] for r in ctx.log)
                if got != listening or any(r[2] is not payload
                                           for r in ctx.log):
                    raise Violation('enabled_dispatch_delivers_now',
                                    f'dispatch({ev}) reached {ctx.log}, '
                                    f'listeners {listening}; backlog '
                                    f'{[(e, p) for e, p, _ in ctx.pending]}',
                                    backlog=bool(ctx.pending))
            else:
                if ctx.log:
                    raise Violation('nothing_delivered_while_disabled',
                                    f'dispatch({ev}) while disabled called '
                                    f'{ctx.log}')
                # the statement covers events "whose name had a listener when
                # it was dispatched"; the others may be held or dropped
                ctx.pending.append((ev, payload, not listening))
                if not listening:
                    ctx.hits['queued_without_listener'] += 1
        elif kind == 'enable':
            self._release(ctx, dict(op[1]))
        else:
            raise ValueError(op)
        if d.dispatch_enabled != ctx.enabled:
            raise Violation('dispatch_enabled_flag',
                            f'after {op}: dispatch_enabled = '
                            f'{d.dispatch_enabled}, expected {ctx.enabled}',
                            op=kind)

    def _release(self, ctx, plan):
        d = ctx.d
        ctx.plan = plan
        retry = ctx.enabled and bool(ctx.pending)
        if retry:
            ctx.hits['retry_after_abort'] += 1
        if ctx.pending:
            ctx.hits['release_backlog'] += 1
        raised = None
        # the step budget (line tracing) is only needed for the transition
        # under test: a prefix being replayed has already terminated once
        guard = (budget(self.budget_lines) if getattr(ctx, 'under_test', False)
                 else contextlib.nullcontext())
        try:
            with guard:
                try:
                    d.dispatch_enabled = True
                except Boom as exc:
                    raised = exc
        except BudgetExceeded:
            raise Violation('enable_terminates',
                            f'dispatch_enabled = True did not finish within '
                            f'{self.budget_lines} lines; fired faults '
                            f'{ctx.fired}, pending '
                            f'{[(e, p) for e, p, _ in ctx.pending]}',
                            fault=ctx.fired[0][1] if ctx.fired else None)
        except Exception as exc:
            raise Violation('enable_raised_unexpectedly', f'{exc!r}')
        log = ctx.log
        fired = list(ctx.fired)
        for _, fk in fired:
            ctx.hits[f'fault_{fk}'] += 1
        pending = ctx.pending
        show = [(e, repr(p)) for e, p, _ in pending]
        pend_ids = {id(p) for _, p, _ in pending}
        fresh_ids = {id(p) for _, p in ctx.injected}
        early = [r for r in log if id(r[2]) in fresh_ids]
        if early:
            raise Violation('nothing_delivered_while_disabled',
                            f'an event dispatched by a callback that had just '
                            f'disabled dispatching was delivered: {early}')
        again = [r for r in log if id(r[2]) not in pend_ids]
        if again:
            raise Violation(
                'delivered_event_never_delivered_again',
                f'pending {show}, but the release delivered {again} (whole '
                f'log {log}): those events had been delivered before',
                retry=retry)
        counts = collections.Counter((r[0], id(r[2])) for r in log)
        twice = [k for k, n in counts.items() if n > 1]
        if twice:
            raise Violation(
                'delivered_once_per_listener',
                f'pending {show}; release log {log} (faults {fired}) delivers '
                f'an event twice to the same listener',
                nested=bool(fired) and fired[0][1] == 'disable_enable')
        nested = [f for f in fired if f[1] == 'disable_enable']
        tail = []
        if nested:
            # [events before k][event k up to the fault][events after k, by
            # the nested release][remaining listeners of event k: optional]
            p = nested[0][0]
            pk = log[p][2]
            body = list(log)
            while len(body) > p + 1 and body[-1][2] is pk:
                tail.insert(0, body.pop())
            log = body
        i = 0
        stop = None     # (k, kind): release stopped inside event k
        for k, (ev, payload, optional) in enumerate(pending):
            listening = self._listening(ctx, ev)
            got = []
            while i < len(log) and log[i][2] is payload:
                got.append((i, log[i]))
                i += 1
            if any(r[1] != ev for _, r in got):
                raise Violation('delivered_under_its_name', f'{log}')
            names = [r[0] for _, r in got]
            extra = [r[0] for r in tail] if (nested and got and
                                             got[-1][0] == nested[0][0]) else []
            if not set(names + extra) <= set(listening):
                raise Violation('delivered_to_registered_listeners',
                                f'event {ev}/{payload} delivered to '
                                f'{names + extra}, registered listeners '
                                f'{listening}')
            here = [f for f in fired if got and got[0][0] <= f[0] <= got[-1][0]]
            stopping = [f for f in here
                        if f[1] in ('disable', 'disable_dispatch')
                        or (f[1] == 'raise' and raised is not None)]
            if stopping:
                stop = (k, stopping[0][1])
                break
            if any(f[1] == 'disable_enable' for f in here):
                continue    # rest of this event may come after the nested one
            if optional and not got:
                continue
            if sorted(names) != listening:
                raise Violation(
                    'release_delivers_every_pending_event',
                    f'pending {show}: event {ev}/{payload} reached {names}, '
                    f'listeners registered at delivery time {listening}; '
                    f'whole release log {ctx.log}; faults fired {fired}',
                    lost=len(names) < len(listening), fault=bool(fired))
        if i != len(log):
            raise Violation(
                'delivered_in_dispatch_order_exactly_once',
                f'pending {show}, release log {ctx.log} (faults fired '
                f'{fired}): entry {i} is out of order, repeated or not '
                f'pending', after_fault=stop is not None, retry=retry,
                nested=bool(nested))
        if raised is not None and stop is None:
            raise Violation('enable_raised_unexpectedly',
                            f'{raised!r} without a raising callback')
        if stop is None:
            ctx.pending = []
            ctx.enabled = True
        else:
            k, fk = stop
            ctx.pending = pending[k + 1:]
            if ctx.injected:
                # whichever fault stopped the release first, events that a
                # callback dispatched after disabling are queued behind it
                for ev, fresh in ctx.injected:
                    ctx.pending.append(
                        (ev, fresh, not self._listening(ctx, ev)))
                ctx.hits['dispatch_behind_backlog'] += 1
            if fk in ('disable', 'disable_dispatch') or any(
                    f[1] in ('disable', 'disable_dispatch') for f in fired):
                ctx.enabled = False
            else:
                # aborted by the exception: flag is whatever the dispatcher
                # says (both admissible); backlog stays pending in order
                ctx.enabled = bool(d.dispatch_enabled)

    def check(self, ctx):
        return (ctx.enabled, tuple(e for e, _, _ in ctx.pending),
                tuple(sorted(ctx.registered)))

    def key(self, ctx):
        names = {id(p): f'q{i}' for i, (_, p, _) in enumerate(ctx.pending)}
        names.update({id(v): k for k, v in ctx.listeners.items()})

        def namer(o):
            n = names.get(id(o))
            if n:
                return n
            if isinstance(o, Payload):
                return '~delivered'
            return None
        return (canon((ctx.d,), namer), ctx.enabled,
                tuple((e, o) for e, _, o in ctx.pending),
                tuple(sorted(ctx.registered)))


# -- SimpleLoop.switch releases the world that is entered (loop.py anchor) ----
@desper.event_handler(e='on_e')
class Witness:
    def __init__(self):
        self.got = []

    def on_e(self, payload):
        self.got.append(payload)


class QueuedWorldHandle(desper.Handle):
    """Loads a world that is disabled and already holds two events."""

    def __init__(self, name):
        self.name = name
        self.loads = 0

    def load(self):
        self.loads += 1
        world = desper.World()
        world.dispatch_enabled = False
        world.witness = Witness()
        world.add_handler(world.witness)
        world.expected = [f'{self.name}{self.loads}-1', f'{self.name}{self.loads}-2']
        for payload in world.expected:
            world.dispatch('e', payload)
        return world


def run_loop_switch(case):
    handles = [QueuedWorldHandle('a'), QueuedWorldHandle('b')]
    loop = desper.SimpleLoop(lambda: 0.0)
    hits = {}
    seen = []
    for step, (target, cc, cn) in enumerate(case):
        handle = handles[target]
        before = handle() if handle.cached else None
        current = loop.current_world_handle
        try:
            loop.switch(handle, bool(cc), bool(cn))
        except Exception as exc:
            raise Violation('loop_switch_raised', f'{case}: {exc!r}')
        world = handle()
        fresh = world is not before
        if cn or (cc and current is handle):
            hits['switch_reloads_target'] = 1
            if not fresh and before is not None:
                raise Violation('clear_flag_reloads', f'{case} step {step}')
        if loop.current_world is not world:
            raise Violation('loop_enters_the_handle_content',
                            f'{case} step {step}: current_world is not the '
                            f'world the handle yields', reload=fresh)
        if not world.dispatch_enabled or world.witness.got != world.expected:
            raise Violation(
                'entered_world_is_released',
                f'{case} step {step}: the world entered has dispatch_enabled='
                f'{world.dispatch_enabled} and delivered '
                f'{world.witness.got}, queued at load {world.expected}',
                reload=fresh and before is not None,
                enabled=bool(world.dispatch_enabled))
        seen.append(world)
    return {'calls': len(case), 'hits': hits, 'key': repr(case)}


def loop_switch_cases(n_max):
    steps = [(t, cc, cn) for t in (0, 1) for cc in (0, 1) for cn in (0, 1)]
    out = []
    for n in range(1, n_max + 1):
        out.extend(itertools.product(steps, repeat=n))
    return out


# -- E3: listeners registered / removed by a callback of the release ---------
class ChangeCtx:
    pass


class Changer(Listener):
    def _got(self, event, payload):
        ctx = self.ctx
        pos = len(ctx.log)
        ctx.log.append((self.label, event, payload))
        if pos != ctx.at:
            return
        ctx.fired_at = pos
        other = ctx.listeners['L2' if self.label == 'L1' else 'L1']
        action = ctx.action
        if action in ('remove_self', 'swap'):
            ctx.d.remove_handler(self)
            ctx.registered.discard(self.label)
        if action == 'remove_other':
            ctx.d.remove_handler(other)
            ctx.registered.discard(other.label)
        if action in ('add_other', 'swap'):
            ctx.d.add_handler(other)
            ctx.registered.add(other.label)


@desper.event_handler(e='on_e', f='on_f')
class C1(Changer):
    pass


@desper.event_handler(e='on_e')
class C2(Changer):
    pass


def listener_change_cases(max_events):
    out = []
    for n in range(1, max_events + 1):
        for events in itertools.product(EVENTS, repeat=n):
            for initial in (('L1',), ('L2',), ('L1', 'L2')):
                for at in range(2 * n):
                    for action in ('remove_self', 'remove_other',
                                   'add_other', 'swap'):
                        out.append((events, initial, at, action))
    return out


def run_listener_change(case):
    """Events queued while disabled; during the release the callback at
    delivery position ``at`` changes the listener set.  Events released
    after that one go to the listeners registered at their delivery time."""
    events, initial, at, action = case
    ctx = ChangeCtx()
    ctx.log, ctx.at, ctx.action, ctx.fired_at = [], at, action, None
    ctx.d = d = desper.EventDispatcher()
    ctx.listeners = {'L1': C1('L1', ctx), 'L2': C2('L2', ctx)}
    ctx.registered = set()
    # every event name is known to the dispatcher (a listener that is
    # registered once and removed again), so that queueing does not depend
    # on who listens at dispatch time
    for name in ('L1', 'L2'):
        d.add_handler(ctx.listeners[name])
    for name in ('L1', 'L2'):
        if name not in initial:
            d.remove_handler(ctx.listeners[name])
    ctx.registered = set(initial)
    d.dispatch_enabled = False
    payloads = []
    for i, ev in enumerate(events):
        payloads.append(Payload(i + 1))
        d.dispatch(ev, payloads[-1])
    if ctx.log:
        raise Violation('nothing_delivered_while_disabled', f'{case}: '
                        f'{ctx.log}')
    before = set(ctx.registered)
    try:
        d.dispatch_enabled = True
    except Exception as exc:
        raise Violation('enable_raised_unexpectedly', f'{case}: {exc!r}')
    if ctx.fired_at is None:
        return {'calls': 1, 'hits': {}, 'key': repr(case),
                'nontrivial': False}
    after = set(ctx.registered)

    def listening(reg, ev):
        return sorted(n for n in reg if ev in ctx.listeners[n].__events__)

    log = ctx.log
    i = 0
    changed = False
    hits = {'listener_set_changed_during_release': 1}
    for k, (ev, payload) in enumerate(zip(events, payloads)):
        got = []
        first = i
        while i < len(log) and log[i][2] is payload:
            got.append(log[i][0])
            i += 1
        if any(r[1] != ev for r in log[first:i]):
            raise Violation('delivered_under_its_name', f'{case}: {log}')
        if len(set(got)) != len(got):
            raise Violation('delivered_once_per_listener', f'{case}: {log}',
                            nested=False)
        if not changed and first <= ctx.fired_at < i:
            # the event during which the set changed: listeners on both
            # sides of the change get it, for the others either is fine
            changed = True
            lo = set(listening(before, ev)) & set(listening(after, ev))
            hi = set(listening(before, ev)) | set(listening(after, ev))
            if not lo <= set(got) <= hi:
                raise Violation(
                    'delivered_to_registered_listeners',
                    f'{case}: event {k} ({ev}) reached {got}; registered '
                    f'before the change {sorted(before)}, after '
                    f'{sorted(after)}; log {log}')
            continue
        want = listening(after if changed else before, ev)
        if sorted(got) != want:
            if changed:
                hits['event_released_after_the_change'] = 1
            raise Violation(
                'delivered_to_listeners_registered_at_delivery_time',
                f'{case}: event {k} ({ev}) reached {got}, listeners '
                f'registered when it was delivered: {want} (the callback at '
                f'position {at} did {action}); log {log}',
                after_change=changed, action=action)
        if changed:
            hits['event_released_after_the_change'] = 1
    if i != len(log):
        raise Violation('delivered_in_dispatch_order_exactly_once',
                        f'{case}: log {log}: entry {i} out of order or '
                        f'repeated', after_fault=False, retry=False,
                        nested=False)
    if not d.dispatch_enabled:
        raise Violation('dispatch_enabled_flag', f'{case}: still disabled',
                        op='enable')
    # nothing is left behind: a later event is delivered at once, once
    mark = len(log)
    last = Payload(99)
    d.dispatch('e', last)
    got = sorted(r[0] for r in log[mark:])
    if got != listening(after, 'e') or any(r[2] is not last
                                           for r in log[mark:]):
        raise Violation('enabled_dispatch_delivers_now',
                        f'{case}: after the release dispatch(e) reached '
                        f'{log[mark:]}, listeners {listening(after, "e")}',
                        backlog=False)
    return {'calls': 2 + len(events), 'hits': hits, 'key': repr(case)}


def world_gate_driver(tier):
    """The same gate seen through a World: lifecycle callbacks that close
    it (on_add / on_remove disabling dispatching) in the middle of an
    operation that still has callbacks to announce."""
    from props.worldlib import WorldDriver
    ids = (1,) if tier == 'quick' else (1, 2)
    types = ('H', 'HY', 'HZ') if tier == 'quick' else ('H', 'HY')
    shapes = (('H',), ('HY',), ('HY', 'H'), ('H', 'HY'))
    if tier == 'quick':
        shapes += (('HZ', 'H'),)
    return WorldDriver(
        'world-gate', own='L', types=types, ids=ids,
        explicit_ids=(1,), max_autos=1,
        toggles=True, max_postponed=2, shapes=shapes,
        coarse=False, clear_op=False, process_op=tier != 'quick',
        delete_ops=tier != 'quick')


def drivers(tier):
    if tier == 'quick':
        return {'defer': (DeferDriver(max_queue=4, max_faults=1),
                          dict(max_states=200000, time_budget=300))}
    d1 = DeferDriver(max_queue=5, max_faults=1)
    d1.name = 'defer-queue5'
    d2 = DeferDriver(max_queue=4, max_faults=2)
    d2.name = 'defer-two-faults'
    return {'defer-queue5': (d1, dict(max_states=2000000, time_budget=1500)),
            'defer-two-faults': (d2, dict(max_states=2000000,
                                          time_budget=1500))}


def run(tier, rep):
    rep.rule = RULE
    rep.assumptions += [
        'events whose name had no listener when dispatched may be queued or '
        'dropped',
        'the remaining listeners of the one event whose callback raised or '
        'disabled may or may not receive it; whether the exception '
        'propagates is free',
        'after a release aborted by an exception the dispatcher is enabled '
        'with a backlog: events dispatched then are delivered at once (C03), '
        'the backlog keeps its order and is released by the next enabling '
        'assignment',
        'callbacks do not register / unregister listeners during a release '
        'in the E1 parts; part release-listener-change (E3) does exactly '
        'that: one callback of the release removes itself, removes or adds '
        'the other listener, or swaps - events released after the one in '
        'progress go to the listeners registered then (the event in '
        'progress: listeners on both sides of the change get it, for the '
        'others either is accepted)',
        'part world-gate: the World as dispatcher - lifecycle callbacks that '
        'disable dispatching in the middle of create_entity / '
        'add_component / removal; what the operation still has to announce '
        'is postponed, nothing is announced twice',
    ]
    rep.require_hits(release_backlog=1, fault_raise=1, fault_disable=1,
                     fault_disable_dispatch=1, fault_disable_enable=1,
                     dispatch_behind_backlog=1,
                     dispatch_while_enabled_with_backlog=1,
                     clear_with_backlog=1,
                     listeners_changed_while_pending=1,
                     queued_without_listener=1)
    for name, (driver, kw) in drivers(tier).items():
        kernel.explore(driver, rep, part=name, params=driver.params(), **kw)
    gate = world_gate_driver(tier)
    rep.require_hits(callback_disables_dispatching=1)
    kernel.explore(gate, rep, part='world-gate', params=gate.params(),
                   max_states=600000, time_budget=600)
    rep.require_hits(listener_set_changed_during_release=1,
                     event_released_after_the_change=1)
    kernel.enumerate_cases(run_listener_change,
                           listener_change_cases(3 if tier == 'quick' else 5),
                           rep, 'release-listener-change', chunk=100,
                           params=dict(max_events=3 if tier == 'quick' else 5,
                                       actions=['remove_self', 'remove_other',
                                                'add_other', 'swap']))
    rep.require_hits(switch_reloads_target=1)
    kernel.enumerate_cases(run_loop_switch,
                           loop_switch_cases(3 if tier == 'quick' else 4),
                           rep, 'loop-switch-releases', chunk=100,
                           params=dict(handles=2, flags='cc x cn'))


def replay(rec):
    if rec['part'] == 'release-listener-change':
        try:
            run_listener_change(kernel.totuple(rec['case']))
        except Violation as v:
            return v
        return None
    if rec['part'] == 'world-gate':
        # the thorough alphabet contains the quick one
        return kernel.replay_case(world_gate_driver('thorough'), rec['case'])
    if rec['part'] == 'loop-switch-releases':
        try:
            run_loop_switch(kernel.totuple(rec['case']))
        except Violation as v:
            return v
        return None
    for tier in ('thorough', 'quick'):
        ds = drivers(tier)
        if rec['part'] in ds:
            return kernel.replay_case(ds[rec['part']][0], rec['case'])
    if rec['part'].startswith('defer'):     # records of earlier bounds
        return kernel.replay_case(DeferDriver(max_queue=5, max_faults=2),
                                  rec['case'])
    raise SystemExit(f'unknown part {rec["part"]}')
