"""C09 - coroutine lifecycle: state, kill, restart and promise are coherent."""
from mc import kernel
from props.corolib import (CoroDriver, script_from_yields, RET,
                           wait_order_cases, run_wait_order_case)

RULE = ('E1 breadth-first search to fixpoint on a real CoroutineProcessor '
        'over start / kill / re-start / process(dt) issued from outside and '
        'from inside coroutine bodies, on a fixed set of scripted generators '
        '(runnable, waiting, finishing; bodies that kill themselves, kill or '
        'start another one, kill themselves and return); state(), the '
        'promise and generic reachability from the processor object are '
        'evaluated after every transition.  Lifecycle state machine as '
        'reference model.  Non-trivial = kill of an active / paused '
        'coroutine, restart (before and after release), rejected start / '
        'kill, in-body kill / start, restart of a finished generator.')


def generator_sets(tier):
    g0 = script_from_yields((None, 2, None))
    g1 = script_from_yields((1, None))
    sets = {}
    # g2 variants: in-body actions
    variants = {
        'kill-self': ((( ('kill', 'self'),), None), ((), RET)),
        'kill-self-wait': (((('kill', 'self'),), 2), ((), RET)),
        'kill-self-return': (((), None), ((('kill', 'self'),), RET)),
        'kill-start-self-return': (((), None), ((('kill', 'self'),
                                                ('start', 'self')), RET)),
        'kill-other': (((('kill', 0),), None), ((('kill', 1),), 1),
                       ((), RET)),
        'start-other': (((('start', 0),), None), ((('start', 1),), None),
                        ((), RET)),
        'kill-start-other': (((('kill', 0), ('start', 0)), None),
                             ((('kill', 1), ('start', 1)), None), ((), RET)),
        # starts another one and, in the same step, goes to sleep / returns
        'start-other-then-wait': (((('start', 0),), 1),
                                  ((('start', 1),), RET)),
    }
    # three coroutines pausing in the same frame for 0.5 / 2 / 1 time units:
    # the wait heap holds three records in a non-sorted order
    waiters = (script_from_yields((0.5, None)), script_from_yields((2,)),
               script_from_yields((1, None)))
    # a wait that is not positive is a plain step: ACTIVE, never PAUSED
    odd = (script_from_yields((-1, None)), script_from_yields((0, 1)),
           script_from_yields((1, -1)))
    sets['odd-waits'] = odd
    if tier == 'quick':
        sets['odd-waits'] = odd[1:]
        for name in ('kill-self-return', 'kill-start-self-return',
                     'kill-other', 'kill-start-other',
                     'start-other-then-wait'):
            sets[name] = (g1, script_from_yields((None, 1)), variants[name])
        sets['three-waiters'] = waiters
        return sets
    sets['three-waiters'] = waiters
    for name, g2 in variants.items():
        sets[name] = (g0, g1, g2)
    return sets


def drivers(tier):
    out = {}
    for name, gens in generator_sets(tier).items():
        dts = (1,) if tier == 'quick' else (0, 1)
        if name == 'three-waiters':
            dts = (0.5, 1)
        out[name] = (CoroDriver(name, gens, dts=dts, max_started=3,
                                fixed=True, outside_kill=True,
                                bad_args=True),
                     dict(max_states=1500000,
                          time_budget=300 if tier == 'quick' else 3000))
    return out


def run(tier, rep):
    rep.rule = RULE
    rep.assumptions += [
        'starting a generator that already returned is allowed: it is ACTIVE '
        'until the next frame, executes nothing and terminates with value '
        'None',
        'released = not reachable from the processor object through '
        'containers and desper objects (promises held by the harness do not '
        'count)',
        'a coroutine killed from inside a frame after it already ran in that '
        'frame would next have run in the following frame',
        'part wait-orders (E3): up to 6 (quick: 4, permutations to 6) '
        'coroutines each asking for one wait, every assignment of waits '
        'from the menu, started together or one per frame; state() and the '
        'executing frames judged after every process(1)',
    ]
    rep.require_hits(kill_active=1, kill_paused=1, restart=1,
                     restart_before_release=1, start_running_rejected=1,
                     kill_stopped_rejected=1, inbody_kill=1, inbody_start=1,
                     restart_of_finished=1, killed_itself_then_returned=1)
    for name, (driver, kw) in drivers(tier).items():
        kernel.explore(driver, rep, part=name, params=driver.params(), **kw)
    kernel.enumerate_cases(run_wait_order_case, wait_orders(tier), rep,
                           'wait-orders', params=WAIT_ORDER_PARAMS[tier])


WAIT_ORDER_PARAMS = {
    'quick': dict(menu=(-1, 1, 2, 3, 4), max_sleepers=4,
                  permutations_of=(5, 6)),
    'thorough': dict(menu=(1, 2, 3, 4, 5, 6), max_sleepers=6,
                     permutations_of=(7,), menu2=(-1, 0, 1, 2, 3),
                     max_sleepers2=5),
}


def wait_orders(tier):
    """E3: n coroutines each asking for one wait (odd ones for a second
    one), every assignment of waits: the wait heap in every shape."""
    p = WAIT_ORDER_PARAMS[tier]
    cases = wait_order_cases(p['menu'], p['max_sleepers'],
                             perm_n=p['permutations_of'])
    if 'menu2' in p:
        have = set(cases)
        cases += [c for c in wait_order_cases(p['menu2'], p['max_sleepers2'])
                  if c not in have]
    return cases


def replay(rec):
    if rec['part'] == 'wait-orders':
        return run_wait_order_case(kernel.totuple(rec['case']))
    for tier in ('thorough', 'quick'):
        ds = drivers(tier)
        if rec['part'] in ds:
            return kernel.replay_case(ds[rec['part']][0], rec['case'])
    raise SystemExit(f'unknown part {rec["part"]}')
