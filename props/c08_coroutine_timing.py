"""C08 - coroutines advance one step per frame and wake exactly on time."""
import fractions
import itertools

from mc import kernel
from props.corolib import (CoroDriver, script_from_yields, RET,
                           wait_order_cases, run_wait_order_case)

RULE = ('E1 breadth-first search to fixpoint (scripts are finite, every '
        'branch ends in quiescence) on a real CoroutineProcessor: start of a '
        'new coroutine with any script of the family at any time while fewer '
        'than N exist, process(dt) for every dt of the menu.  Scripts = every '
        'yield sequence of length <= L over the yield menu, plus scripts that '
        'spawn a child from inside the body.  Reference model: one '
        'independent clock per coroutine.  Non-trivial = reached through a '
        'pause, a wake-up, a wake-up in the same frame as other runnable '
        'coroutines, an in-body spawn.')


def scripts(yields, max_len, spawn):
    out = []
    for n in range(max_len + 1):
        for seq in itertools.product(yields, repeat=n):
            out.append(script_from_yields(seq))
    for child in spawn:
        out.append(script_from_yields((None,), spawn=script_from_yields(child)))
        out.append(script_from_yields((), spawn=script_from_yields(child)))
    return out


def inbody_restart_set():
    """A sleeper, a coroutine that kills and restarts it from inside its
    body and then waits itself, and one more waiter: the wait heap is edited
    while process() is running."""
    sleeper = script_from_yields((2, None))
    restarter = (((('kill', 0), ('start', 0)), 1), ((), None), ((), RET))
    waiter = script_from_yields((None, 1))
    return (sleeper, restarter, waiter)


def drivers(tier):
    if tier == 'quick':
        fam = scripts((None, 0, -1, 1, 2), 3, spawn=((), (1,)))
        half = fractions.Fraction(1, 2)     # waits need not be int / float
        lean = [script_from_yields(seq) for seq in
                ((), (half,), (1,), (2,), (1, None), (None, 2),
                 (fractions.Fraction(3, 2),))]
        return {'timing': (CoroDriver('timing', fam, dts=(0, 1, 2),
                                      max_started=2),
                           dict(max_states=400000, time_budget=300)),
                # three overlapping waits requested in any order
                'timing-3-lean': (CoroDriver('timing-3-lean', lean,
                                             dts=(0.5, 1), max_started=3),
                                  dict(max_states=400000, time_budget=300)),
                # sleepers killed / restarted from outside while others wait
                'timing-kill': (CoroDriver('timing-kill', [
                    script_from_yields(seq) for seq in
                    ((1,), (2,), (1, None), (None, 1))],
                    dts=(1, 2), max_started=3, outside_kill=True),
                    dict(max_states=400000, time_budget=300)),
                'timing-inbody-restart': (CoroDriver(
                    'timing-inbody-restart', inbody_restart_set(),
                    dts=(1, 2), max_started=3, fixed=True),
                    dict(max_states=400000, time_budget=300))}
    fam = scripts((None, 0, -1, 0.5, 1, 2), 3, spawn=((), (1,), (None, 2)))
    fam3 = scripts((None, -1, 0.5, 1, 2), 2, spawn=((1,),))
    return {
        'timing-2': (CoroDriver('timing-2', fam, dts=(0, 0.5, 1, 2),
                                max_started=2),
                     dict(max_states=3000000, time_budget=3000)),
        'timing-3': (CoroDriver('timing-3', fam3, dts=(0, 0.5, 1, 2),
                                max_started=3),
                     dict(max_states=3000000, time_budget=3000)),
        'timing-kill': (CoroDriver('timing-kill', [
            script_from_yields(seq) for seq in
            ((0.5,), (1,), (2,), (1, None), (None, 1), (None, 2), (1, 1))],
            dts=(0.5, 1, 2), max_started=3, outside_kill=True),
            dict(max_states=3000000, time_budget=3000)),
        'timing-inbody-restart': (CoroDriver(
            'timing-inbody-restart', inbody_restart_set(),
            dts=(0.5, 1, 2), max_started=3, fixed=True, outside_kill=True),
            dict(max_states=3000000, time_budget=3000)),
    }


def run(tier, rep):
    rep.rule = RULE
    rep.assumptions += [
        'all yield and dt values are dyadic rationals, so float arithmetic '
        'is exact and the claim is free of rounding',
        'a coroutine started from inside a body may run zero times or once '
        'in that same frame; order among coroutines woken together is free',
        'bodies that raise and negative dt are outside the alphabet',
        'part wait-orders (E3): up to 6 (quick: 4, permutations to 6) '
        'coroutines each asking for one wait (odd ones for a second one), '
        'every assignment of waits from the menu, started together or one '
        'per frame, process(1) until all ended: the wait heap in every '
        'shape it can take with that many sleepers',
        'the timing-kill part kills and restarts sleepers from outside so '
        'that the wake-up claim is also checked "whatever other coroutines '
        'are waiting for" when the wait heap is edited',
    ]
    rep.require_hits(pause=1, wake_up=1, wake_up_next_to_runnable=1,
                     inbody_spawn=1, order_checked=1)
    for name, (driver, kw) in drivers(tier).items():
        kernel.explore(driver, rep, part=name, params=driver.params(), **kw)
    kernel.enumerate_cases(run_wait_order_case, wait_orders(tier), rep,
                           'wait-orders', params=WAIT_ORDER_PARAMS[tier])


WAIT_ORDER_PARAMS = {
    'quick': dict(menu=(-1, 1, 2, 3, 4), max_sleepers=4,
                  permutations_of=(5, 6)),
    'thorough': dict(menu=(1, 2, 3, 4, 5, 6), max_sleepers=6,
                     permutations_of=(7,), menu2=(-1, 0, 1, 2, 3),
                     max_sleepers2=5),
}


def wait_orders(tier):
    """E3: n coroutines each asking for one wait (odd ones for a second
    one), every assignment of waits: the wait heap in every shape."""
    p = WAIT_ORDER_PARAMS[tier]
    cases = wait_order_cases(p['menu'], p['max_sleepers'],
                             perm_n=p['permutations_of'])
    if 'menu2' in p:
        have = set(cases)
        cases += [c for c in wait_order_cases(p['menu2'], p['max_sleepers2'])
                  if c not in have]
    return cases


def replay(rec):
    if rec['part'] == 'wait-orders':
        return run_wait_order_case(kernel.totuple(rec['case']))
    for tier in ('thorough', 'quick'):
        ds = drivers(tier)
        if rec['part'] in ds:
            return kernel.replay_case(ds[rec['part']][0], rec['case'])
    raise SystemExit(f'unknown part {rec["part"]}')
