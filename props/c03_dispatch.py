"""C03 - an enabled dispatcher delivers each event once to each listener."""
import collections
import itertools

from mc import env  # noqa: F401
from mc import kernel
from mc.canon import canon
from mc.report import Violation, HarnessError, Lookalike
from props.displib import Ordered, calibrate

import desper

RULE = ('(a) E1 breadth-first search to fixpoint on a real EventDispatcher '
        'with 3 handlers (base class, subclass overriding one mapping and '
        'adding one, class with a hand-written __events__); the first '
        'operation picks a configuration = one scripted re-entrant action per '
        'handler (nothing, remove itself, remove j, add j, nested dispatch) x '
        'one of the 3! listener iteration orders; then add (also twice) / '
        'remove / dispatch of 4 event names x 6 argument shapes.  Delivery '
        'multiset per dispatch frame (nested frames included).  (b) E3: every '
        'decorator program: forests of <= N classes, each class decorated '
        'with any combination of positional names {a, b} and mappings '
        '{a->x, c->y} or undecorated, with or without an event-less mixin '
        'base; __events__ composition, base mappings untouched and not '
        'aliased, and an actual dispatch through an instance of every class.')

SHAPES = (((), {}), ((1,), {}), ((1, 'x'), {}), ((), {'k': 2}),
          ((1,), {'k': 2}), ((1, 'x'), {'k': 2}))
NAMES = ('a', 'b', 'c', 'zz')
ACTIONS = (None, ('remove', 0), ('remove', 1), ('remove', 2), ('add', 0),
           ('add', 1), ('add', 2), ('nested',), ('drop', 0), ('drop', 1),
           ('drop', 2))


class Boom(Lookalike):
    """Stands for Quit / SwitchWorld raised from a callback."""


class Rec(Ordered):
    def __init__(self, ctx, idx):
        self.ctx = ctx
        self.idx = idx

    def _rec(self, method, args, kwargs):
        ctx = self.ctx
        if not ctx.frames:
            raise HarnessError('callback outside any dispatch')
        ctx.frames[-1]['got'].append((self.idx, method, args, kwargs))

    def _act(self):
        ctx = self.ctx
        action = ctx.actions[self.idx]
        if action is None:
            return
        ctx.hits['reentrant_' + action[0]] += 1
        if action[0] == 'remove':
            ctx.driver.do_remove(ctx, action[1])
        elif action[0] == 'add':
            ctx.driver.do_add(ctx, action[1])
        elif action[0] == 'nested':
            ctx.driver.do_dispatch(ctx, 'b', ('nested',), {})
        elif action[0] == 'drop':
            # the program drops its last reference to handler j (weakly
            # held by the dispatcher: it ceases to be registered)
            ctx.driver.do_drop(ctx, action[1], by=self.idx)
        elif action[0] == 'raise':
            ctx.actions = (None, None, None)    # raise once
            raise Boom()

    def __repr__(self):
        return f'h{self.idx}'


@desper.event_handler('a', b='m_b')
class HBase(Rec):
    def a(self, *args, **kwargs):
        self._rec('a', args, kwargs)
        self._act()

    def m_b(self, *args, **kwargs):
        self._rec('m_b', args, kwargs)


@desper.event_handler('c', a='m_a2')
class HSub(HBase):
    def m_a2(self, *args, **kwargs):
        self._rec('m_a2', args, kwargs)
        self._act()

    def c(self, *args, **kwargs):
        self._rec('c', args, kwargs)


class HManual(Rec):
    __events__ = {'a': 'on_a', 'c': 'on_c'}

    def __len__(self):      # a live handler may be falsy (empty container)
        return 0

    def on_a(self, *args, **kwargs):
        self._rec('on_a', args, kwargs)
        self._act()

    def on_c(self, *args, **kwargs):
        self._rec('on_c', args, kwargs)


CLASSES = (HBase, HSub, HManual)
MAPPING = ({'a': 'a', 'b': 'm_b'},
           {'a': 'm_a2', 'b': 'm_b', 'c': 'c'},
           {'a': 'on_a', 'c': 'on_c'})

_CALIB = {}


def orders():
    if 'o' not in _CALIB:
        # calibrate on event 'a' with one instance per class, as in the runs
        found = {}
        for hashes in itertools.product(range(1, 40), repeat=3):
            if len(set(hashes)) < 3:
                continue
            seq = []
            d = desper.EventDispatcher()
            objs = []
            for i, klass in enumerate(CLASSES):
                o = klass.__new__(klass)
                o._h = hashes[i]
                o.idx = i
                o.ctx = _Probe(seq)
                objs.append(o)
                d.add_handler(o)
            d.dispatch('a')
            if tuple(seq) not in found:
                found[tuple(seq)] = hashes
                if len(found) == 6:
                    break
        if len(found) != 6:
            # the snapshot order cannot be steered on this tree: the family
            # is closed under relabelling of handlers (every assignment of
            # actions to handlers is explored), so one order still covers
            # every (position, action) combination up to isomorphism
            print(f'note: only {len(found)} of 6 listener orders reachable '
                  f'through __hash__ on this tree')
        _CALIB['o'] = found
    return _CALIB['o']


class _Probe:
    """Stand-in ctx used only while calibrating the listener order."""

    def __init__(self, seq):
        self.seq = seq
        self.frames = [{'got': _Appender(seq)}]
        self.actions = (None, None, None)


class _Appender:
    def __init__(self, seq):
        self.seq = seq

    def append(self, rec):
        self.seq.append(rec[0])


class Ctx:
    pass


class DispatchDriver:
    name = 'dispatch'

    def __init__(self, max_actions=3):
        self.max_actions = max_actions

    def params(self):
        return dict(max_non_trivial_actions=self.max_actions,
                    actions=[repr(a) for a in ACTIONS], names=NAMES,
                    shapes=len(SHAPES), orders=6)

    def initial(self):
        ctx = Ctx()
        ctx.driver = self
        ctx.hits = collections.Counter()
        ctx.d = desper.EventDispatcher()
        ctx.handlers = None
        ctx.actions = (None, None, None)
        ctx.registered = set()
        ctx.clears = 0
        ctx.frames = []
        ctx.config = None
        return ctx

    def ops(self, ctx):
        if ctx.config is None:
            out = []
            for acts in itertools.product(range(len(ACTIONS)), repeat=3):
                if sum(1 for a in acts if a) > self.max_actions:
                    continue
                # an action aimed at the handler itself only as 'remove'
                for order in sorted(orders()):
                    out.append(('config', acts, order))
            return out
        ops = []
        for i in range(3):
            if ctx.handlers[i] is None:
                continue        # dropped: the object no longer exists
            ops.append(('add', i))
            if i in ctx.registered:
                ops.append(('remove', i))
        for name in NAMES:
            for s in range(len(SHAPES)):
                ops.append(('dispatch', name, s))
        if ctx.registered and ctx.clears < 1:
            # clear() removes every handler at once: nobody is registered
            # afterwards, whoever registers again listens to its own events
            ops.append(('clear',))
        return ops

    # primitive steps shared by operations and scripted callbacks
    def do_add(self, ctx, i):
        if ctx.handlers[i] is None:
            return
        ctx.d.add_handler(ctx.handlers[i])
        ctx.registered.add(i)
        for fr in ctx.frames:
            fr['added'].add(i)

    def do_remove(self, ctx, i):
        if ctx.handlers[i] is None:
            return
        ctx.d.remove_handler(ctx.handlers[i])
        ctx.registered.discard(i)
        for fr in ctx.frames:
            fr['removed'].add(i)

    def do_drop(self, ctx, i, by=None):
        if ctx.handlers[i] is None or i == by:
            return      # a handler cannot lose its own last reference here
        ctx.handlers[i] = None
        if i in ctx.registered:
            ctx.hits['handler_dies_during_dispatch'] += 1
        ctx.registered.discard(i)
        for fr in ctx.frames:
            fr['removed'].add(i)
            fr['dead'].add(i)

    def do_dispatch(self, ctx, name, args, kwargs):
        frame = dict(name=name, args=args, kwargs=kwargs,
                     at_call=set(ctx.registered), added=set(), removed=set(),
                     dead=set(), got=[], depth=len(ctx.frames))
        ctx.frames.append(frame)
        try:
            result = ctx.d.dispatch(name, *args, **kwargs)
        except (HarnessError, Violation):
            raise
        except Exception as exc:
            raise Violation('dispatch_raised',
                            f'dispatch({name!r}, *{args}, **{kwargs}) raised '
                            f'{exc!r}', event=name)
        finally:
            ctx.frames.pop()
        del result
        self._judge(ctx, frame)

    def _judge(self, ctx, fr):
        name = fr['name']
        feats = dict(nested=fr['depth'] > 0,
                     reentrant=bool(fr['added'] or fr['removed']))
        counts = collections.Counter(r[0] for r in fr['got'])
        for idx, method, args, kwargs in fr['got']:
            want = MAPPING[idx].get(name)
            if want is None:
                raise Violation('calls_nothing_else',
                                f'dispatch({name!r}) called {method} of '
                                f'h{idx}, which does not listen to it',
                                **feats)
            if method != want:
                raise Violation('calls_mapped_method',
                                f'dispatch({name!r}) called h{idx}.{method}, '
                                f'mapping says {want}', **feats)
            if args != fr['args'] or kwargs != fr['kwargs']:
                raise Violation('exact_arguments',
                                f'dispatch({name!r}, *{fr["args"]}, '
                                f'**{fr["kwargs"]}) delivered *{args} '
                                f'**{kwargs} to h{idx}', **feats)
        for idx in range(3):
            listens = name in MAPPING[idx]
            n = counts.get(idx, 0)
            if idx in fr['at_call'] and listens:
                if idx in fr['removed']:
                    ok = n in (0, 1)
                else:
                    ok = n == 1
            elif idx in fr['added'] and listens:
                ok = n in (0, 1)
            else:
                ok = n == 0
            if not ok:
                raise Violation(
                    'delivered_exactly_once_per_listener',
                    f'dispatch({name!r}): h{idx} called {n} time(s); '
                    f'registered at call {sorted(fr["at_call"])}, removed '
                    f'meanwhile {sorted(fr["removed"])}, added meanwhile '
                    f'{sorted(fr["added"])}', times=min(n, 2),
                    was_registered=idx in fr['at_call'], **feats)
        if fr['got']:
            ctx.hits['delivery'] += 1
        if len(fr['args']) and fr['kwargs']:
            ctx.hits['args_and_kwargs'] += 1

    def apply(self, ctx, op):
        if op[0] == 'config':
            _, acts, order = op
            ctx.config = (tuple(acts), tuple(order))
            ctx.actions = tuple(ACTIONS[a] for a in acts)
            hashes = orders()[tuple(order)]
            ctx.handlers = []
            for i, klass in enumerate(CLASSES):
                h = klass(ctx, i)
                h._h = hashes[i]
                ctx.handlers.append(h)
            return
        if op[0] == 'add':
            if op[1] in ctx.registered:
                ctx.hits['double_registration'] += 1
            self.do_add(ctx, op[1])
        elif op[0] == 'remove':
            self.do_remove(ctx, op[1])
        elif op[0] == 'clear':
            ctx.d.clear()
            ctx.registered.clear()
            ctx.clears += 1
            ctx.hits['clear_then_register_again'] += 1
        elif op[0] == 'dispatch':
            _, name, s = op
            args, kwargs = SHAPES[s]
            if name == 'zz':
                ctx.hits['unknown_event'] += 1
            self.do_dispatch(ctx, name, args, dict(kwargs))

    def check(self, ctx):
        if ctx.handlers is None:
            return None
        for i, h in enumerate(ctx.handlers):
            if h is None:
                continue
            if ctx.d.is_handler(h) != (i in ctx.registered):
                raise Violation('is_handler_tracks_registration',
                                f'is_handler(h{i}) = {ctx.d.is_handler(h)}, '
                                f'registered {sorted(ctx.registered)}')
        return tuple(sorted(ctx.registered))

    def key(self, ctx):
        names = {}
        if ctx.handlers:
            names = {id(h): f'h{i}' for i, h in enumerate(ctx.handlers)
                     if h is not None}
        alive = tuple(h is not None for h in (ctx.handlers or ()))
        return (canon((ctx.d,), lambda o: names.get(id(o))), ctx.config,
                tuple(sorted(ctx.registered)), alive, ctx.clears)


# -- (a2) an *enabled* dispatcher that still holds a backlog ------------------
def run_backlog(case):
    """Events are queued while disabled; the release is aborted by a raising
    callback (or a callback dispatches during the release).  The dispatcher
    is enabled from then on, whatever is left in its queue: dispatch must
    deliver at once, exactly once, with exactly the arguments."""
    actor, action, queued, after, shape, order = case
    driver = DispatchDriver()
    ctx = driver.initial()
    driver.apply(ctx, ('config', (0, 0, 0), tuple(order)))
    for i in range(3):
        driver.do_add(ctx, i)
    ctx.d.dispatch_enabled = False
    for name in queued:
        ctx.d.dispatch(name, 'queued')
    acts = [None, None, None]
    acts[actor] = (action,)
    ctx.actions = tuple(acts)
    release = dict(name='<release>', args=(), kwargs={}, at_call=set(),
                   added=set(), removed=set(), dead=set(), got=[], depth=0)
    ctx.frames.append(release)
    aborted = False
    try:
        ctx.d.dispatch_enabled = True
    except Boom:
        aborted = True
    finally:
        ctx.frames.pop()
    hits = {'release_aborted_by_raise': 1} if aborted else {}
    if not ctx.d.dispatch_enabled:
        raise Violation('enabled_after_enabling',
                        f'{case}: dispatch_enabled is False after the '
                        f'enabling assignment')
    args, kwargs = SHAPES[shape]
    try:
        driver.do_dispatch(ctx, after, args, dict(kwargs))
    except Violation as v:
        v.features['backlog'] = True
        v.features['aborted_release'] = aborted
        raise
    hits['dispatch_on_enabled_dispatcher_with_history'] = 1
    return {'calls': 2, 'hits': hits, 'key': repr(case),
            'nontrivial': aborted}


def backlog_cases():
    out = []
    for actor in range(3):
        for action in ('raise', 'nested'):
            for n in (1, 2, 3):
                for queued in itertools.product(('a', 'b'), repeat=n):
                    if 'a' not in queued:
                        continue    # scripted callbacks act on event a
                    for after in ('a', 'b', 'c'):
                        for shape in (0, 5):
                            for order in sorted(orders()):
                                out.append((actor, action, queued, after,
                                            shape, order))
    return out


# -- (b) decorator programs ------------------------------------------------
POSITIONAL = ((), ('a',), ('b',), ('a', 'b'))
MAPPINGS = ((), (('a', 'x'),), (('c', 'y'),), (('a', 'x'), ('c', 'y')))


class Methods:
    """Event-less base providing every callback name used by the programs."""

    def _log(self, method, args):
        self.log.append((method, args))

    def a(self, *args):
        self._log('a', args)

    def b(self, *args):
        self._log('b', args)

    def x(self, *args):
        self._log('x', args)

    def y(self, *args):
        self._log('y', args)


class Mixin:
    pass


def programs(n):
    """(parents, decorations, mixins): parents[i] in {-1, 0..i-1}."""
    parent_choices = [range(-1, i) for i in range(n)]
    decos = list(itertools.product(range(4), range(4)))
    for parents in itertools.product(*parent_choices):
        for deco in itertools.product(decos, repeat=n):
            yield (n, parents, deco)


def run_program(case):
    n, parents, deco, mixin_at = case
    hits = {}
    classes = []
    expected = []
    decorators = {}
    calls = 0
    for i in range(n):
        pos = POSITIONAL[deco[i][0]]
        mapping = dict(MAPPINGS[deco[i][1]])
        if parents[i] < 0:
            bases = (Methods,)
            inherited = None
        else:
            bases = (classes[parents[i]],)
            inherited = expected[parents[i]]
        if mixin_at == i:
            bases = bases + (Mixin,)
            hits['mixin_base'] = 1
        cls = type(f'D{i}', bases, {})
        before = [(c, getattr(c, '__events__', None),
                   dict(getattr(c, '__events__', {}) or {})) for c in classes]
        # classes decorated with the same arguments share ONE decorator
        # object (`listens = event_handler('a'); @listens class X; @listens
        # class Y`): the decorator keeps nothing from one class to the next
        spec = (deco[i][0], deco[i][1])
        if spec in decorators:
            hits['decorator_object_applied_again'] = 1
        else:
            decorators[spec] = desper.event_handler(*pos, **mapping)
        ret = decorators[spec](cls)
        calls += 1
        if ret is not cls:
            raise Violation('decorator_returns_class', f'{case}')
        if not pos and not mapping:
            want = inherited
        else:
            want = dict(inherited or {})
            want.update({p: p for p in pos})
            want.update(mapping)
            if inherited:
                hits['extends_inherited'] = 1
                if set(want) & set(inherited) and any(
                        want[k] != inherited[k] for k in inherited):
                    hits['overrides_inherited'] = 1
        got = getattr(cls, '__events__', None)
        if (got is None) != (want is None) or (
                want is not None and dict(got) != want):
            raise Violation('events_composition',
                            f'program {case}: class {i} has __events__ {got}, '
                            f'expected {want}',
                            inherited=inherited is not None,
                            decorated=bool(pos or mapping))
        for c, obj, content in before:
            now = getattr(c, '__events__', None)
            if (now is None) != (obj is None) or (
                    now is not None and dict(now) != content):
                raise Violation('base_mapping_unchanged',
                                f'program {case}: decorating class {i} '
                                f'changed {c.__name__}.__events__ from '
                                f'{content} to {now}')
            if (pos or mapping) and obj is not None and got is obj:
                raise Violation('base_mapping_not_aliased',
                                f'program {case}: class {i} shares its '
                                f'__events__ object with {c.__name__}')
        classes.append(cls)
        expected.append(want)
    # dispatch through an instance of every class
    for i, cls in enumerate(classes):
        if expected[i] is None:
            continue
        d = desper.EventDispatcher()
        inst = cls()
        inst.log = []
        d.add_handler(inst)
        for name in ('a', 'b', 'c', 'zz'):
            inst.log.clear()
            d.dispatch(name, name.upper())
            calls += 1
            want = ([(expected[i][name], (name.upper(),))]
                    if name in expected[i] else [])
            if inst.log != want:
                raise Violation('dispatch_follows_composed_mapping',
                                f'program {case}: instance of class {i} '
                                f'received {inst.log} for {name!r}, expected '
                                f'{want}')
    return {'calls': calls, 'hits': hits, 'key': repr(case)}


def program_cases(n_max):
    out = []
    for n in range(1, n_max + 1):
        for (nn, parents, deco) in programs(n):
            out.append((nn, parents, deco, -1))
    # mixins: an event-less extra base at each position, smaller family
    for n in range(1, min(n_max, 3) + 1):
        for (nn, parents, deco) in programs(n):
            for at in range(n):
                out.append((nn, parents, deco, at))
    return out


def drivers(tier):
    if tier == 'quick':
        return {'dispatch': (DispatchDriver(max_actions=2),
                             dict(max_states=400000, time_budget=400))}
    return {'dispatch': (DispatchDriver(max_actions=3),
                         dict(max_states=3000000, time_budget=3000))}


def run(tier, rep):
    rep.rule = RULE
    rep.assumptions += [
        'a handler removed or added by an earlier callback of the same '
        'dispatch may receive that event zero times or once',
        'handlers compare by identity (value-based __eq__ / unhashable '
        'handlers are outside the alphabet)',
        'two bases that both carry events are outside the alphabet (Python '
        'attribute inheritance already makes the first base win)',
        'remove_handler of a handler that is not registered is not exercised',
    ]
    rep.require_hits(handler_dies_during_dispatch=1,
                     double_registration=1, unknown_event=1,
                     reentrant_remove=1, reentrant_add=1, reentrant_nested=1,
                     args_and_kwargs=1, extends_inherited=1,
                     overrides_inherited=1, mixin_base=1,
                     clear_then_register_again=1,
                     decorator_object_applied_again=1)
    orders()
    for name, (driver, kw) in drivers(tier).items():
        kernel.explore(driver, rep, part=name, params=driver.params(), **kw)
    rep.require_hits(release_aborted_by_raise=1,
                     dispatch_on_enabled_dispatcher_with_history=1)
    kernel.enumerate_cases(run_backlog, backlog_cases(), rep,
                           'enabled-with-backlog', chunk=200)
    n_max = 3 if tier == 'quick' else 4
    kernel.enumerate_cases(run_program, program_cases(n_max), rep,
                           'decorator-programs', chunk=500,
                           params=dict(max_classes=n_max))


def replay(rec):
    if rec['part'] == 'enabled-with-backlog':
        orders()
        try:
            run_backlog(kernel.totuple(rec['case']))
        except Violation as v:
            return v
        return None
    if rec['part'] == 'decorator-programs':
        try:
            run_program(kernel.totuple(rec['case']))
        except Violation as v:
            return v
        return None
    for tier in ('thorough', 'quick'):
        ds = drivers(tier)
        if rec['part'] in ds:
            return kernel.replay_case(ds[rec['part']][0], rec['case'])
    raise SystemExit(f'unknown part {rec["part"]}')
