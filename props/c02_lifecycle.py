"""C02 - component lifecycle callbacks fire exactly once per attach/detach."""
from mc import kernel
from props.worldlib import WorldDriver

RULE = ('E1 breadth-first search over World operation histories interleaved '
        'with dispatch_enabled toggles on the real World; per-instance '
        'callback ledger compared after every transition with the attach / '
        'detach events of a table model (postponed groups as a FIFO while '
        'disabled); is_handler of every handler instance ever created and a '
        'probe event are evaluated in every reached state.  Non-trivial = '
        'reached through same-type replacement, postponement, release of '
        'postponed callbacks, clear, deferred deletion.')


def drivers(tier):
    d = {}
    if tier == 'quick':
        d['toggle-fixpoint'] = (WorldDriver(
            'toggle-fixpoint', own='L', types=('H', 'P', 'N'), ids=(1, 2),
            explicit_ids=(1,), max_autos=1, toggles=True, max_postponed=2,
            shapes=((), ('H',), ('P',), ('H', 'P'))), {})
    else:
        d['toggle-fixpoint'] = (WorldDriver(
            'toggle-fixpoint', own='L', types=('H', 'P', 'N', 'OA'),
            ids=(1, 2), explicit_ids=(1, 2), max_autos=1, toggles=True,
            max_postponed=3,
            shapes=((), ('H',), ('P',), ('OA',), ('H', 'P'), ('H', 'N'))),
            dict(max_states=400000))
        d['subclass-handlers'] = (WorldDriver(
            'subclass-handlers', own='L', types=('H', 'HB', 'OA'),
            ids=(1, 2), explicit_ids=(1,), max_autos=1, toggles=True,
            max_postponed=2,
            shapes=((), ('H',), ('HB',), ('H', 'HB'))),
            dict(max_states=400000))
    return d


def run(tier, rep):
    rep.rule = RULE
    rep.assumptions += [
        'clear() while dispatching is disabled is outside the alphabet: '
        'EventDispatcher.clear documents that pending events are lost, which '
        'contradicts "postponed rather than lost"; neither reading is imposed',
        'order of callbacks within one operation touching several components '
        'is free',
        'the harness keeps every component alive (C10 covers the weak side)',
    ]
    rep.require_hits(replace_same_type=1, postponed=1, release_postponed=1,
                     clear=1, process_with_pending=1)
    for name, (driver, kw) in drivers(tier).items():
        kernel.explore(driver, rep, part=name, params=driver.params(), **kw)


def replay(rec):
    for tier in ('thorough', 'quick'):
        ds = drivers(tier)
        if rec['part'] in ds:
            return kernel.replay_case(ds[rec['part']][0], rec['case'])
    raise SystemExit(f'unknown part {rec["part"]}')
