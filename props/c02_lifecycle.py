"""C02 - component lifecycle callbacks fire exactly once per attach/detach."""
import collections
import itertools

from mc import kernel
from mc.report import Violation, Lookalike
from props.worldlib import WorldDriver

import desper

RULE = ('E1 breadth-first search over World operation histories interleaved '
        'with dispatch_enabled toggles on the real World; per-instance '
        'callback ledger compared after every transition with the attach / '
        'detach events of a table model (postponed groups as a FIFO while '
        'disabled); is_handler of every handler instance ever created and a '
        'probe event are evaluated in every reached state.  Non-trivial = '
        'reached through same-type replacement, postponement, release of '
        'postponed callbacks, clear, deferred deletion.  Second part (E2): '
        'every sequence of <= 3 lifecycle operations performed while '
        'disabled x a raise or a re-disable-and-attach injected at every '
        'delivery position of the release (<= 2 faults), re-enabled until '
        'the backlog is gone: every postponed callback exactly once, in '
        'operation order.')


def drivers(tier):
    d = {}
    if tier == 'quick':
        d['toggle-fixpoint'] = (WorldDriver(
            'toggle-fixpoint', own='L', types=('H', 'P', 'N'), ids=(1, 2),
            explicit_ids=(1,), max_autos=1, toggles=True, max_postponed=2,
            readd=True,
            shapes=((), ('H',), ('P',), ('H', 'P'), ('H', 'H'))),
            dict(max_states=250000, time_budget=240))
        # a lifecycle callback that itself disables dispatching
        d['callback-disables'] = (WorldDriver(
            'callback-disables', own='L', types=('H', 'HZ', 'HY'), ids=(1,),
            explicit_ids=(1,), max_autos=1, toggles=True, max_postponed=2,
            shapes=((), ('H',), ('HZ',), ('H', 'HZ'), ('HZ', 'H'), ('HY',),
                    ('H', 'HY'), ('HY', 'H')),
            coarse=False),
            dict(max_states=250000, time_budget=240))
        # a one-shot handler that detaches itself from inside its on_add
        d['one-shot'] = (WorldDriver(
            'one-shot', own='L', types=('H', 'HS'), ids=(1,),
            explicit_ids=(1,), max_autos=1, toggles=True, max_postponed=2,
            shapes=((), ('H',), ('HS',), ('H', 'HS'), ('HS', 'H')),
            coarse=False),
            dict(max_states=250000, time_budget=240))
    else:
        d['one-shot'] = (WorldDriver(
            'one-shot', own='L', types=('H', 'HS'), ids=(1, 2),
            explicit_ids=(1,), max_autos=1, toggles=True, max_postponed=2,
            shapes=((), ('H',), ('HS',), ('H', 'HS'), ('HS', 'H')),
            coarse=False),
            dict(max_states=600000, time_budget=1200))
        d['callback-disables'] = (WorldDriver(
            'callback-disables', own='L', types=('H', 'HZ'), ids=(1, 2),
            explicit_ids=(1,), max_autos=1, toggles=True, max_postponed=2,
            shapes=((), ('H',), ('HZ',), ('H', 'HZ'), ('HZ', 'H')),
            coarse=False),
            dict(max_states=600000, time_budget=1200))
        d['callback-disables-on-add'] = (WorldDriver(
            'callback-disables-on-add', own='L', types=('H', 'HY'),
            ids=(1, 2), explicit_ids=(1,), max_autos=1, toggles=True,
            max_postponed=2,
            shapes=((), ('H',), ('HY',), ('H', 'HY'), ('HY', 'H')),
            coarse=False),
            dict(max_states=600000, time_budget=1200))
        d['callback-disables-both'] = (WorldDriver(
            'callback-disables-both', own='L', types=('H', 'HZ', 'HY'),
            ids=(1,), explicit_ids=(1,), max_autos=1, toggles=True,
            max_postponed=2,
            shapes=((), ('H',), ('HZ',), ('H', 'HZ'), ('HZ', 'H'), ('HY',),
                    ('H', 'HY'), ('HY', 'H'), ('HY', 'HZ')),
            coarse=False),
            dict(max_states=600000, time_budget=1200))
        d['toggle-fixpoint'] = (WorldDriver(
            'toggle-fixpoint', own='L', types=('H', 'P', 'N', 'OA'),
            ids=(1, 2), explicit_ids=(1,), max_autos=1, toggles=True,
            max_postponed=2, readd=True,
            shapes=((), ('H',), ('P',), ('OA',), ('H', 'P'), ('H', 'N'),
                    ('H', 'H'), ('P', 'P'))),
            dict(max_states=1500000, time_budget=1200))
        d['subclass-handlers'] = (WorldDriver(
            'subclass-handlers', own='L', types=('H', 'HB', 'OA'),
            ids=(1, 2), explicit_ids=(1,), max_autos=1, toggles=True,
            max_postponed=2,
            shapes=((), ('H',), ('HB',), ('H', 'HB'))),
            dict(max_states=400000))
    return d


# -- E2: faults injected while postponed lifecycle callbacks are released ----
class Stop(Lookalike):
    """Stands for Quit / SwitchWorld raised from a lifecycle callback."""


class Env:
    pass


@desper.event_handler('on_add', 'on_remove')
class HC:
    def __init__(self, envx, label):
        self.envx = envx
        self.label = label

    def __hash__(self):
        # deterministic (labels are strings, PYTHONHASHSEED is fixed): the
        # iteration order of desper's listener sets must not depend on
        # object addresses, or replays of one history could differ
        return hash(self.label)

    def _got(self, event, entity, world):
        envx = self.envx
        pos = len(envx.log)
        envx.log.append((self.label, event, entity, world is envx.world))
        fault = envx.plan.get(pos)
        if fault == 'raise':
            envx.fired.append((pos, fault))
            raise Stop()
        if fault == 'redisable_attach':
            # the callback disables dispatching again and attaches one more
            # component: its on_add is postponed *behind* the backlog
            envx.fired.append((pos, fault))
            world.dispatch_enabled = False
            extra = HC(envx, f'late{pos}')
            envx.keep.append(extra)
            # (its own entity: two such faults must not replace each other)
            world.add_component(100 + pos, extra)
            envx.groups.append(len(envx.expected))
            envx.expected.append((extra.label, 'on_add', 100 + pos, True))

    def on_add(self, entity, world):
        self._got('on_add', entity, world)

    def on_remove(self, entity, world):
        self._got('on_remove', entity, world)


LIFE_OPS = ('add1', 'add2', 'remove1', 'replace1', 'create', 'delete1_now')


def run_release_case(case):
    ops, plan = case
    envx = Env()
    envx.log = []
    envx.plan = {}
    envx.fired = []
    envx.keep = []
    envx.expected = []
    envx.groups = []     # start index of each operation's callbacks
    w = envx.world = desper.World()
    first = HC(envx, 'first')
    envx.keep.append(first)
    w.add_component(1, first)
    attached = {1: first}
    envx.log.clear()
    w.dispatch_enabled = False
    n = 0
    for op in ops:
        n += 1
        if op in ('add1', 'add2', 'replace1', 'create'):
            ent = {'add1': 1, 'add2': 2, 'replace1': 1, 'create': 3}[op]
            comp = HC(envx, f'c{n}')
            envx.keep.append(comp)
            old = attached.get(ent)
            if op == 'create':
                w.create_entity(comp, entity_id=ent)
            else:
                w.add_component(ent, comp)
            envx.groups.append(len(envx.expected))
            if old is not None:
                envx.expected.append((old.label, 'on_remove', ent, True))
            attached[ent] = comp
            envx.expected.append((comp.label, 'on_add', ent, True))
        elif op == 'remove1' and 1 in attached:
            w.remove_component(1, HC)
            envx.groups.append(len(envx.expected))
            envx.expected.append((attached.pop(1).label, 'on_remove', 1,
                                  True))
        elif op == 'delete1_now' and 1 in attached:
            w.delete_entity(1, immediate=True)
            envx.groups.append(len(envx.expected))
            envx.expected.append((attached.pop(1).label, 'on_remove', 1,
                                  True))
    if envx.log:
        raise Violation('nothing_called_while_disabled', f'{case}: {envx.log}')
    envx.plan = dict(plan)
    hits = {}
    for attempt in range(len(envx.expected) + 4):
        try:
            w.dispatch_enabled = True
        except Stop:
            hits['raise_during_release'] = 1
        except Exception as exc:
            raise Violation('enable_raised', f'{case}: {exc!r}')
        if w.dispatch_enabled and len(envx.log) >= len(envx.expected):
            break
    for _, kind in envx.fired:
        hits['fault_' + kind] = 1
    feats = dict(faults=sorted({k for _, k in envx.fired}))
    if sorted(envx.log) != sorted(envx.expected):
        missing = [x[:3] for x in envx.expected if x not in envx.log]
        extra = [x[:3] for x in envx.log if x not in envx.expected]
        raise Violation('postponed_callbacks_exactly_once',
                        f'{case}: delivered {[x[:3] for x in envx.log]}, '
                        f'expected {[x[:3] for x in envx.expected]} (missing '
                        f'{missing}, unexpected or repeated {extra})',
                        lost=bool(missing), **feats)
    bounds = envx.groups + [len(envx.expected)]
    in_order = all(sorted(envx.log[a:b]) == sorted(envx.expected[a:b])
                   for a, b in zip(bounds, bounds[1:]))
    if not in_order:
        raise Violation('postponed_callbacks_in_operation_order',
                        f'{case}: delivered {[x[:3] for x in envx.log]}, '
                        f'operation order {[x[:3] for x in envx.expected]}',
                        **feats)
    return {'calls': len(ops) + 1, 'hits': hits, 'key': repr(case),
            'nontrivial': bool(envx.fired)}


def release_cases(tier):
    out = []
    max_ops = 2 if tier == 'quick' else 3
    for n in range(1, max_ops + 1):
        for ops in itertools.product(LIFE_OPS, repeat=n):
            npos = 2 * n + 1
            plans = [()]
            for pos in range(npos):
                for kind in ('raise', 'redisable_attach'):
                    plans.append(((pos, kind),))
            if tier == 'thorough':
                for p1, p2 in itertools.combinations(range(npos), 2):
                    for k1, k2 in itertools.product(
                            ('raise', 'redisable_attach'), repeat=2):
                        plans.append(((p1, k1), (p2, k2)))
            for plan in plans:
                out.append((ops, plan))
    return out


# -- E3: a component that moves itself to another entity in its on_remove -----
@desper.event_handler('on_add', 'on_remove', 'ping')
class Mover:
    """on_remove attaches the component to the entity named in its plan (a
    callback may call back into the world): detached from one entity and
    attached to another, it is a listener again."""

    def __init__(self, envx, label):
        self.envx = envx
        self.label = label
        self.target = None

    def __hash__(self):
        return hash(self.label)

    def on_add(self, entity, world):
        self.envx.log.append((self.label, 'on_add', entity))

    def on_remove(self, entity, world):
        self.envx.log.append((self.label, 'on_remove', entity))
        if self.target is not None:
            target, self.target = self.target, None
            world.add_component(target, self)

    def ping(self, token):
        self.envx.log.append((self.label, 'ping', token))


MOVE_HOWS = ('remove', 'delete_now', 'deferred', 'replace_add',
             'replace_create', 'clear_other_first')


def move_cases():
    return [(how, disabled, target_owns)
            for how in MOVE_HOWS for disabled in (0, 1)
            for target_owns in ('nothing', 'plain', 'mover')]


def run_move_case(case):
    how, disabled, target_owns = case
    envx = Env()
    envx.log = []
    w = desper.World()
    m = Mover(envx, 'm')
    other = Mover(envx, 'o')
    plain = type('Plain', (), {})()
    w.create_entity(m, entity_id=1)
    if target_owns == 'plain':
        w.create_entity(plain, entity_id=2)
    elif target_owns == 'mover':
        w.create_entity(other, entity_id=2)
    m.target = 2
    if disabled:
        w.dispatch_enabled = False
    del envx.log[:]
    try:
        if how == 'remove':
            w.remove_component(1, Mover)
        elif how == 'delete_now':
            w.delete_entity(1, immediate=True)
        elif how == 'deferred':
            w.delete_entity(1)
            w.process(0.5)
        elif how == 'replace_add':
            w.add_component(1, Mover(envx, 'new'))
        elif how == 'replace_create':
            w.create_entity(Mover(envx, 'new'), entity_id=1)
        else:
            w.create_entity(plain, entity_id=3)
            w.delete_entity(3, immediate=True)
            w.remove_component(1, Mover)
        if disabled:
            w.dispatch_enabled = True
    except Exception as exc:
        raise Violation('op_raised', f'{case}: {exc!r}', op=how)
    # m was detached from entity 1 and (by its own callback) attached to 2
    owners = [e for e, c in w.get(Mover) if c is m]
    counts = collections.Counter((r[0], r[1]) for r in envx.log)
    if owners != [2]:
        raise Violation('moved_component_is_attached',
                        f'{case}: m is attached to {owners}, its on_remove '
                        f'attached it to entity 2; log {envx.log}', how=how)
    if counts[('m', 'on_remove')] != 1 or counts[('m', 'on_add')] != 1:
        raise Violation('callbacks_exactly_once',
                        f'{case}: m got on_remove x'
                        f'{counts[("m", "on_remove")]} and on_add x'
                        f'{counts[("m", "on_add")]} for one detach and one '
                        f'attach; log {envx.log}', op=how,
                        missing=[], extra=[])
    if target_owns == 'mover' and (counts[('o', 'on_remove')] != 1
                                   or w.is_handler(other)):
        raise Violation('registered_exactly_while_attached',
                        f'{case}: the component m replaced on entity 2 got '
                        f'on_remove x{counts[("o", "on_remove")]}, '
                        f'is_handler = {w.is_handler(other)}',
                        kind='Mover', stale=True)
    del envx.log[:]
    w.dispatch('ping', 7)
    heard = sorted(r[0] for r in envx.log if r[1] == 'ping')
    want = sorted(c.label for e, c in w.get(Mover))
    if not w.is_handler(m) or heard != want:
        raise Violation(
            'registered_exactly_while_attached',
            f'{case}: after its on_remove attached it to entity 2, '
            f'is_handler(m) = {w.is_handler(m)}; a probe event reached '
            f'{heard}, attached listeners are {want}', kind='Mover',
            stale=False, moved_by_its_own_on_remove=True)
    return {'calls': 4, 'hits': {'component_moves_itself_in_on_remove': 1},
            'key': repr(case)}


def run(tier, rep):
    rep.rule = RULE
    rep.assumptions += [
        'clear() while dispatching is disabled is outside the alphabet: '
        'EventDispatcher.clear documents that pending events are lost, which '
        'contradicts "postponed rather than lost"; neither reading is imposed',
        'order of callbacks within one operation touching several components '
        'is free',
        'the harness keeps every component alive (C10 covers the weak side)',
    ]
    rep.require_hits(callback_disables_dispatching=1,
                     one_shot_removes_itself=1,
                     replace_same_type=1, postponed=1, release_postponed=1,
                     clear=1, process_with_pending=1,
                     readd_attached_instance=1)
    for name, (driver, kw) in drivers(tier).items():
        kernel.explore(driver, rep, part=name, params=driver.params(), **kw)
    rep.require_hits(component_moves_itself_in_on_remove=1)
    kernel.enumerate_cases(run_move_case, move_cases(), rep,
                           'moves-itself-on-remove',
                           params=dict(how=MOVE_HOWS,
                                       target_owns=('nothing', 'plain',
                                                    'mover')))
    rep.require_hits(fault_raise=1, fault_redisable_attach=1)
    kernel.enumerate_cases(run_release_case, release_cases(tier), rep,
                           'release-faults',
                           params=dict(ops=LIFE_OPS,
                                       faults=('raise', 'redisable_attach')))


def replay(rec):
    if rec['part'] == 'moves-itself-on-remove':
        try:
            run_move_case(kernel.totuple(rec['case']))
        except Violation as v:
            return v
        return None
    if rec['part'] == 'release-faults':
        try:
            run_release_case(kernel.totuple(rec['case']))
        except Violation as v:
            return v
        return None
    for tier in ('thorough', 'quick'):
        ds = drivers(tier)
        if rec['part'] in ds:
            return kernel.replay_case(ds[rec['part']][0], rec['case'])
    raise SystemExit(f'unknown part {rec["part"]}')
