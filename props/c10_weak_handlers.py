"""C10 - handlers are held weakly and never called after they are gone (E2)."""
import gc
import itertools
import weakref

from mc import env  # noqa: F401
from mc import kernel
from mc.report import Violation, HarnessError, Lookalike
from props.displib import Ordered, calibrate

import desper

RULE = ('E2: k <= 3 listeners of one event on an EventDispatcher, and k '
        'components on a World that owns the only strong reference; every '
        'subset dropped between operations; inside the dispatch every '
        'callback performs one action of the full menu (nothing / drop or '
        'remove / immediately delete / deferred-delete listener j, for every '
        'j including itself): the complete product of actions x every one of '
        'the k! listener iteration orders (hash-controlled and observed), '
        'followed by a process() and a second dispatch.  A case is distinct '
        'by (variant, k, actions, order, pre-dropped set); non-trivial when a '
        'listener disappears during the dispatch.')

_CALIB = {}


class Env:
    pass


def _go(self, token):
    calib = getattr(self, '_calib', None) if self is not None else None
    if calib is not None:
        calib[0].append(calib[1])
        return
    if self is None:
        _go.env.none_calls += 1
        return
    envx = self.envx
    envx.log.append(self.idx)
    if envx.armed:
        action = envx.actions[self.idx]
        if action is not None:
            envx.act(action)


class HalfW(Ordered):
    """Registration fails half-way: 'go' is wired, then the second mapping
    names a missing method.  The program catches the error and drops it."""
    __events__ = {'go': 'go', 'zz': 'no_such_method'}
    _h = 977

    def go(self, token=None):
        _go(self, token)


@desper.event_handler('go')
class W(Ordered):
    """Listener for the plain dispatcher variant."""

    def __init__(self, envx, idx):
        self.envx = envx
        self.idx = idx

    def go(self, token=None):
        _go(self, token)

    def __bool__(self):     # a live listener may be falsy
        return getattr(self, 'idx', 0) % 2 == 0


def _make_component_class(i):
    @desper.event_handler('go')
    class WC(Ordered):
        def __init__(self, envx, idx):
            self.envx = envx
            self.idx = idx

        def go(self, token=None):
            _go(self, token)

        def __bool__(self):
            return getattr(self, 'idx', 0) % 2 == 0
    WC.__name__ = WC.__qualname__ = f'WC{i}'
    return WC


WCS = [_make_component_class(0)] * 3


def calibration(variant, k):
    key = (variant, k)
    if key not in _CALIB:
        klass = W if variant == 'dispatcher' else WCS[0]
        found = calibrate(klass, k)
        _CALIB[key] = found
    return _CALIB[key]


def menu(variant, k):
    acts = [None]
    kinds = ('drop',) if variant == 'dispatcher' else ('remove', 'delete_now',
                                                        'delete')
    for kind in kinds:
        for j in range(k):
            acts.append((kind, j))
    return acts


def run_case(case):
    variant, k, actions, order, premask = case
    half = '+half' in variant
    deferred = '+deferred' in variant
    variant = variant.split('+')[0]
    actions = [tuple(a) if a is not None else None for a in actions]
    order = tuple(order)
    calib = calibration(variant, k)
    if order not in calib:
        raise HarnessError(f'order {order} was not reachable in calibration')
    hashes = calib[order]
    hits = {}
    envx = Env()
    envx.log = []
    envx.none_calls = 0
    envx.actions = actions
    envx.armed = False
    envx.gone_at = {}
    _go.env = envx
    feats = dict(variant=variant)

    if variant == 'dispatcher':
        d = desper.EventDispatcher()
        if half:
            ghost = HalfW()
            try:
                d.add_handler(ghost)
            except AttributeError:
                hits['half_registered_then_dropped'] = 1
            del ghost
        holder = {}
        refs = []
        for i in range(k):
            o = W(envx, i)
            o._h = hashes[i]
            holder[i] = o
            refs.append(weakref.ref(o))
            d.add_handler(o)
        del o

        def drop(j):
            if j in holder:
                envx.gone_at.setdefault(j, len(envx.log))
            holder.pop(j, None)

        def act(action):
            drop(action[1])
        attached = lambda j: j in holder     # noqa: E731
        process = lambda: None               # noqa: E731
    else:
        d = desper.World()
        refs = []
        ents = []
        for i in range(k):
            o = WCS[i](envx, i)
            o._h = hashes[i]
            refs.append(weakref.ref(o))
            ents.append(d.create_entity(o))
        del o
        state = {'gone': set(), 'doomed': set()}

        def drop(j):
            if j not in state['gone']:
                envx.gone_at.setdefault(j, len(envx.log))
                d.remove_component(ents[j], WCS[j])
                state['gone'].add(j)

        def act(action):
            kind, j = action
            if j in state['gone']:
                return
            if kind == 'remove':
                drop(j)
            elif kind == 'delete_now':
                envx.gone_at.setdefault(j, len(envx.log))
                d.delete_entity(ents[j], immediate=True)
                state['gone'].add(j)
            elif kind == 'delete':
                d.delete_entity(ents[j])
                state['doomed'].add(j)
        attached = lambda j: j not in state['gone']      # noqa: E731

        def process():
            d.process(0)
            state['gone'] |= state['doomed']
            state['doomed'].clear()
    envx.act = act

    def dispatch(label):
        envx.log = []
        envx.gone_at = {}
        try:
            if deferred and label == 'first':
                # the event is posted while dispatching is disabled and
                # released by the enabling assignment
                d.dispatch_enabled = False
                d.dispatch('go', label)
                if envx.log:
                    raise Violation('nothing_called_while_disabled',
                                    f'{envx.log}', **feats)
                hits['released_by_enabling'] = 1
                d.dispatch_enabled = True
            else:
                d.dispatch('go', label)
        except Exception as exc:
            raise Violation('dispatch_raises_nothing',
                            f'{label} dispatch raised {exc!r} (case {case})',
                            **feats)
        if envx.none_calls:
            raise Violation('no_callback_with_missing_receiver',
                            f'{envx.none_calls} callback(s) ran with receiver '
                            f'None during the {label} dispatch; actions '
                            f'{actions}, order {order}', **feats)
        late = [j for j, at in envx.gone_at.items() if j in envx.log[at:]]
        if late:
            raise Violation(
                'never_called_after_it_is_gone',
                f'{label} dispatch: listener(s) {late} were called after '
                f'their last strong reference had been dropped by an earlier '
                f'callback (log {envx.log}, gone at {envx.gone_at}); actions '
                f'{actions}, order {order}', **feats)
        return list(envx.log)

    def check_dead(when):
        if any(refs[j]() is not None and not attached(j) for j in range(k)):
            gc.collect()    # rule out a harness-side reference cycle
        for j in range(k):
            alive = refs[j]() is not None
            if alive and not attached(j):
                raise Violation('dropped_handler_is_released',
                                f'{when}: listener {j} has no strong '
                                f'reference left but is still alive', **feats)
            if not alive and attached(j):
                raise HarnessError(f'{when}: listener {j} died while attached')

    # drop a subset between operations
    for j in range(k):
        if premask >> j & 1:
            drop(j)
            hits['dropped_between_operations'] = 1
    check_dead('after dropping between operations')
    alive0 = [j for j in range(k) if attached(j)]

    envx.armed = True
    log = dispatch('first')
    envx.armed = False
    if len(log) != len(set(log)):
        raise Violation('delivered_at_most_once', f'first dispatch: {log}',
                        **feats)
    if not set(log) <= set(alive0):
        raise Violation('dropped_handler_not_called',
                        f'first dispatch reached {log}, registered {alive0}',
                        **feats)
    survivors = [j for j in range(k) if attached(j)]
    missing = [j for j in survivors if j not in log]
    if missing:
        raise Violation('surviving_listener_called_once',
                        f'first dispatch reached {log}; {missing} stayed '
                        f'attached but were not called', **feats)
    if len(survivors) < len(alive0):
        hits['disappeared_during_dispatch'] = 1
        gone_before_reached = [j for j in alive0 if j not in survivors
                               and j not in log]
        if gone_before_reached:
            hits['gone_before_being_reached'] = 1
    if premask == 0 and len(log) == k == 3:
        hits['order_' + ''.join(map(str, log))] = 1
        if tuple(log) != order:
            hits['order_differs_from_calibration'] = 1
    check_dead('after the first dispatch')
    process()
    check_dead('after process')
    survivors = [j for j in range(k) if attached(j)]
    log2 = dispatch('second')
    if sorted(log2) != survivors:
        raise Violation('later_dispatch_reaches_exactly_survivors',
                        f'second dispatch reached {log2}, survivors '
                        f'{survivors}', **feats)
    # the dispatcher alone keeps nothing alive
    if variant == 'dispatcher':
        holder.clear()
        gc.collect()
        if any(r() is not None for r in refs):
            raise Violation('dropped_handler_is_released',
                            'dispatcher keeps a handler alive', **feats)
        if dispatch('third'):
            raise Violation('later_dispatch_reaches_exactly_survivors',
                            'third dispatch reached dead handlers', **feats)
    return {'calls': 3, 'hits': hits, 'key': repr(case),
            'nontrivial': 'disappeared_during_dispatch' in hits}


# -- E3: a dropped handler leaves the dispatcher as a removed one does --------
@desper.event_handler('go')
class Late(Ordered):
    def __init__(self, envx, idx):
        self.envx = envx
        self.idx = idx

    def go(self, token=None):
        self.envx.log.append((token, self.idx))


TWIN_OPS = ('disable', 'enable', 'dispatch', 'add')


def twin_cases(tier):
    out = []
    n = 4 if tier == 'quick' else 5
    for k in (1, 2):
        for mask in range(1, 1 << k):
            for length in range(1, n + 1):
                for seq in itertools.product(TWIN_OPS, repeat=length):
                    if seq.count('add') > 1 or 'dispatch' not in seq:
                        continue
                    out.append((k, mask, seq))
    return out


def run_twin(case):
    """Two dispatchers with the same listeners; in one the listeners of
    ``mask`` lose their last reference, in the other they are removed with
    remove_handler.  The same later history (disable / dispatch / a new
    listener / enable) must be delivered alike: a handler that is gone "is
    no longer registered and later dispatches work normally"."""
    k, mask, seq = case
    logs = []
    hits = {}
    for mode in ('drop', 'remove'):
        envx = Env()
        envx.log = []
        d = desper.EventDispatcher()
        objs = []
        for i in range(k):
            o = Late(envx, i)
            o._h = i + 1
            objs.append(o)
            d.add_handler(o)
        del o
        for j in range(k):
            if mask >> j & 1:
                if mode == 'drop':
                    objs[j] = None
                else:
                    d.remove_handler(objs[j])
        keep = []
        n = 0
        enabled = True
        listeners = k - bin(mask).count('1')
        free = set()    # tokens dispatched, disabled, with nobody listening
        try:
            for op in seq:
                if op == 'disable':
                    d.dispatch_enabled = enabled = False
                elif op == 'enable':
                    d.dispatch_enabled = enabled = True
                elif op == 'dispatch':
                    n += 1
                    if not enabled:
                        hits['dispatch_while_disabled_after_drop'] = 1
                        if not listeners:
                            free.add(n)
                    d.dispatch('go', n)
                elif op == 'add':
                    late = Late(envx, 9)
                    late._h = 99
                    keep.append(late)
                    d.add_handler(late)
                    listeners += 1
                    if not enabled and n:
                        hits['listener_added_over_a_backlog'] = 1
            d.dispatch_enabled = True
            d.dispatch('go', 'last')
        except Exception as exc:
            raise Violation('dispatch_raises_nothing',
                            f'{case} ({mode}): {exc!r}', variant='twin')
        # an event dispatched while disabled when nobody listened may be
        # held or dropped (C04): its deliveries are set aside
        logs.append(sorted((r for r in envx.log if r[0] not in free),
                           key=repr))
        del objs, keep
    if logs[0] != logs[1]:
        raise Violation(
            'dropped_handler_leaves_dispatcher_as_removed_one',
            f'{case}: with the listeners of mask {mask} dropped the later '
            f'deliveries (token, listener) are {logs[0]}; with the same '
            f'listeners removed by remove_handler they are {logs[1]}',
            variant='twin')
    return {'calls': len(seq) + 2, 'hits': hits, 'key': repr(case)}


# -- E3: nothing of a dropped handler stays behind ------------------------------
def leak_cases():
    out = []
    for variant in ('dispatcher', 'world'):
        for per_cycle in (1, 2):
            for between in ('nothing', 'dispatch', 'toggle'):
                out.append((variant, per_cycle, between))
    return out


def run_leak(case):
    """k cycles of: register fresh listeners, dispatch, drop them.  What is
    reachable from the dispatcher afterwards (generic object graph, dead
    weak references included) must not depend on k: a registration that
    outlives its handler is a handler that is still registered."""
    from mc.canon import canon, digest
    variant, per_cycle, between = case
    keys = {}
    for cycles in (1, 2, 6):
        envx = Env()
        envx.log = []
        d = desper.EventDispatcher() if variant == 'dispatcher' \
            else desper.World()
        for _ in range(cycles):
            objs = []
            for i in range(per_cycle):
                o = Late(envx, i)
                o._h = i + 1
                objs.append(o)
                d.add_handler(o)
            d.dispatch('go', 0)
            del o
            del objs[:]
            gc.collect()
            if between == 'dispatch':
                d.dispatch('go', 1)
            elif between == 'toggle':
                d.dispatch_enabled = False
                d.dispatch('go', 2)
                d.dispatch_enabled = True
        keys[cycles] = digest(canon((d,)))
    if len(set(keys.values())) != 1:
        raise Violation(
            'dropped_handler_leaves_nothing_behind',
            f'{case}: the object graph reachable from the dispatcher after '
            f'1, 2 and 6 register / dispatch / drop cycles differs '
            f'({[k for k in keys]} -> {len(set(keys.values()))} distinct '
            f'graphs): registrations of dead handlers pile up',
            variant=variant)
    return {'calls': 9, 'hits': {'register_drop_cycles': 1},
            'key': repr(case)}


# -- E2: components removed while dispatching is disabled ---------------------
def _make_removal_class():
    @desper.event_handler('on_remove')
    class WR(Ordered):
        def __init__(self, envx, idx):
            self.envx = envx
            self.idx = idx

        def on_remove(self, entity, world):
            envx = self.envx
            envx.log.append(self.idx)
            if envx.plan.get(self.idx) == 'raise' and self.idx not in envx.fired:
                envx.fired.add(self.idx)
                raise Stop(f'on_remove of {self.idx}')

        def __bool__(self):
            return getattr(self, 'idx', 0) % 2 == 0
    return WR


class Stop(Lookalike):
    """Stands for Quit / SwitchWorld raised from a callback."""


WR = _make_removal_class()


def removal_cases(tier):
    out = []
    for k in (1, 2, 3):
        for mask in range(1, 1 << k):
            members = [j for j in range(k) if mask >> j & 1]
            for how in ('remove', 'delete_now', 'delete'):
                for raising in itertools.product((0, 1), repeat=len(members)):
                    out.append((k, mask, how, raising))
    return out


def run_removal(case):
    """k entities with one handler component each, the world owning the
    only strong reference.  While dispatching is disabled the components of
    ``mask`` are detached; their on_remove is postponed, so the world still
    refers to them.  Enabling delivers the callbacks - some of them raise
    (once) - and the program enables again until nothing raises.  Then
    every detached component got on_remove exactly once and is gone."""
    k, mask, how, raising = case
    envx = Env()
    envx.log = []
    envx.fired = set()
    members = [j for j in range(k) if mask >> j & 1]
    envx.plan = {j: 'raise' for j, r in zip(members, raising) if r}
    hits = {}
    w = desper.World()
    refs, ents = [], []
    for i in range(k):
        o = WR(envx, i)
        o._h = i + 1
        refs.append(weakref.ref(o))
        ents.append(w.create_entity(o))
    del o
    w.dispatch_enabled = False
    for j in members:
        if how == 'remove':
            w.remove_component(ents[j], WR)
        elif how == 'delete_now':
            w.delete_entity(ents[j], immediate=True)
        else:
            w.delete_entity(ents[j])
    if how == 'delete':
        w.process(0)
    if envx.log:
        raise Violation('nothing_called_while_disabled', f'{case}: '
                        f'{envx.log}', variant='removal')
    rounds = 0
    while True:
        rounds += 1
        try:
            w.dispatch_enabled = True
        except Stop:
            hits['release_interrupted_by_raising_callback'] = 1
            if rounds > k + 1:
                raise Violation('dispatch_raises_nothing',
                                f'{case}: enabling keeps raising',
                                variant='removal')
            continue
        except Exception as exc:
            raise Violation('dispatch_raises_nothing', f'{case}: {exc!r}',
                            variant='removal')
        break
    if sorted(envx.log) != members:
        raise Violation(
            'postponed_on_remove_delivered_once',
            f'{case}: detached while disabled {members}; on_remove reached '
            f'{envx.log} after {rounds} enabling assignment(s)',
            variant='removal', lost=len(envx.log) < len(members))
    gc.collect()
    for j in range(k):
        alive = refs[j]() is not None
        if alive and j in members:
            raise Violation('dropped_handler_is_released',
                            f'{case}: component {j} was detached, got its '
                            f'on_remove, and the world still keeps it alive',
                            variant='removal')
        if not alive and j not in members:
            raise HarnessError(f'{case}: component {j} died while attached')
    hits['detached_while_disabled'] = 1
    return {'calls': rounds + len(members), 'hits': hits, 'key': repr(case)}


def cases(tier):
    out = []
    ks = (1, 2, 3)
    for variant in ('dispatcher', 'world'):
        for k in ks:
            orders = sorted(calibration(variant, k))
            want = len(list(itertools.permutations(range(k))))
            if len(orders) != want:
                # order not steerable on this tree; the action product is
                # closed under relabelling of listeners (see DESIGN 2.6)
                print(f'note: {len(orders)} of {want} listener orders '
                      f'reachable through __hash__ for {variant}/{k}')
            acts = menu(variant, k)
            premasks = range(1 << k) if (tier == 'thorough' or k < 3) else (
                0, 1, 2, 4)
            for actions in itertools.product(acts, repeat=k):
                for order in orders:
                    for premask in premasks:
                        out.append((variant, k, actions, order, premask))
                        if variant == 'dispatcher' and (
                                tier == 'thorough' or premask == 0):
                            out.append((variant + '+half', k, actions, order,
                                        premask))
                        if tier == 'thorough' or premask == 0:
                            out.append((variant + '+deferred', k, actions,
                                        order, premask))
    return out


def run(tier, rep):
    rep.rule = RULE
    rep.assumptions += [
        'CPython reference counting: an object is freed, and weak reference '
        'callbacks run, as soon as its last strong reference goes away',
        'a listener dropped by an earlier callback of the same dispatch must '
        'not be called (it no longer exists); one dropped after it was called '
        'is fine',
        'part drop-vs-remove (E3): "no longer registered and later dispatches '
        'work normally" is judged differentially - the dispatcher behaves '
        'after losing a listener to the garbage collector exactly as after '
        'remove_handler of that listener, under every later history of '
        'disable / dispatch / one new listener / enable up to the stated '
        'length (deliveries compared as a multiset of (token, listener); '
        'events dispatched while disabled when nobody listened are free - '
        'C04 - and set aside)',
        'part registration-leak (E3): after k = 1, 2, 6 cycles of register '
        '/ dispatch / drop (optionally a further dispatch or a disable-'
        'dispatch-enable between cycles) the generic object graph reachable '
        'from the dispatcher is the same - "no longer registered" also '
        'means that no record of the registration piles up',
        'part detached-while-disabled (E2): the postponed on_remove is what '
        'still refers to a component detached while dispatching is '
        'disabled; once it is delivered (the program enables again after '
        'every callback that raised) the component is released',
    ]
    all_cases = cases(tier)
    rep.require_hits(disappeared_during_dispatch=1,
                     gone_before_being_reached=1,
                     dropped_between_operations=1,
                     half_registered_then_dropped=1,
                     released_by_enabling=1)
    if all(len(calibration(v, 3)) == 6 for v in ('dispatcher', 'world')):
        rep.require_hits(order_012=1, order_021=1, order_102=1, order_120=1,
                         order_201=1, order_210=1)
    for variant in ('dispatcher', 'world'):
        kernel.enumerate_cases(
            run_case, [c for c in all_cases if c[0].split('+')[0] == variant],
            rep, variant,
            params=dict(k=(1, 2, 3), menu=[repr(a) for a in menu(variant, 3)],
                        orders='all k! (calibrated through __hash__)'))
    rep.require_hits(dispatch_while_disabled_after_drop=1,
                     listener_added_over_a_backlog=1)
    kernel.enumerate_cases(run_twin, twin_cases(tier), rep, 'drop-vs-remove',
                           params=dict(listeners=(1, 2), ops=TWIN_OPS,
                                       max_ops=4 if tier == 'quick' else 5))
    rep.require_hits(register_drop_cycles=1)
    kernel.enumerate_cases(run_leak, leak_cases(), rep, 'registration-leak',
                           params=dict(cycles=(1, 2, 6), listeners=(1, 2),
                                       between=('nothing', 'dispatch',
                                                'toggle')))
    rep.require_hits(release_interrupted_by_raising_callback=1,
                     detached_while_disabled=1)
    kernel.enumerate_cases(run_removal, removal_cases(tier), rep,
                           'detached-while-disabled',
                           params=dict(k=(1, 2, 3),
                                       how=('remove', 'delete_now', 'delete'),
                                       faults='every subset raises once'))


def replay(rec):
    try:
        if rec['part'] == 'drop-vs-remove':
            run_twin(kernel.totuple(rec['case']))
            return None
        if rec['part'] == 'registration-leak':
            run_leak(kernel.totuple(rec['case']))
            return None
        if rec['part'] == 'detached-while-disabled':
            run_removal(kernel.totuple(rec['case']))
            return None
        run_case(kernel.totuple(rec['case']))
    except Violation as v:
        return v
    return None
